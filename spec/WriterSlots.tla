---------------------------- MODULE WriterSlots ----------------------------
(* Slot probes (SlotProbe.tla) carrying the line events Writer.tla predicts *)
EXTENDS SlotProbe, Writer

PWFinish ==
    /\ ~done
    /\ Len(plan) = 0
    /\ done' = TRUE
    /\ LET d == CloseAll(stack) IN
       hist' = Append(hist, [a |-> "finish", post |-> d, info |-> info,
                             events |-> Events(d, 0, FALSE), events_sep |-> Events(d, 0, TRUE)])
    /\ UNCHANGED <<stack, target, plan, info>>

PWNext == PStep \/ PWFinish
=============================================================================
