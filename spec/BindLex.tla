------------------------------- MODULE BindLex -------------------------------
(***************************************************************************)
(* Attribute-binding lexemes (C02, C01, C05):  [ name ]  is one value,     *)
(* stored as "[" name "]" with the name's letter case kept and the blanks  *)
(* inside the brackets dropped.  A name is a non-empty run of letters,     *)
(* digits, "_", "-" and ":" - it may start with a digit or a dash and may  *)
(* spell a Mapfile keyword (END, NAME, size ...), which inside brackets is *)
(* never a keyword.  Names are concatenations of up to MaxLen pieces drawn *)
(* from single characters and whole keywords.                              *)
(***************************************************************************)
EXTENDS Naturals, Sequences, FiniteSets, TLC, Json

CONSTANTS MaxLen
Piece == {"a", "0", "-", ":", "_", "END", "NAME", "size"}
Names == UNION {[1..k -> Piece] : k \in 1..MaxLen}

Stored(n) == <<"[">> \o n \o <<"]">>
Source(n, pad) == IF pad THEN <<"[", " ">> \o n \o <<" ", "]">> ELSE Stored(n)
Strip(s) == SelectSeq(s, LAMBDA x : x # " ")

VARIABLES n, pad, phase
Init == n \in Names /\ pad \in BOOLEAN /\ phase = "new"
Next == phase = "new" /\ phase' = "done" /\ UNCHANGED <<n, pad>>

\* laws: the stored form is the source without its blanks; padding never changes it; brackets only at the ends
StoredIsStripped == Strip(Source(n, pad)) = Stored(n)
PadIrrelevant    == Strip(Source(n, TRUE)) = Strip(Source(n, FALSE))
BracketsAtEnds   == \A i \in 2..(Len(Stored(n)) - 1) : Stored(n)[i] \notin {"[", "]"}
Emit == phase = "done" => PrintT(ToJson([n |-> n, pad |-> pad, source |-> Source(n, pad), stored |-> Stored(n)]))
=============================================================================
