------------------------------- MODULE Reader -------------------------------
(***************************************************************************)
(* The text -> dict contract of mappyfile (property C02), written as a     *)
(* stack machine that consumes one Mapfile *item* per step, together with  *)
(* the document builder (DocBuilder) that drives it.                       *)
(*                                                                         *)
(* A document is built by the actions Open / Attr / Repeated / KV / Config *)
(* / Projection / Points / Pattern / End.  Each action is enabled only     *)
(* where the extracted vocabulary (module Vocab, generated from the        *)
(* current tree) allows it.  The Reader state is the stack of open blocks, *)
(* each holding the insertion-ordered abstract dict built so far.          *)
(*                                                                         *)
(* Values never carry text: a source value is [sh, id, ...] (shape and an  *)
(* interned id); the dict value the Reader predicts is                     *)
(*   [py |-> "str"|"int"|"float"|"bool", of |-> <source value>, f |-> ...] *)
(* read as "the Python value of type py equal to the content of that       *)
(* source lexeme (lower-cased when f = "lower")".                          *)
(***************************************************************************)
EXTENDS Naturals, Sequences, FiniteSets, TLC, Json, Vocab

CONSTANTS
    MaxDepth,      \* maximal nesting of blocks (property: <= 5 below the root)
    MaxSteps,      \* maximal number of builder actions in one document
    Ids,           \* interned payload ids
    StepPosts,     \* TRUE: history carries the expected dict after every action
    Mode           \* "walk" (random walks; simulate) | "slots" (one document per slot)

VARIABLES stack, hist, done, target

vars == <<stack, hist, done, target>>

AllCases == {"U", "l", "M"}       \* surface case of a keyword: UPPER, lower, MiXeD
CasesOne == {"U"}
Cases    == AllCases              \* (bounded model-checking configs override: Cases <- CasesOne)

-----------------------------------------------------------------------------
(* Abstract insertion-ordered dicts: Seq(<<key, value>>)                   *)

HasKey(d, k)   == \E i \in 1..Len(d) : d[i][1] = k
Idx(d, k)      == CHOOSE i \in 1..Len(d) : d[i][1] = k
Get(d, k)      == d[Idx(d, k)][2]
\* a key given twice keeps its last value, at the position of its first insertion
SetKeepPos(d, k, v) == IF HasKey(d, k) THEN [d EXCEPT ![Idx(d, k)] = <<k, v>>]
                                        ELSE Append(d, <<k, v>>)
List(es)       == [py |-> "list", elems |-> es]
\* repeatable things are collected, in source order, in a list stored where the first one was
AppendAt(d, k, v) ==
    IF HasKey(d, k) /\ Get(d, k).py = "list"
    THEN [d EXCEPT ![Idx(d, k)] = <<k, List(Append(Get(d, k).elems, v))>>]
    ELSE SetKeepPos(d, k, List(<<v>>))

\* "+es after a final s, +s otherwise" (docs/transformer.rst); "class" is the only block type ending in s
Plural(t) == IF t = "class" THEN "classes" ELSE t \o "s"

-----------------------------------------------------------------------------
(* Value typing: what loads must store for a source value                  *)

NumVal(e) == [py |-> e.sh, of |-> e]                       \* "int" or "float", by value

ValOf(v) ==
    CASE v.sh = "int"   -> [py |-> "int",   of |-> v]
      [] v.sh = "float" -> [py |-> "float", of |-> v]
      [] v.sh = "bool"  -> [py |-> "bool",  b |-> v.b]
      [] v.sh = "hex"   -> [py |-> "str", of |-> v, f |-> "lower"]      \* hex colours are lower-cased
      [] v.sh \in {"numlist2", "numlist3", "numlist4", "numlist6"}
                        -> List([i \in 1..Len(v.elems) |-> NumVal(v.elems[i])])
      [] v.sh = "hexpair"  -> List([i \in 1..2 |-> [py |-> "str", of |-> v.elems[i], f |-> "lower"]])
      [] v.sh = "bindpair" -> List([i \in 1..2 |-> [py |-> "str", of |-> v.elems[i], f |-> "asis"]])
      [] v.sh = "mixedpair" -> List([i \in 1..2 |->
                                 IF v.elems[i].sh = "bind" THEN [py |-> "str", of |-> v.elems[i], f |-> "asis"]
                                                           ELSE NumVal(v.elems[i])])
      [] OTHER -> [py |-> "str", of |-> v, f |-> "asis"]   \* str char strpat enum bind expr regex listexpr: verbatim

KVDict(type, pairs) ==                \* keys lower-cased; duplicate key keeps last value, first position
    LET RECURSIVE F(_, _)
        F(d, i) == IF i > Len(pairs) THEN d
                   ELSE F(SetKeepPos(d, [of |-> [pairs[i][1] EXCEPT !.n = 0], f |-> "lower"],   \* n: surface variant only
                                        [py |-> "str", of |-> pairs[i][2], f |-> "asis"]), i + 1)
    IN  [py |-> "dict", type |-> type, items |-> F(<<>>, 1)]

\* POINTS / PATTERN bodies: lists of number pairs
PairsVal(pairs) == [i \in 1..Len(pairs) |-> List(<<NumVal(pairs[i][1]), NumVal(pairs[i][2])>>)]
IsParts(v) == Len(v.elems) > 0 /\ Len(v.elems[1].elems) > 0 /\ v.elems[1].elems[1].py = "list"

\* Put: what consuming one item does to the dict of the enclosing block
Put(d, it) ==
    CASE it.a = "attr"     -> SetKeepPos(d, it.key, ValOf(it.val))
      [] it.a = "repeated" -> AppendAt(d, it.key, [py |-> "str", of |-> it.val, f |-> "asis"])
      [] it.a = "kv"       -> SetKeepPos(d, it.type, KVDict(it.type, it.pairs))
      [] it.a = "config"   ->
            LET old == IF HasKey(d, "config") THEN Get(d, "config").items ELSE <<>>
                new == SetKeepPos(old, [of |-> it.k, f |-> "lower"], [py |-> "str", of |-> it.v, f |-> "asis"])
            IN  SetKeepPos(d, "config", [py |-> "dict", type |-> "", items |-> new])
      [] it.a = "projection" ->
            SetKeepPos(d, "projection",
                       IF it.auto THEN List(<<[py |-> "str", of |-> [sh |-> "auto", cs |-> it.cs], f |-> "asis"]>>)
                       ELSE List([i \in 1..Len(it.strs) |-> [py |-> "str", of |-> it.strs[i], f |-> "asis"]]))
      [] it.a = "pattern"  -> SetKeepPos(d, "pattern", List(PairsVal(it.pairs)))
      [] it.a = "points"   ->
            IF ~HasKey(d, "points") THEN Append(d, <<"points", List(PairsVal(it.pairs))>>)
            ELSE LET old == Get(d, "points")
                     \* a second POINTS block turns the value into a list of parts (one level deeper)
                     parts == IF IsParts(old) THEN old.elems ELSE <<List(old.elems)>>
                 IN  [d EXCEPT ![Idx(d, "points")] = <<"points", List(Append(parts, List(PairsVal(it.pairs))))>>]

\* a closed block goes into its parent: singleton -> nested dict (last wins), others -> plural list
PutBlock(d, type, items) ==
    LET b == [py |-> "dict", type |-> type, items |-> items]
    IN  IF type \in Singletons THEN SetKeepPos(d, type, b) ELSE AppendAt(d, Plural(type), b)

-----------------------------------------------------------------------------
(* The stack machine                                                       *)

Top      == stack[Len(stack)]
Steps    == Len(hist)

RECURSIVE CloseAll(_)
CloseAll(s) == IF Len(s) = 1 THEN [py |-> "dict", type |-> s[1].type, items |-> s[1].d]
               ELSE LET n == Len(s)
                        parent == [s[n - 1] EXCEPT !.d = PutBlock(@, s[n].type, s[n].d)]
                    IN  CloseAll(Append(SubSeq(s, 1, n - 2), parent))

Record(act, newstack) ==
    hist' = Append(hist, IF StepPosts THEN [act EXCEPT !.post = CloseAll(newstack)] ELSE act)

Apply(act) ==
    LET newtop   == [Top EXCEPT !.d = Put(@, act)]
        newstack == [stack EXCEPT ![Len(stack)] = newtop]
    IN  /\ stack' = newstack
        /\ Record(act, newstack)

SlotsBy == [t \in SchemaTypes |-> {s \in Slots : s[1] = t}]

ScalarShapes == {"str", "char", "strpat", "enum", "int", "float", "bool", "hex", "bind", "expr", "regex", "listexpr", "istring"}
ListShapes   == {"numlist2", "numlist3", "numlist4", "numlist6", "hexpair", "bindpair", "mixedpair"}

Num(sh, id) == [sh |-> sh, id |-> id]

\* the source values of shape s[3] (finite, small): enumerated in "slots" mode,
\* one drawn at random in "walk" mode
ValuesOf(s) ==
    LET sh == s[3] IN
    CASE sh = "enum" -> {[sh |-> "enum", w |-> s[4], cs |-> c] : c \in Cases}
      [] sh = "bool" -> {[sh |-> "bool", b |-> b, cs |-> c] : b \in BOOLEAN, c \in Cases}
      [] sh = "numlist2" -> {[sh |-> sh, elems |-> <<Num(a, 1), Num(b, 2)>>] : a, b \in {"int", "float"}}
      [] sh = "numlist3" -> {[sh |-> sh, elems |-> <<Num("int", 1), Num("int", 2), Num("int", 3)>>]}
      [] sh = "numlist4" -> {[sh |-> sh, elems |-> <<Num(a, 1), Num(b, 2), Num("int", 3), Num(a, 4)>>] : a, b \in {"int", "float"}}
      [] sh = "numlist6" -> {[sh |-> sh, elems |-> [i \in 1..6 |-> Num("int", i)]]}
      [] sh = "hexpair"  -> {[sh |-> sh, elems |-> <<[sh |-> "hex", id |-> 1], [sh |-> "hex", id |-> 2]>>]}
      [] sh = "bindpair" -> {[sh |-> sh, elems |-> <<[sh |-> "bind", id |-> 1], [sh |-> "bind", id |-> 2]>>]}
      [] sh = "mixedpair" -> {[sh |-> sh, elems |-> <<[sh |-> "bind", id |-> 1], Num(a, 2)>>] : a \in {"int", "float"}}
                             \cup {[sh |-> sh, elems |-> <<Num(a, 1), [sh |-> "bind", id |-> 2]>>] : a \in {"int", "float"}}
      [] sh = "strpat" -> {[sh |-> sh, id |-> i, w |-> s[4]] : i \in Ids}
      [] OTHER -> {[sh |-> sh, id |-> i] : i \in Ids}

\* "nodup": a walk in which nothing is given twice in one block; "dupattr": only simple keywords may repeat
IsWalk  == Mode \in {"walk", "nodup", "dupattr"}
NoDupBlock == Mode \in {"nodup", "dupattr", "nodupall"}     \* "nodupall": like "nodup", but every choice is enumerated
Pick(S) == IF IsWalk THEN {RandomElement(S)} ELSE S

AttrSlots(t)  == {s \in SlotsBy[t] : s[3] \in ScalarShapes \cup ListShapes}
BlockSlots(t) == {s \in SlotsBy[t] : s[3] \in {"block", "blocklist"}}
OtherSlots(t, shape) == {s \in SlotsBy[t] : s[3] = shape}

Attr ==
    /\ AttrSlots(Top.type) # {}
    /\ \E s \in Pick(AttrSlots(Top.type)) :
         \E v \in Pick(ValuesOf(s)), kc \in Pick(Cases) :
            /\ (Mode \in {"nodup", "nodupall"} => ~HasKey(Top.d, s[2]))
            /\ Apply([a |-> "attr", key |-> s[2], kc |-> kc, val |-> v, post |-> <<>>])
    /\ UNCHANGED <<done, target>>

Repeated ==
    /\ \E s \in Pick(OtherSlots(Top.type, "repeated") \cup {<<"", "", "", "">>}) :
         /\ s[1] # ""
         /\ \E i \in Pick(Ids), kc \in Pick(Cases) :
              Apply([a |-> "repeated", key |-> s[2], kc |-> kc, val |-> [sh |-> "str", id |-> i], post |-> <<>>])
    /\ UNCHANGED <<done, target>>

IdSeqs(n) == [1..n -> Ids]

KV ==
    /\ \E s \in Pick(OtherSlots(Top.type, "kv") \cup {<<"", "", "", "">>}) :
         /\ s[1] # ""
         /\ (NoDupBlock => ~HasKey(Top.d, s[2]))
         /\ \E n \in Pick(0..3), kc \in Pick(Cases) :
            \E ks \in Pick(IdSeqs(n)), vs \in Pick(IdSeqs(n)) :
              Apply([a |-> "kv", type |-> s[4], kc |-> kc,
                     pairs |-> [i \in 1..n |-> <<[sh |-> "kvkey", id |-> ks[i], n |-> i], [sh |-> "str", id |-> vs[i]]>>],
                     post |-> <<>>])
    /\ UNCHANGED <<done, target>>

Config ==
    /\ OtherSlots(Top.type, "config") # {}
    /\ (NoDupBlock => ~HasKey(Top.d, "config"))
    /\ \E k \in Pick(Ids), v \in Pick(Ids), kc \in Pick(Cases) :
         Apply([a |-> "config", kc |-> kc, k |-> [sh |-> "cfgkey", id |-> k], v |-> [sh |-> "str", id |-> v], post |-> <<>>])
    /\ UNCHANGED <<done, target>>

Projection ==
    /\ OtherSlots(Top.type, "projection") # {}
    /\ (NoDupBlock => ~HasKey(Top.d, "projection"))
    /\ \E auto \in Pick(BOOLEAN), n \in Pick(1..3), kc \in Pick(Cases) :
        \E ids \in Pick(IdSeqs(n)) :
         Apply([a |-> "projection", kc |-> kc, auto |-> auto, cs |-> kc,
                strs |-> [i \in 1..n |-> [sh |-> "str", id |-> ids[i]]], post |-> <<>>])
    /\ UNCHANGED <<done, target>>

Points ==
    /\ OtherSlots(Top.type, "points") \cup OtherSlots(Top.type, "pointslist") # {}
    /\ \E s \in Pick({x \in SlotsBy[Top.type] : x[3] \in {"points", "pointslist"}}) :
        \E n \in Pick(1..3), kc \in Pick(Cases) :
         /\ (NoDupBlock => ~HasKey(Top.d, s[2]))
         /\ \E ts \in Pick([1..(2 * n) -> {"int", "float"}]) :
              Apply([a |-> IF s[2] = "pattern" THEN "pattern" ELSE "points", kc |-> kc,
                     pairs |-> [i \in 1..n |-> <<Num(ts[2 * i - 1], 2 * i - 1), Num(ts[2 * i], 2 * i)>>],
                     post |-> <<>>])
    /\ UNCHANGED <<done, target>>

Open ==
    /\ Len(stack) <= MaxDepth
    /\ BlockSlots(Top.type) # {}
    /\ \E s \in Pick(BlockSlots(Top.type)), kc \in Pick(Cases) :
         /\ (NoDupBlock /\ s[4] \in Singletons => ~HasKey(Top.d, s[4]))
         \* an inline SYMBOL block inside STYLE/CLASS is stored under "symbols": finding 14; not generated
         /\ ~(s[2] = "symbol" /\ s[4] = "symbol")
         /\ LET newstack == Append(stack, [type |-> s[4], d |-> <<>>])
            IN  /\ stack' = newstack
                /\ Record([a |-> "open", type |-> s[4], kc |-> kc, post |-> <<>>], newstack)
    /\ UNCHANGED <<done, target>>

End ==
    /\ Len(stack) > 1
    /\ \E kc \in Pick(Cases) :
       LET n == Len(stack)
           parent == [stack[n - 1] EXCEPT !.d = PutBlock(@, Top.type, Top.d)]
           newstack == Append(SubSeq(stack, 1, n - 2), parent)
       IN  /\ stack' = newstack
           /\ Record([a |-> "end", kc |-> kc, post |-> <<>>], newstack)
    /\ UNCHANGED <<done, target>>

Finish ==
    /\ ~done
    /\ Steps >= target
    /\ done' = TRUE
    /\ hist' = Append(hist, [a |-> "finish", post |-> CloseAll(stack)])
    /\ UNCHANGED <<stack, target>>

\* (simulation draws uniformly among enabled disjuncts; simple keywords are the common case)
Attr2 == Attr
Attr3 == Attr
Build == ~done /\ Steps < target /\ (Attr \/ Attr2 \/ Attr3 \/ Repeated \/ KV \/ Config \/ Projection \/ Points \/ Open \/ End)

RootTypes == SchemaTypes

Init ==
    /\ \E t \in RootTypes : stack = <<[type |-> t, d |-> <<>>]>>    \* (initial states are enumerated, not drawn)
    /\ hist = <<>>
    /\ done = FALSE
    /\ target \in 1..MaxSteps

Next == Build \/ Finish

Spec == Init /\ [][Next]_vars

-----------------------------------------------------------------------------
(* Invariants of the Reader, checked on every reachable state (C02, model level) *)

RECURSIVE DictOK(_)
DictOK(d) ==     \* keys unique; nested dicts OK
    /\ \A i, j \in 1..Len(d) : i # j => d[i][1] # d[j][1]
    /\ \A i \in 1..Len(d) :
         LET v == d[i][2] IN
           /\ (v.py = "dict" => DictOK(v.items))
           /\ (v.py = "list" => \A e \in 1..Len(v.elems) :
                                   (v.elems[e].py = "dict" => DictOK(v.elems[e].items)))

KeysUnique == \A i \in 1..Len(stack) : DictOK(stack[i].d)

\* plural list keys hold only non-singleton blocks, singletons are nested dicts
PluralOnlyForRepeatable ==
    \A i \in 1..Len(stack) : \A j \in 1..Len(stack[i].d) :
        LET k == stack[i].d[j][1]  v == stack[i].d[j][2] IN
          /\ (v.py = "dict" /\ v.type # "" /\ k # "config" => (v.type \in Singletons /\ k = v.type))
          /\ (v.py = "list" /\ Len(v.elems) > 0 /\ v.elems[1].py = "dict" =>
                 \A e \in 1..Len(v.elems) : v.elems[e].type \notin Singletons /\ k = Plural(v.elems[e].type))

\* repeatable keywords are always lists
RepeatedAreLists ==
    \A i \in 1..Len(stack) : \A j \in 1..Len(stack[i].d) :
        stack[i].d[j][1] \in RepeatedKeys => stack[i].d[j][2].py = "list"

\* nothing dropped: every consumed item is visible in the dict of the block it was written in,
\* except where the contract says a later duplicate replaces it
RECURSIVE Leaves(_)
Leaves(d) == IF Len(d) = 0 THEN 0
             ELSE (LET v == d[1][2] IN IF v.py = "list" THEN Len(v.elems) ELSE 1) + Leaves(Tail(d))

\* history / emission ------------------------------------------------------
Emit == done => PrintT(ToJson(hist))
NoEmit == TRUE

Bound == Steps <= MaxSteps + 1
=============================================================================
