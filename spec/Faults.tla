------------------------------- MODULE Faults -------------------------------
(***************************************************************************)
(* C07 (and the message-location clause of C08): starting from a           *)
(* schema-valid document, inject up to two faults and state which          *)
(* validation messages must appear.                                        *)
(*                                                                         *)
(*   value faults  (message names the KEYWORD):  enum-outside, below-min,  *)
(*       above-max, wrong-arity, wrong-type, elem-wrong-type (inside a     *)
(*       list-valued keyword)                                              *)
(*   object faults (message names the enclosing OBJECT type):              *)
(*       unknown-keyword, missing-required                                 *)
(*                                                                         *)
(* Variants that must not change the verdict (stuttering for the verdict): *)
(* upper-casing keys / string values, adding hidden __name__ keys,         *)
(* validating a list of root dicts one by one.                             *)
(***************************************************************************)
EXTENDS Reader

CONSTANT MaxFaults,
         BlocksOnly     \* TRUE: documents made of nested blocks only (object-level faults at depth)

VARIABLES faults, variant, sealed

fvars == <<stack, hist, done, target, faults, variant, sealed>>

Items == IF done THEN Len(hist) - 1 ELSE 0
Act(i) == hist[i]

\* block type enclosing item i (replay of the open/end structure)
RECURSIVE TypeStack(_, _)
TypeStack(i, st) ==      \* stack of block types after the first i items
    IF i = 0 THEN st
    ELSE LET prev == TypeStack(i - 1, st) IN
         IF hist[i].a = "open" THEN Append(prev, hist[i].type)
         ELSE IF hist[i].a = "end" THEN SubSeq(prev, 1, Len(prev) - 1)
         ELSE prev
RootType == hist[Len(hist)].post.type
Enclosing(i) == LET s == TypeStack(i - 1, <<RootType>>) IN s[Len(s)]

ShapesOf(t, k) == {s[3] : s \in {x \in Slots : x[1] = t /\ x[2] = k}}

ValueFaults(i) ==
    LET a == Act(i)  t == Enclosing(i) IN
    IF a.a \in {"pattern", "points"} THEN {"pair-elem-wrong-type"}   \* a wrong-typed number inside a list of pairs
    ELSE IF a.a = "repeated" THEN {"repeated-wrong-type"}             \* a number where a repeated keyword wants a string
    ELSE IF a.a # "attr" \/ <<t, a.key>> \in Required THEN {}      \* (a required keyword is the target of missing-required)
    ELSE LET k == a.key  sh == a.val.sh  shapes == ShapesOf(t, k) IN
         (IF sh = "enum" /\ shapes \subseteq {"enum"} THEN {"enum-outside"} ELSE {})
         \cup (IF sh \in {"int", "float"} /\ <<t, k>> \in HasMin THEN {"below-min"} ELSE {})
         \cup (IF sh \in {"int", "float"} /\ <<t, k>> \in HasMax THEN {"above-max"} ELSE {})
         \cup (IF sh \in {"numlist2", "numlist3", "numlist4", "numlist6"} /\ Cardinality(shapes) = 1 THEN {"wrong-arity", "elem-wrong-type"} ELSE {})
         \cup (IF sh = "str" /\ shapes = {"str"} THEN {"wrong-type"} ELSE {})
         \cup (IF sh = "bool" /\ shapes = {"bool"} THEN {"wrong-type"} ELSE {})
         \* an integral float (400.0) where the schema wants an integer: draft 4 "integer" does not accept it
         \cup (IF sh = "int" /\ shapes = {"int"} THEN {"int-as-float"} ELSE {})

ObjectFaults(i) ==     \* i = 0: the root block; otherwise an "open" item
    LET t == IF i = 0 THEN RootType ELSE Act(i).type IN
    IF i > 0 /\ Act(i).a # "open" THEN {}
    ELSE {"unknown-keyword"} \cup (IF \E r \in Required : r[1] = t THEN {"missing-required"} ELSE {})
         \* an item of an object collection (LAYERS, CLASSES...) replaced by something that is not an object;
         \* only as the sole fault of a behaviour (items inside the replaced block are gone)
         \cup (IF i > 0 /\ t \notin Singletons /\ faults = <<>> THEN {"objlist-item-not-object"} ELSE {})

NameOf(i, kind) ==
    IF kind = "objlist-item-not-object" THEN Plural(Act(i).type)
    ELSE IF kind \in {"unknown-keyword", "missing-required"} THEN (IF i = 0 THEN RootType ELSE Act(i).type)
    ELSE IF Act(i).a \in {"pattern", "points"} THEN Act(i).a
    ELSE IF Act(i).a = "repeated" THEN Act(i).key
    ELSE Act(i).key

Inject ==
    /\ done /\ ~sealed /\ Len(faults) < MaxFaults
    /\ \E i \in Pick(0..Items) :
         LET ks == IF i = 0 THEN ObjectFaults(0) ELSE ValueFaults(i) \cup ObjectFaults(i) IN
         /\ ks # {}
         /\ \A j \in 1..Len(faults) : faults[j].item # i            \* one fault per item
         /\ \A j \in 1..Len(faults) : faults[j].kind # "objlist-item-not-object"
         /\ \E kind \in Pick(ks) :
              faults' = Append(faults, [item |-> i, kind |-> kind, name |-> NameOf(i, kind)])
    /\ UNCHANGED <<stack, hist, done, target, variant, sealed>>

Variants == {"none", "upper-values", "upper-keys", "hidden", "aslist"}
VariantsNone == {"none"}

Seal == /\ done /\ ~sealed
        /\ sealed' = TRUE
        /\ variant' \in Pick(Variants)
        /\ UNCHANGED <<stack, hist, done, target, faults>>

FInit == Init /\ faults = <<>> /\ variant = "none" /\ sealed = FALSE
Inject2 == Inject
BuildBlocks == ~done /\ Steps < target /\ (Open \/ End)
FNext == ((IF BlocksOnly THEN BuildBlocks ELSE Build) /\ UNCHANGED <<faults, variant, sealed>>) \/ (Finish /\ UNCHANGED <<faults, variant, sealed>>)
         \/ Inject \/ Inject2 \/ Seal

\* what validate must return: no message iff no fault; a message naming every fault's keyword / object
ExpectedNames == [j \in 1..Len(faults) |-> faults[j].name]
FEmit == sealed => PrintT(ToJson([hist |-> hist, faults |-> faults, variant |-> variant,
                                   expect_empty |-> (Len(faults) = 0), names |-> ExpectedNames]))

\* model-level: the verdict is a function of the faults only (variants are stuttering)
VerdictIgnoresVariant == sealed => (Len(faults) = 0) = (ExpectedNames = <<>>)
=============================================================================
