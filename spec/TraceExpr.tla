------------------------------ MODULE TraceExpr ------------------------------
(***************************************************************************)
(* (T) for property C10: validates traces recorded from the real code.     *)
(* One NDJSON line per trace:                                              *)
(*   tid   trace id                                                        *)
(*   src   tokens of the source expression (as TLC generated it)           *)
(*   st    tokens of the string loads stored                               *)
(*   pr    tokens of the text dumps printed for that value                 *)
(*   rlok  the printed text could be loaded again                          *)
(*   rl    tokens of the string stored after re-loading                    *)
(* tokenised by the harness' independent tokenizer (token format: Expr).   *)
(* Every trace gets exactly one verdict <<tid, clause, detail>>; the       *)
(* clauses are checked in this order and the first failing one is named:   *)
(*   bad-src           the source does not denote anything (harness bug)   *)
(*   spelling          operands / operator spellings not kept in order,    *)
(*                     or && || ! not spelled AND OR NOT                   *)
(*   malformed         the stored string is not an expression              *)
(*   regroup           Denote(stored) # Denote(src)                        *)
(*   outer-parens      the stored string is not one parenthesised group    *)
(*                     (a bare list expression: is not stored bare)        *)
(*   printed           printed tokens # stored tokens                      *)
(*   reload-rejected   the printed text is not accepted                    *)
(*   reload-differs    reloaded tokens # stored tokens                     *)
(*   ok                                                                    *)
(***************************************************************************)
EXTENDS Expr, IOUtils

Traces == ndJsonDeserialize(IOEnv.TRACE_FILE)

VARIABLE idx

\* coarse operator class used in the detail of a verdict
Coarse(k) == CASE k \in Arith \cup {"NEG"} -> "arith"
               [] k = "CMP" -> "cmp"
               [] k = "OR"  -> "or"
               [] k = "AND" -> "and"
               [] k = "NOT" -> "not"
               [] OTHER -> "leaf"

\* first position at which two token sequences differ: <<class in a, class in b>> ("-" = missing)
RECURSIVE SeqDiff(_, _, _)
SeqDiff(a, b, i) ==
    IF i > Len(a) /\ i > Len(b) THEN <<"=", "=">>
    ELSE IF i > Len(a) THEN <<"-", b[i][1]>>
    ELSE IF i > Len(b) THEN <<a[i][1], "-">>
    ELSE IF a[i] # b[i] THEN <<a[i][1], b[i][1]>>
    ELSE SeqDiff(a, b, i + 1)

\* kinds of the first pair of nodes (pre-order) at which two denotations differ
RECURSIVE TreeDiff(_, _)
TreeDiff(a, b) ==
    IF a[1] # b[1] THEN <<a[1], b[1]>>
    ELSE IF a[1] \in {"ATOM", "FUNC", "LIST", "ERR"} THEN <<a[1], b[1]>>
    ELSE IF a[2] # b[2] THEN <<a[1], b[1]>>
    ELSE IF a[3] # b[3] THEN TreeDiff(a[3], b[3])
    ELSE TreeDiff(a[4], b[4])

\* the stored string writes a unary minus directly in front of another minus or NOT ("--x", "-NOT x")
MinusGlued(ts) == \E i \in 1..(Len(ts) - 1) : ts[i][1] = "NEG" /\ ts[i + 1][1] \in {"NEG", "NOT"}
ReloadClass(tr, top) == IF MinusGlued(tr.st) THEN "minus-glued" ELSE Coarse(top)

Verdict(tr) ==
    LET ds  == Denote(tr.src)
        dst == Denote(tr.st)
        V(c, d) == [tid |-> tr.tid, c |-> c, d |-> d]
    IN  IF ds = ErrT THEN V("bad-src", <<"", "">>)
        ELSE IF Flat(tr.st) # NormFlat(tr.src) THEN V("spelling", SeqDiff(NormFlat(tr.src), Flat(tr.st), 1))
        ELSE IF dst = ErrT THEN V("malformed", <<"", "">>)
        ELSE IF dst # ds THEN LET p == TreeDiff(ds, dst) IN V("regroup", <<Coarse(p[1]), Coarse(p[2])>>)
        ELSE IF Matched(tr.src) /\ ~Matched(tr.st)
             THEN V("outer-parens", <<Coarse(dst[1]), IF StartsEnds(tr.st) THEN "of-parens" ELSE "bare">>)
        ELSE IF ~Matched(tr.src) /\ Matched(tr.st) THEN V("outer-parens", <<Coarse(dst[1]), "added">>)
        ELSE IF tr.pr # tr.st THEN V("printed", SeqDiff(tr.st, tr.pr, 1))
        ELSE IF ~tr.rlok THEN V("reload-rejected", <<ReloadClass(tr, dst[1]), "">>)
        ELSE IF tr.rl # tr.st THEN V("reload-differs", <<ReloadClass(tr, dst[1]), "">>)
        ELSE V("ok", <<"", "">>)

TInit == /\ idx = 0
         /\ tree = <<>> /\ todo = <<>> /\ stack = <<>> /\ forest = <<>> /\ ops = 0 /\ aux = 0 /\ phase = "trace"

TNext == /\ idx < Len(Traces)
         /\ idx' = idx + 1
         /\ PrintT(ToJson(Verdict(Traces[idx + 1])))
         /\ UNCHANGED vars
=============================================================================
