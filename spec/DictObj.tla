------------------------------ MODULE DictObj ------------------------------
(***************************************************************************)
(* Property C17: the dictionaries returned by loads                        *)
(* (mappyfile.ordereddict.CaseInsensitiveOrderedDict / DefaultOrderedDict) *)
(* are case-insensitive, insertion-ordered dicts with an auto-creating     *)
(* default hook, and copy / deepcopy / pickle keep class, hook and content. *)
(*                                                                         *)
(* State of the dictionary under test:                                     *)
(*   items   : Seq(<<lower key, value>>)                                   *)
(*   factory : "None" | "Dict"                                             *)
(*   heap    : id -> mutable object ([k |-> "list"|"dict"|"ci", elems]);   *)
(*             the elems of a dict object are its values, stored under the *)
(*             keys k1, k2, ...                                            *)
(*             values are [t |-> "int"|"none", n] or references            *)
(*             [t |-> "ref", n |-> id]; identities express aliasing:       *)
(*             copy shares the values, deepcopy / pickle share none.       *)
(* Observation (hidden from the VIEW):                                     *)
(*   obs  : the last operation, its result, the heap right after it        *)
(*          (including transient objects: popped values, copies)           *)
(*   hist : the behaviour so far (walk mode) / its length (graph mode)     *)
(*                                                                         *)
(* Ids of live objects keep their meaning across a step; new objects get   *)
(* the smallest ids that are free in the pre-state; ids that are no longer *)
(* reachable from items are collected after the step (finite state space). *)
(***************************************************************************)
EXTENDS Naturals, Sequences, FiniteSets, TLC, Json

CONSTANTS
    Keys,        \* key alphabet, mixed case
    Cls,         \* "ci" CaseInsensitiveOrderedDict | "dod" DefaultOrderedDict (lower-case keys only)
    MaxId,       \* size of the heap
    MaxSteps,    \* graph mode: histories up to this length are explored
    MaxPairs,    \* longest pair list handed to update / the constructor
    SetVals,     \* value specs for SetItem / SetDefault
    PairVals,    \* value specs inside pair lists
    Origins,     \* where the dictionary under test comes from: "ctor" (constructed directly) or "loads:<block>" -
                 \* an object the library itself handed out (loads of a document, possibly a nested block such as
                 \* web.metadata), emptied through its own keys() / del; such objects always carry the hook
    Factories,   \* initial default hooks explored by this run: subset of {"None", "Dict"}
    Mixed,       \* TRUE: update / the constructor are also called with a positional argument AND keyword arguments
    AdoptSet,    \* {FALSE} or BOOLEAN: may the walk continue on a copy / a constructed dict
    Mode,        \* "graph" (every transition once) | "walk" (random behaviours)
    Bug          \* "none"; anything else selects a deliberately wrong variant (negative configs)

VARIABLES items, factory, heap, origin, obs, hist

vars == <<items, factory, heap, origin, obs, hist>>
View == <<items, factory, heap, origin>>

V == INSTANCE Vocab             \* tables extracted from the tree: V!ObjectListKeys

Fold(k) == CASE k = "A" -> "a" [] k = "B" -> "b" [] k = "C" -> "c"
             [] k = "LAYERS" -> "layers" [] k = "Layers" -> "layers"
             [] k = "CLASSES" -> "classes" [] k = "Classes" -> "classes"
             [] k = "__TYPE__" -> "__type__" [] k = "__Type__" -> "__type__"      \* bookkeeping keys are keys like any other
             [] OTHER -> k

-----------------------------------------------------------------------------
(* values and heap                                                         *)
I(n)      == [t |-> "int", n |-> n]
R(i)      == [t |-> "ref", n |-> i]
NoneV     == [t |-> "none", n |-> 0]
Bool(b)   == [t |-> "bool", n |-> IF b THEN 1 ELSE 0]
KeyErr    == [t |-> "KeyError", n |-> 0]
DfltV     == I(9)
FreeObj   == [k |-> "free", elems |-> <<>>]
Obj(k, e) == [k |-> k, elems |-> e]

Min(S)     == CHOOSE x \in S : \A y \in S : x <= y
Rank(x, S) == Cardinality({y \in S : y <= x})
Nth(S, j)  == CHOOSE x \in S : Rank(x, S) = j

RefsOf(vs)   == {vs[i].n : i \in {j \in DOMAIN vs : vs[j].t = "ref"}}
ValsOf(its)  == [i \in DOMAIN its |-> its[i][2]]
\* everything reachable from the items, at any nesting depth
RECURSIVE Closure(_, _)
Closure(Sx, h) == LET nxt == Sx \cup UNION {RefsOf(h[i].elems) : i \in Sx}
                  IN  IF nxt = Sx THEN Sx ELSE Closure(nxt, h)
Reach(its, h) == Closure(RefsOf(ValsOf(its)), h)
Live         == Reach(items, heap)
Avail(L)     == (1..MaxId) \ L

\* Alloc: turn a value spec into a value, allocating new objects outside L
Alloc(vs, h, L) ==
    CASE vs = "i0"   -> [v |-> I(0),  h |-> h, new |-> {}]                 \* falsy number
      [] vs = "i1"   -> [v |-> I(1),  h |-> h, new |-> {}]
      [] vs = "i2"   -> [v |-> I(2),  h |-> h, new |-> {}]
      [] vs = "none" -> [v |-> NoneV, h |-> h, new |-> {}]
      [] vs \in {"list", "dict", "ci"} ->
            LET a == Min(Avail(L)) IN [v |-> R(a), h |-> [h EXCEPT ![a] = Obj(vs, <<>>)], new |-> {a}]
      [] vs = "ldict" ->                                     \* a list holding one (empty) Mapfile dict
            LET a == Min(Avail(L))
                b == Min(Avail(L \cup {a}))
            IN  [v |-> R(a), h |-> [h EXCEPT ![a] = Obj("list", <<R(b)>>), ![b] = Obj("ci", <<>>)], new |-> {a, b}]

      [] vs = "llist" ->                                     \* a list of lists: [[1]]  (POINTS with several parts)
            LET a == Min(Avail(L))
                b == Min(Avail(L \cup {a}))
            IN  [v |-> R(a), h |-> [h EXCEPT ![a] = Obj("list", <<R(b)>>), ![b] = Obj("list", <<I(1)>>)], new |-> {a, b}]
      [] vs = "dll" ->                                       \* a Mapfile dict holding a list of lists: {k1: [[1], 2]}
            LET a == Min(Avail(L))
                b == Min(Avail(L \cup {a}))
                c == Min(Avail(L \cup {a, b}))
            IN  [v |-> R(a), h |-> [h EXCEPT ![a] = Obj("ci", <<R(b)>>), ![b] = Obj("list", <<R(c), I(2)>>),
                                             ![c] = Obj("list", <<I(1)>>)], new |-> {a, b, c}]

RECURSIVE AllocPairs(_, _, _)
AllocPairs(ps, h, L) ==
    IF ps = <<>> THEN [ps |-> <<>>, h |-> h, L |-> L]
    ELSE LET a == Alloc(ps[1][2], h, L)
             r == AllocPairs(Tail(ps), a.h, L \cup a.new)
         IN  [ps |-> << <<ps[1][1], a.v>> >> \o r.ps, h |-> r.h, L |-> r.L]

-----------------------------------------------------------------------------
(* the dictionary: positions and EXCEPT                                    *)
HasIn(its, k) == \E i \in 1..Len(its) : its[i][1] = Fold(k)
IdxIn(its, k) == CHOOSE i \in 1..Len(its) : its[i][1] = Fold(k)
Has(k)        == HasIn(items, k)
Idx(k)        == IdxIn(items, k)
Remove(its, i) == SubSeq(its, 1, i - 1) \o SubSeq(its, i + 1, Len(its))
Put(its, k, v) ==
    IF HasIn(its, k)
    THEN IF Bug = "movetoend" THEN Append(Remove(its, IdxIn(its, k)), <<Fold(k), v>>)
         ELSE [its EXCEPT ![IdxIn(its, k)] = <<Fold(k), v>>]                   \* keeps its position
    ELSE Append(its, <<IF Bug = "nofoldstore" THEN k ELSE Fold(k), v>>)
RECURSIVE PutAll(_, _)
PutAll(its, ps) == IF ps = <<>> THEN its ELSE PutAll(Put(its, ps[1][1], ps[1][2]), Tail(ps))

Op(name) == [name |-> name, k |-> "", v |-> NoneV, hasd |-> FALSE, pairs |-> <<>>, kw |-> <<>>, form |-> "",
             f |-> "", adopt |-> FALSE, mk |-> NoneV]

DictDesc(its, f) == [t |-> "dictobj", n |-> 0, items |-> its, f |-> f, cls |-> Cls]

\* the non-free part of a heap as <<id, object>> pairs (compact JSON)
Dense(h) == LET RECURSIVE F(_)
                F(i) == IF i > MaxId THEN <<>>
                        ELSE (IF h[i].k = "free" THEN <<>> ELSE << <<i, h[i]>> >>) \o F(i + 1)
            IN  F(1)

Commit(its2, fac2, hp, op, ret) ==
    LET o == [op |-> op, ret |-> ret, hp |-> hp, items |-> its2, factory |-> fac2, fpre |-> factory]
    IN  /\ items' = its2
        /\ factory' = fac2
        /\ origin' = origin
        /\ heap' = [i \in 1..MaxId |-> IF i \in Reach(its2, hp) THEN hp[i] ELSE FreeObj]
        /\ obs' = o
        /\ hist' = Append(hist, IF Mode = "walk" THEN [o EXCEPT !.hp = Dense(hp)] ELSE [op |-> op.name])

Pick(S) == IF Mode = "walk" THEN {RandomElement(S)} ELSE S

-----------------------------------------------------------------------------
(* operations                                                              *)
GetItem ==
    \E k \in Pick(Keys) :
      LET op == [Op("GetItem") EXCEPT !.k = k] IN
      IF Has(k) THEN Commit(items, factory, heap, op, items[Idx(k)][2])
      ELSE IF factory = "None" THEN Commit(items, factory, heap, op, KeyErr)
      ELSE LET a == Alloc(IF Fold(k) \in V!ObjectListKeys THEN "list" ELSE "ci", heap, Live)   \* auto-creation
           IN  Commit(Append(items, <<Fold(k), a.v>>), factory, a.h, [op EXCEPT !.mk = a.v], a.v)

SetItem ==
    \E k \in Pick(Keys), vs \in Pick(SetVals) :
      LET a == Alloc(vs, heap, Live) IN
      Commit(Put(items, k, a.v), factory, a.h, [Op("SetItem") EXCEPT !.k = k, !.v = a.v], NoneV)

DelItem ==
    \E k \in Pick(Keys) :
      LET op == [Op("DelItem") EXCEPT !.k = k] IN
      IF Has(k) THEN Commit(Remove(items, Idx(k)), factory, heap, op, NoneV)
      ELSE Commit(items, factory, heap, op, KeyErr)

Contains ==
    \E k \in Pick(Keys), via \in Pick(IF Cls = "ci" THEN {"in", "has_key"} ELSE {"in"}) :
      Commit(items, factory, heap, [Op("Contains") EXCEPT !.k = k, !.form = via], Bool(Has(k)))

Get ==
    \E k \in Pick(Keys), hasd \in Pick(BOOLEAN) :
      Commit(items, factory, heap, [Op("Get") EXCEPT !.k = k, !.hasd = hasd],
             IF Has(k) THEN items[Idx(k)][2] ELSE IF hasd THEN DfltV ELSE NoneV)

Pop ==
    \E k \in Pick(Keys), hasd \in Pick(BOOLEAN) :
      LET op  == [Op("Pop") EXCEPT !.k = k, !.hasd = hasd]
          hit == IF Bug = "popnofold" THEN \E i \in 1..Len(items) : items[i][1] = k ELSE Has(k)
      IN  IF hit THEN Commit(Remove(items, Idx(k)), factory, heap, op, items[Idx(k)][2])
          ELSE Commit(items, factory, heap, op, IF hasd THEN DfltV ELSE KeyErr)

SetDefault ==
    \E k \in Pick(Keys), hasd \in Pick(BOOLEAN) : \E vs \in Pick(IF hasd THEN SetVals ELSE {"none"}) :
      LET a  == Alloc(vs, heap, Live)
          op == [Op("SetDefault") EXCEPT !.k = k, !.hasd = hasd, !.v = a.v]
      IN  IF Has(k) THEN Commit(items, factory, a.h, op, items[Idx(k)][2])
          ELSE Commit(Append(items, <<Fold(k), a.v>>), factory, a.h, op, a.v)

PairSeqs == UNION {[1..n -> Keys \X PairVals] : n \in 0..MaxPairs}
Distinct(ps) == \A i, j \in DOMAIN ps : i # j => ps[i][1] # ps[j][1]
\* a dict literal / keyword arguments cannot repeat a key exactly (they can in another case)
Forms(ps) == IF Distinct(ps) THEN {"pairs", "dict", "kwargs"} ELSE {"pairs"}

Update ==
    \E ps \in Pick(PairSeqs) : \E form \in Pick(Forms(ps)) :
      LET a == AllocPairs(ps, heap, Live) IN
      Commit(PutAll(items, a.ps), factory, a.h, [Op("Update") EXCEPT !.pairs = a.ps, !.form = form], NoneV)

\* update(e, **kw) / C(factory, e, **kw): one call with a positional mapping (or pair list) and keyword
\* arguments; the positional pairs are applied first, then the keywords (same key in any case: the keyword wins)
KwSeqs == {kw \in PairSeqs : kw # <<>> /\ Distinct(kw)}
MixedForms(ps) == IF Distinct(ps) THEN {"pairs+kw", "dict+kw"} ELSE {"pairs+kw"}
UpdateMixed ==
    /\ Mixed
    /\ \E ps \in Pick(PairSeqs \ {<<>>}), kw \in Pick(KwSeqs) : \E form \in Pick(MixedForms(ps)) :
         LET a   == AllocPairs(ps \o kw, heap, Live)
             pos == SubSeq(a.ps, 1, Len(ps))
             kws == SubSeq(a.ps, Len(ps) + 1, Len(a.ps))
         IN  Commit(IF Bug = "kwfirst" THEN PutAll(PutAll(items, kws), pos) ELSE PutAll(PutAll(items, pos), kws), factory, a.h,
                    [Op("Update") EXCEPT !.pairs = pos, !.kw = kws, !.form = form], NoneV)

ConstructMixed ==
    /\ Mixed
    /\ \E ps \in Pick(PairSeqs \ {<<>>}), kw \in Pick(KwSeqs), f \in Pick({"None", "Dict"}), adopt \in Pick(AdoptSet) :
       \E form \in Pick(MixedForms(ps)) :
         LET a   == AllocPairs(ps \o kw, heap, Live)
             pos == SubSeq(a.ps, 1, Len(ps))
             kws == SubSeq(a.ps, Len(ps) + 1, Len(a.ps))
             new == PutAll(PutAll(<<>>, pos), kws)
             op  == [Op("Construct") EXCEPT !.pairs = pos, !.kw = kws, !.form = form, !.f = f, !.adopt = adopt]
         IN  IF adopt THEN Commit(new, f, a.h, op, DictDesc(new, f))
             ELSE Commit(items, factory, a.h, op, DictDesc(new, f))

Construct ==
    \E ps \in Pick(PairSeqs), f \in Pick({"None", "Dict"}), adopt \in Pick(AdoptSet) : \E form \in Pick(Forms(ps)) :
      LET a   == AllocPairs(ps, heap, Live)
          new == PutAll(<<>>, a.ps)
          op  == [Op("Construct") EXCEPT !.pairs = a.ps, !.form = form, !.f = f, !.adopt = adopt]
      IN  IF adopt THEN Commit(new, f, a.h, op, DictDesc(new, f))
          ELSE Commit(items, factory, a.h, op, DictDesc(new, f))

Copy ==
    \E how \in Pick({"copy()", "copy.copy"}), adopt \in Pick(AdoptSet) :
      Commit(items, factory, heap, [Op("Copy") EXCEPT !.form = how, !.adopt = adopt], DictDesc(items, factory))

\* deep copies: every reachable object gets a new identity (aliasing inside the copy is kept)
Reloc(L, i)   == Nth(Avail(L), Rank(i, L))
RelocV(L, v)  == IF v.t = "ref" THEN R(Reloc(L, v.n)) ELSE v
RelocHeap(L, h) == [i \in 1..MaxId |->
                      IF \E j \in L : Reloc(L, j) = i
                      THEN LET j == CHOOSE j \in L : Reloc(L, j) = i
                           IN  Obj(h[j].k, [e \in DOMAIN h[j].elems |-> RelocV(L, h[j].elems[e])])
                      ELSE h[i]]
RelocItems(L, its) == [i \in DOMAIN its |-> <<its[i][1], RelocV(L, its[i][2])>>]

Deep(name, forms) ==
    \E form \in Pick(forms), adopt \in Pick(AdoptSet) :
      LET L   == Live
          new == IF Bug = "shallowdeep" THEN items ELSE RelocItems(L, items)
          hp  == IF Bug = "shallowdeep" THEN heap ELSE RelocHeap(L, heap)
          op  == [Op(name) EXCEPT !.form = form, !.adopt = adopt]
      IN  IF adopt THEN Commit(new, factory, hp, op, DictDesc(new, factory))
          ELSE Commit(items, factory, hp, op, DictDesc(new, factory))

DeepCopy == Deep("DeepCopy", {"copy.deepcopy"})
Pickle   == Deep("Pickle", {"p2", "p5"})

KeysOp == Commit(items, factory, heap, Op("Keys"), [t |-> "keys", n |-> 0, ks |-> [i \in DOMAIN items |-> items[i][1]]])

Init ==
    /\ items = <<>>
    /\ origin \in Origins
    /\ factory \in (IF origin = "ctor" THEN Factories ELSE {"Dict"})
    /\ heap = [i \in 1..MaxId |-> FreeObj]
    /\ obs = [op |-> Op("Init"), ret |-> NoneV, hp |-> heap, items |-> <<>>, factory |-> factory, fpre |-> factory]
    /\ hist = <<>>

Within == Len(hist) < MaxSteps
Ops  == GetItem \/ SetItem \/ DelItem \/ Contains \/ Get \/ Pop \/ SetDefault \/ Update \/ Construct
        \/ UpdateMixed \/ ConstructMixed
        \/ Copy \/ DeepCopy \/ Pickle \/ KeysOp
\* (walk mode: the last action is fixed, so that the simulator sees - and prints - one final state per walk)
Next == Within /\ (IF Mode = "walk" /\ Len(hist) = MaxSteps - 1 THEN KeysOp ELSE Ops)

Spec == Init /\ [][Next]_vars

-----------------------------------------------------------------------------
(* (M) what TLC checks on the contract itself                              *)

KeysLowerUnique ==
    \A i, j \in 1..Len(items) : items[i][1] = Fold(items[i][1]) /\ (i # j => items[i][1] # items[j][1])

HeapClosed ==       \* no dangling reference, nothing kept that is unreachable
    \A i \in 1..MaxId : (i \in Live) <=> (heap[i].k # "free")

\* first-insertion order: surviving keys keep their relative order, new keys go to the end
Pos(its, k) == CHOOSE i \in 1..Len(its) : its[i][1] = k
KeySet(its) == {its[i][1] : i \in 1..Len(its)}
OrderKept ==
    (obs'.op.name \notin {"Construct", "Init"}) =>
        LET old == KeySet(items)  new == KeySet(items') IN
        /\ \A a, b \in old \cap new : (Pos(items, a) < Pos(items, b)) <=> (Pos(items', a) < Pos(items', b))
        /\ \A a \in old \cap new, b \in new \ old : Pos(items', a) < Pos(items', b)
FirstInsertionOrder == [][OrderKept]_vars

\* copy shares every value; deepcopy / pickle share no mutable state; class and hook are kept
RECURSIVE SameContent(_, _, _, _)
SameContent(v, w, h, fuel) ==
    IF v.t # "ref" \/ w.t # "ref" THEN v = w
    ELSE /\ h[v.n].k = h[w.n].k
         /\ Len(h[v.n].elems) = Len(h[w.n].elems)
         /\ fuel > 0
         /\ \A e \in DOMAIN h[v.n].elems : SameContent(h[v.n].elems[e], h[w.n].elems[e], h, fuel - 1)
CopyLaw ==
    LET o == obs' IN
    /\ (o.op.name = "Copy" => o.ret.items = items /\ o.ret.f = factory /\ o.ret.cls = Cls)
    /\ (o.op.name \in {"DeepCopy", "Pickle"} =>
          /\ o.ret.f = factory /\ o.ret.cls = Cls
          /\ Len(o.ret.items) = Len(items)
          /\ \A i \in DOMAIN items : /\ o.ret.items[i][1] = items[i][1]
                                     /\ SameContent(o.ret.items[i][2], items[i][2], o.hp, 6)
          /\ Reach(o.ret.items, o.hp) \cap Reach(items, heap) = {}
          /\ (~o.op.adopt => items' = items))
CopyLaws == [][CopyLaw]_vars

\* auto-creation: only with a hook, a new empty list for object-list keys, a new empty dict otherwise
AutoLaw ==
    LET o == obs' IN
    (o.op.name = "GetItem" /\ ~Has(o.op.k)) =>
        IF factory = "None" THEN o.ret = KeyErr /\ items' = items
        ELSE /\ o.ret.t = "ref" /\ o.ret.n \notin Live
             /\ o.hp[o.ret.n] = Obj(IF Fold(o.op.k) \in V!ObjectListKeys THEN "list" ELSE "ci", <<>>)
             /\ items' = Append(items, <<Fold(o.op.k), o.ret>>)
AutoCreation == [][AutoLaw]_vars

\* refinement: "returns what an ordinary ordered dict keyed by the lower-cased keys would"
FoldPairs(ps) == [i \in DOMAIN ps |-> <<Fold(ps[i][1]), ps[i][2]>>]
FoldOp(o)     == [o EXCEPT !.k = Fold(o.k), !.pairs = FoldPairs(o.pairs), !.kw = FoldPairs(o.kw)]
Plain == INSTANCE PlainOD WITH od <- items, fac <- factory, pop <- FoldOp(obs.op), pret <- obs.ret,
                               NoneV <- NoneV, DfltV <- DfltV, KeyErr <- KeyErr,
                               TrueV <- Bool(TRUE), FalseV <- Bool(FALSE)
Refines == Plain!Spec

-----------------------------------------------------------------------------
(* (G) emission                                                            *)
\* graph mode: every transition whose pre-state lies within MaxSteps - 1 steps, printed once
EmitEdge == PrintT(ToJson([pre |-> [items |-> items, factory |-> factory, heap |-> Dense(heap), origin |-> origin],
                              e |-> [obs' EXCEPT !.hp = Dense(obs'.hp)], post |-> Dense(heap')]))
\* walk mode: the behaviour is printed when it is MaxSteps long
EmitWalk == Len(hist) = MaxSteps => PrintT(ToJson([f0 |-> hist[1].fpre, origin |-> origin, walk |-> hist]))
=============================================================================
