------------------------------ MODULE Includes ------------------------------
(***************************************************************************)
(* INCLUDE expansion (property C15).                                       *)
(*                                                                         *)
(* A file system  fs : file id -> Seq(Line)  where a Line is either        *)
(*    [k |-> "c", word, look]                       a chunk of content     *)
(*        (its id is <<f, i>>, file and line index; it is written out as   *)
(*         <<f, i, e>> with e the line ending of the text that arrives)    *)
(*        word BOOLEAN: the chunk mentions the word "include" somewhere    *)
(*             that is no directive (a comment, a commented-out directive) *)
(*        look "none" | "open" | "close" | "pair": the chunk shows the     *)
(*             characters of a block-comment opener / closer / both inside *)
(*             a string value or a # comment (DATA "shp/*.shp")            *)
(*    [k |-> "i", t, st, q, cm, base, alt, altdir]  an INCLUDE directive:  *)
(*        t    target file id (0 = a name that denotes no file)            *)
(*        st   "rel" | "abs"        how the path is written                *)
(*        q    "none" | "single" | "double"   quoting of the name          *)
(*        cm   BOOLEAN              a trailing # comment on the line       *)
(*        base directory id: a relative path is the string that denotes t  *)
(*             *when joined onto directory base*                           *)
(*        alt, altdir  a decoy: joined onto directory altdir (# base) the  *)
(*             same string denotes the existing file alt (0: no decoy), a  *)
(*             one-chunk file that the property never reaches; joined onto *)
(*             any other directory the string denotes nothing              *)
(* A file may be named by several directives (MaxShare; never a cycle):    *)
(* each directive is replaced by the content, so the chunks come twice.    *)
(* nl[f] is the line ending of file f ("lf" | "crlf"): substitution is     *)
(* verbatim, every chunk keeps the line breaks of the file it stands in.   *)
(* Directories are abstract ids; dir[f] is the directory of file f, file 1 *)
(* is the root Mapfile (or the text given to loads when entry = "string"). *)
(*                                                                         *)
(* Three parts:                                                            *)
(*   1. a graph builder (phase "build") enumerating / drawing include      *)
(*      trees with bounded fan-out and depth, at most MaxBack back edges   *)
(*      (cycles) and MaxMissing directives naming no file;                 *)
(*   2. the expansion machine (phase "run"): stack of (file, line), depth  *)
(*      counter, out, status, with an environment that may change the      *)
(*      working directory at any moment (Chdir);                           *)
(*   3. the property, stated without the machine: Flatten (recursive       *)
(*      textual substitution), LongChain, MissingSeen.                     *)
(***************************************************************************)
EXTENDS Naturals, Sequences, FiniteSets, TLC, Json

CONSTANTS
    MaxFiles,        \* files in one graph (root included)
    MaxFan,          \* INCLUDE directives per file
    MaxLines,        \* lines per file
    MaxDepth,        \* nesting level of the generated trees (root = 0)
    MaxBack,         \* back edges (an INCLUDE of an ancestor or of the file itself)
    MaxMissing,      \* directives whose name denotes no file
    MaxNested,       \* the limit built into the machine
    PropNested,      \* the limit the property states (5)
    Dirs,            \* directory ids
    Styles, Quotes, Cms,   \* surface alternatives of a directive
    Wants,           \* generator shaping: the tree has a branch at least this deep
    Caps,            \* generator shaping: the graph has at most cap files, cap drawn from Caps (<= MaxFiles)
    Entries,         \* subset of {"file", "string"}: open/load of a file, loads of a string
    Mode,            \* "all" (exhaustive) | "walk" (simulation: one random choice per action)
    ExactDefects,    \* TRUE: a graph is started only with exactly MaxBack / MaxMissing defects
    EnvChdir,        \* TRUE: the environment may change the working directory while expanding
    Nls,             \* line endings a file may have: subset of {"lf", "crlf"}
    Words,           \* subset of BOOLEAN: may a chunk mention the word "include"
    MaxDecoy,        \* decoy files (same relative name, other directory)
    ResolveAgainst,  \* what the machine joins a relative path onto: "root" | "cwd" | "includer" |
                     \*   "includer-first" | "cwd-first" (that directory if the name exists there, else the root's)
    ReadMode,        \* "verbatim" | "translate-included" (line ends of included files turned into LF)
    DepthGuard,      \* "directive": the limit is tested when a directive is met at level MaxNested |
                     \* "word": on entering a level-MaxNested file that mentions the word "include"
    MaxShare,        \* directives naming a file that another directive names already (no cycle: a DAG)
    Looks,           \* comment look-alikes a chunk may carry inside a string value or a # comment:
                     \*   subset of {"none", "open", "close", "pair"}  ( /*   */   /* .. */ )
    CycleGuard,      \* "none" | "seen": refuse a file that was expanded anywhere before in this load
    CommentScan      \* "none" | "textual": a chunk showing /* switches directive recognition off until
                     \*   a chunk showing */ (a purely textual scan for block comments)

VARIABLES
    phase,           \* "build" | "run"
    n,               \* number of files
    fs, dir, level, parent, nl,
    ndecoy,
    cur,             \* file under construction (files are filled in breadth-first order)
    spine,           \* deepest file of the branch that has to reach level want
    want, cap,
    nback, nmiss, nshare,
    entry,           \* "file" | "string"
    cwd0,            \* working directory when the call is made
    cwd,             \* current working directory
    stack,           \* Seq([file, line, skip])
    seen,            \* files expanded so far (only kept when CycleGuard = "seen")
    depth,           \* the nesting counter of the machine
    out,             \* Seq(<<file, line, line ending>>): chunks written so far
    status           \* "idle" | "running" | "done" | "errDepth" | "errMissing"

gvars == <<n, fs, dir, level, parent, nl, ndecoy, cur, spine, want, cap, nback, nmiss, nshare, entry, cwd0>>
mvars == <<stack, seen, depth, out, status>>
vars  == <<phase, gvars, cwd, mvars>>

Missing   == 0
DecoyBase == 100                     \* decoy files have ids above DecoyBase; their content is one chunk
IsDecoy(f) == f > DecoyBase
Lines(f)  == IF IsDecoy(f) THEN <<[k |-> "c", word |-> FALSE, look |-> "none"]>> ELSE fs[f]
Terminal == {"done", "errDepth", "errMissing"}

Pick(S) == IF Mode = "walk" THEN {RandomElement(S)} ELSE S

-----------------------------------------------------------------------------
(* 3. The property, independent of the machine                             *)

\* relative paths resolve against the directory of the root Mapfile; for a plain string against
\* the working directory of the call
PropBase == IF entry = "file" THEN dir[1] ELSE cwd0

\* what the name written in directive ln denotes when a relative name is joined onto directory d
Denotes(ln, d) == IF ln.st = "abs" THEN ln.t
                  ELSE IF d = ln.base THEN ln.t
                  ELSE IF ln.alt # 0 /\ d = ln.altdir THEN ln.alt ELSE Missing

PropResolve(ln) == Denotes(ln, PropBase)

IncIdx(f)  == {i \in 1..Len(fs[f]) : fs[f][i].k = "i"}
HasInc(f)  == IncIdx(f) # {}
Targets(f) == {PropResolve(fs[f][i]) : i \in IncIdx(f)}

\* files reachable through exactly L nested directives
RECURSIVE Reach(_)
Reach(L) == IF L = 0 THEN {1} ELSE UNION {Targets(f) \ {Missing} : f \in Reach(L - 1)}

\* some chain of INCLUDE directives starting in the root is longer than PropNested
\* (a cycle makes arbitrarily long chains)
LongChain   == \E f \in Reach(PropNested) : HasInc(f)
\* a directive naming no file is met within the levels that are expanded
MissingSeen == \E L \in 0..PropNested : \E f \in Reach(L) : Missing \in Targets(f)

\* textual substitution: every directive is replaced by the flattened content of its target
RECURSIVE Flat(_, _, _)
Flat(f, d, i) ==
    IF i > Len(fs[f]) THEN <<>>
    ELSE LET ln == fs[f][i]
             here == IF ln.k = "c" THEN << <<f, i, nl[f]>> >>
                     ELSE IF d < PropNested /\ PropResolve(ln) # Missing
                          THEN Flat(PropResolve(ln), d + 1, 1) ELSE <<>>
         IN  here \o Flat(f, d, i + 1)
Flatten == Flat(1, 0, 1)

\* the same substitution carried on to level bound whatever the property's limit (used only to lay
\* a well-formed document over graphs that must be refused, so that "expanded after all" shows)
RECURSIVE Full(_, _, _, _)
Full(f, d, i, bound) ==
    IF i > Len(fs[f]) THEN <<>>
    ELSE LET ln == fs[f][i]
             here == IF ln.k = "c" THEN << <<f, i, nl[f]>> >>
                     ELSE IF d < bound /\ PropResolve(ln) # Missing
                          THEN Full(PropResolve(ln), d + 1, 1, bound) ELSE <<>>
         IN  here \o Full(f, d, i + 1, bound)

Allowed == (IF LongChain THEN {"depth"} ELSE {}) \cup (IF MissingSeen THEN {"missing"} ELSE {})

-----------------------------------------------------------------------------
(* 1. The graph builder                                                    *)

Fan(f)           == Cardinality(IncIdx(f))
LastIsContent(f) == Len(fs[f]) > 0 /\ fs[f][Len(fs[f])].k = "c"
SpinePending     == cur = spine /\ level[cur] < want
Need             == IF level[spine] < want THEN want - level[spine] ELSE 0

RECURSIVE AncOrSelf(_)
AncOrSelf(f) == IF f = 0 THEN {} ELSE {f} \cup AncOrSelf(parent[f])

\* a line may be added to the spine file only if room is left for the directive that continues the spine
RoomLine == Len(fs[cur]) < MaxLines /\ (SpinePending => Len(fs[cur]) + 1 < MaxLines)
RoomInc  == RoomLine /\ Fan(cur) < MaxFan /\ (SpinePending => Fan(cur) + 1 < MaxFan)

\* a decoy may be planted for a relative name: next to the including file when that is not the
\* directory the name is written against, else in any other directory
AltDirs == IF dir[cur] # PropBase THEN {dir[cur]} ELSE Dirs \ {PropBase}
Decoys(st) == IF st = "rel" /\ ndecoy < MaxDecoy /\ AltDirs # {}
              THEN {<<0, 0>>} \cup {<<DecoyBase + ndecoy + 1, ad>> : ad \in Pick(AltDirs)}
              ELSE {<<0, 0>>}

Directive(t) ==
    {[k |-> "i", t |-> t, st |-> st, q |-> q, cm |-> cm, base |-> PropBase, alt |-> dc[1], altdir |-> dc[2]] :
        st \in Pick(Styles), q \in Pick(Quotes), cm \in Pick(Cms), dc \in Pick(Decoys("rel"))}
\* (a decoy on an absolute name would be meaningless: dropped below)
Norm(ln) == IF ln.st = "abs" THEN [ln EXCEPT !.alt = 0, !.altdir = 0] ELSE ln
Planted(ln) == IF Norm(ln).alt # 0 THEN 1 ELSE 0

AddContent ==
    /\ phase = "build" /\ RoomLine /\ ~LastIsContent(cur)
    /\ \E w \in Pick(Words), lk \in Pick(Looks) :
         fs' = [fs EXCEPT ![cur] = Append(@, [k |-> "c", word |-> w, look |-> lk])]
    /\ UNCHANGED <<phase, n, dir, level, parent, nl, ndecoy, cur, spine, want, cap, nback, nmiss, nshare, entry, cwd0, cwd, mvars>>

AddFile ==
    /\ phase = "build"
    /\ level[cur] < MaxDepth
    /\ Fan(cur) < MaxFan /\ Len(fs[cur]) < MaxLines
    /\ IF SpinePending THEN n + 1 <= cap ELSE n + 1 + Need <= cap
    /\ \E d \in Pick(Dirs), e \in Pick(Nls) : \E ln \in Directive(n + 1) :
         /\ fs' = Append([fs EXCEPT ![cur] = Append(@, Norm(ln))], <<>>)
         /\ dir' = Append(dir, d)
         /\ nl' = Append(nl, e)
         /\ ndecoy' = ndecoy + Planted(ln)
    /\ n' = n + 1
    /\ level' = Append(level, level[cur] + 1)
    /\ parent' = Append(parent, cur)
    /\ spine' = IF SpinePending THEN n + 1 ELSE spine
    /\ UNCHANGED <<phase, cur, want, cap, nback, nmiss, nshare, entry, cwd0, cwd, mvars>>

AddBack ==
    /\ phase = "build" /\ RoomInc /\ nback < MaxBack
    /\ \E a \in Pick(AncOrSelf(cur)) : \E ln \in Directive(a) :
         /\ fs' = [fs EXCEPT ![cur] = Append(@, Norm(ln))]
         /\ ndecoy' = ndecoy + Planted(ln)
    /\ nback' = nback + 1
    /\ UNCHANGED <<phase, n, dir, level, parent, nl, cur, spine, want, cap, nmiss, nshare, entry, cwd0, cwd, mvars>>

AddMissing ==
    /\ phase = "build" /\ RoomInc /\ nmiss < MaxMissing
    /\ \E ln \in Directive(Missing) :
         /\ fs' = [fs EXCEPT ![cur] = Append(@, Norm(ln))]
         /\ ndecoy' = ndecoy + Planted(ln)
    /\ nmiss' = nmiss + 1
    /\ UNCHANGED <<phase, n, dir, level, parent, nl, cur, spine, want, cap, nback, nshare, entry, cwd0, cwd, mvars>>

\* a file that is named already (by its parent, possibly by others) is named once more - by the same
\* parent or from another branch - without closing a cycle: each directive is replaced by the content
Succ(f) == {fs[f][i].t : i \in IncIdx(f)} \ {Missing}
RECURSIVE Closure(_, _)
Closure(S, k) == IF k = 0 THEN S ELSE Closure(S \cup UNION {Succ(f) : f \in S}, k - 1)
ReachFrom(t) == Closure({t}, n)
Shareable == {t \in 2..n : t \notin AncOrSelf(cur) /\ cur \notin ReachFrom(t)}

AddShare ==
    /\ phase = "build" /\ RoomInc /\ nshare < MaxShare
    /\ Shareable # {}
    /\ \E t \in Pick(Shareable) : \E ln \in Directive(t) :
         /\ fs' = [fs EXCEPT ![cur] = Append(@, Norm(ln))]
         /\ ndecoy' = ndecoy + Planted(ln)
    /\ nshare' = nshare + 1
    /\ UNCHANGED <<phase, n, dir, level, parent, nl, cur, spine, want, cap, nback, nmiss, entry, cwd0, cwd, mvars>>

NextFile ==
    /\ phase = "build" /\ cur < n /\ ~SpinePending
    /\ cur' = cur + 1
    /\ UNCHANGED <<phase, n, fs, dir, level, parent, nl, ndecoy, spine, want, cap, nback, nmiss, nshare, entry, cwd0, cwd, mvars>>

Start ==
    /\ phase = "build" /\ cur = n /\ ~SpinePending
    /\ ExactDefects => (nback = MaxBack /\ nmiss = MaxMissing)
    /\ phase' = "run"
    /\ stack' = <<[file |-> 1, line |-> 1, skip |-> FALSE]>>
    /\ status' = "running"
    /\ UNCHANGED <<gvars, cwd, seen, depth, out>>

\* (simulation draws among the disjuncts: more files than anything else)
AddFile2 == AddFile
AddFile3 == AddFile
Build == AddContent \/ AddFile \/ AddFile2 \/ AddFile3 \/ AddBack \/ AddMissing \/ AddShare \/ NextFile

-----------------------------------------------------------------------------
(* 2. The expansion machine                                                *)

Top   == stack[Len(stack)]
AtEnd == Top.line > Len(Lines(Top.file))
Line  == Lines(Top.file)[Top.line]
Advance(s) == [s EXCEPT ![Len(s)].line = @ + 1]
DirOf(f) == IF IsDecoy(f) THEN 0 ELSE dir[f]        \* (a decoy holds no directive: never consulted)

Resolve(ln) ==
    CASE ResolveAgainst = "root"     -> Denotes(ln, PropBase)
      [] ResolveAgainst = "cwd"      -> Denotes(ln, cwd)
      [] ResolveAgainst = "includer" -> Denotes(ln, DirOf(Top.file))
      [] ResolveAgainst = "includer-first" ->
            IF Len(stack) > 1 /\ Denotes(ln, DirOf(Top.file)) # Missing
            THEN Denotes(ln, DirOf(Top.file)) ELSE Denotes(ln, PropBase)
      [] ResolveAgainst = "cwd-first" ->
            IF Denotes(ln, cwd) # Missing THEN Denotes(ln, cwd) ELSE Denotes(ln, PropBase)

\* the line ending with which a chunk of file f arrives in the result
NlOf(f) == IF IsDecoy(f) THEN "lf"
           ELSE IF ReadMode = "translate-included" /\ Len(stack) > 1 THEN "lf" ELSE nl[f]

Mentions(f) == \E i \in 1..Len(Lines(f)) : Lines(f)[i].k = "i" \/ Lines(f)[i].word
\* DepthGuard = "word": the limit fires on entering a file of level MaxNested that mentions the word
WordTrap(ln) == DepthGuard = "word" /\ depth + 1 = MaxNested /\ Mentions(Resolve(ln))

\* CommentScan = "textual": what a chunk does to the recognition of directives in the rest of its file
SkipAfter(ln, sk) == IF CommentScan = "textual" /\ ln.look = "open" THEN TRUE
                     ELSE IF CommentScan = "textual" /\ ln.look = "close" THEN FALSE ELSE sk
Skipping == CommentScan = "textual" /\ Top.skip
\* CycleGuard = "seen": the file was expanded before, anywhere in this load
SeenTrap(ln) == CycleGuard = "seen" /\ Resolve(ln) \in seen

Copy ==
    /\ status = "running" /\ ~AtEnd /\ Line.k = "c"
    /\ out' = Append(out, <<Top.file, Top.line, NlOf(Top.file)>>)
    /\ stack' = [Advance(stack) EXCEPT ![Len(stack)].skip = SkipAfter(Line, @)]
    /\ UNCHANGED <<phase, gvars, cwd, seen, depth, status>>

\* (only with CommentScan = "textual") a directive taken for commented-out text stays in the result
Keep ==
    /\ status = "running" /\ ~AtEnd /\ Line.k = "i" /\ Skipping
    /\ out' = Append(out, <<Top.file, Top.line, NlOf(Top.file)>>)
    /\ stack' = Advance(stack)
    /\ UNCHANGED <<phase, gvars, cwd, seen, depth, status>>

Enter ==
    /\ status = "running" /\ ~AtEnd /\ Line.k = "i" /\ ~Skipping
    /\ depth < MaxNested
    /\ Resolve(Line) # Missing
    /\ ~WordTrap(Line)
    /\ ~SeenTrap(Line)
    /\ stack' = Append(stack, [file |-> Resolve(Line), line |-> 1, skip |-> FALSE])
    /\ seen' = IF CycleGuard = "seen" THEN seen \cup {Resolve(Line)} ELSE seen
    /\ depth' = depth + 1
    /\ UNCHANGED <<phase, gvars, cwd, out, status>>

Fail ==
    /\ status = "running" /\ ~AtEnd /\ Line.k = "i" /\ ~Skipping
    /\ \/ depth >= MaxNested
       \/ Resolve(Line) = Missing
       \/ WordTrap(Line)
       \/ SeenTrap(Line)
    /\ status' = IF depth >= MaxNested THEN "errDepth"                     \* the limit is tested first
                 ELSE IF Resolve(Line) = Missing THEN "errMissing" ELSE "errDepth"
    /\ UNCHANGED <<phase, gvars, cwd, stack, seen, depth, out>>

Leave ==
    /\ status = "running" /\ AtEnd
    /\ IF Len(stack) = 1
       THEN status' = "done" /\ UNCHANGED <<stack, depth>>
       ELSE /\ stack' = Advance(SubSeq(stack, 1, Len(stack) - 1))
            /\ depth' = depth - 1
            /\ UNCHANGED status
    /\ UNCHANGED <<phase, gvars, cwd, seen, out>>

Step == Copy \/ Keep \/ Enter \/ Fail \/ Leave

Chdir ==
    /\ EnvChdir /\ status = "running"
    /\ \E d \in Dirs \ {cwd} : cwd' = d
    /\ UNCHANGED <<phase, gvars, mvars>>

-----------------------------------------------------------------------------
Init ==
    /\ phase = "build"
    /\ n = 1
    /\ fs = << <<>> >>
    /\ dir \in {<<d>> : d \in Dirs}
    /\ level = <<0>>
    /\ parent = <<0>>
    /\ nl \in {<<e>> : e \in Nls}
    /\ ndecoy = 0
    /\ cur = 1
    /\ spine = 1
    /\ want \in Wants
    /\ cap \in {c \in Caps : c > want /\ c <= MaxFiles}
    /\ nback = 0
    /\ nmiss = 0
    /\ nshare = 0
    /\ entry \in Entries
    /\ cwd0 \in Dirs
    /\ cwd = cwd0
    /\ stack = <<>>
    /\ seen = {}
    /\ depth = 0
    /\ out = <<>>
    /\ status = "idle"

Next == Build \/ Start \/ Step \/ Chdir

\* fairness of the machine only: the environment (Chdir) cannot starve it, and nothing is assumed
\* about the builder
Spec == Init /\ [][Next]_vars /\ WF_vars(Step)
\* negative configurations: without fairness Halts must fail (stuttering), and with fairness of the
\* whole next-state relation the environment starves the machine by changing directory for ever
SpecUnfair   == Init /\ [][Next]_vars
SpecNextFair == Init /\ [][Next]_vars /\ WF_vars(Next)

-----------------------------------------------------------------------------
(* Invariants                                                              *)

TypeOK ==
    /\ phase \in {"build", "run"}
    /\ n \in 1..cap /\ cap <= MaxFiles /\ Len(fs) = n /\ Len(dir) = n /\ Len(level) = n /\ Len(parent) = n /\ Len(nl) = n
    /\ \A f \in 1..n : /\ Len(fs[f]) <= MaxLines /\ Fan(f) <= MaxFan /\ level[f] <= MaxDepth
                       /\ \A i \in IncIdx(f) : fs[f][i].t \in 0..n /\ (fs[f][i].alt # 0 => fs[f][i].altdir # fs[f][i].base)
    /\ nback <= MaxBack /\ nmiss <= MaxMissing /\ ndecoy <= MaxDecoy /\ nshare <= MaxShare
    /\ status \in {"idle", "running"} \cup Terminal
    /\ (phase = "build") = (status = "idle")

\* expansion = textual substitution, and it is only completed on graphs without a defect
Equiv == status = "done" => (out = Flatten /\ Allowed = {})
\* what has been written so far is always a prefix of the substitution
PrefixOK == status = "running" /\ Allowed = {} =>
              (Len(out) <= Len(Flatten) /\ out = SubSeq(Flatten, 1, Len(out)))
\* the stack never holds more than the root and PropNested included files
Bounded      == Len(stack) <= PropNested + 1
DepthCounter == phase = "run" => depth = Len(stack) - 1
\* errors are raised for the right reason ...
ErrDepthSound   == status = "errDepth"   => LongChain
ErrMissingSound == status = "errMissing" => MissingSeen
\* ... and, when no name is missing, the depth error is raised iff some chain is longer than PropNested
DepthIff == (status \in Terminal /\ ~MissingSeen) => ((status = "errDepth") <=> LongChain)
MissingIff == (status \in Terminal /\ ~LongChain) => ((status = "errMissing") <=> MissingSeen)
\* (with EnvChdir = TRUE all of these are checked under arbitrary interleaved Chdir steps: the outcome
\*  does not depend on the working directory after the call has been made)
Invs ==TypeOK /\ Equiv /\ PrefixOK /\ Bounded /\ DepthCounter /\ ErrDepthSound /\ ErrMissingSound
        /\ DepthIff /\ MissingIff

\* every expansion that has been started comes to an end (the one liveness property of the suite)
Halts == (status = "running") ~> (status \in Terminal)

-----------------------------------------------------------------------------
(* Emission of graphs with their expected outcome (G)                      *)

Outcome == IF Allowed = {} THEN "ok" ELSE "error"

Emit == status \in Terminal =>
    PrintT(ToJson([n |-> n, dir |-> dir, level |-> level, nl |-> nl, ndecoy |-> ndecoy, nshare |-> nshare, fs |-> fs, entry |-> entry, cwd0 |-> cwd0,
                   base |-> PropBase,
                   outcome |-> Outcome,
                   allowed |-> Allowed,
                   flat |-> IF Allowed = {} THEN Flatten ELSE <<>>,
                   full |-> IF nback = 0 THEN Full(1, 0, 1, n) ELSE <<>>,
                   machine |-> [status |-> status, out |-> out]]))
=============================================================================
