------------------------------- MODULE Calls -------------------------------
(***************************************************************************)
(* Property C12: the public calls of mappyfile are pure, independent of    *)
(* the history of earlier calls, and safe to run concurrently.             *)
(*                                                                         *)
(* The model has the four worker classes with exactly the mutable fields   *)
(* the code has:                                                           *)
(*   Parser          buf   (Parser._comments, filled by lexer callbacks)   *)
(*                   cdict (Parser.comments_dict, line -> comment)         *)
(*                   icache (texts of INCLUDE files kept by the parser:    *)
(*                          empty in the code as written, IncCache="none") *)
(*   MapfileToDict   mt    (MapfileToDict.mapfile_transformer)             *)
(*   Validator       raw   (Validator.schemas)                             *)
(*                   exp   (Validator.expanded_schemas: key -> schema      *)
(*                          object, pruned IN PLACE per version)           *)
(*   PrettyPrinter   holds a Validator of its own (object 50+..)           *)
(* and every public call as the sequence of atomic steps it performs on    *)
(* them.  Documents are abstract ids with attributes (DocTable).           *)
(*                                                                         *)
(* Policy says which worker objects a call uses:                           *)
(*   "fresh"            new objects per call            (what utils.py does)*)
(*   "shared_parser"    one Parser/MapfileToDict per include_comments flag *)
(*   "shared_validator" one Validator / one PrettyPrinter                  *)
(*   "shared_all"       both (sequential re-use of one set of workers)     *)
(*                                                                         *)
(* Properties: ArgsUnchanged (action property), SeqEquivalent (every       *)
(* completed call returned F(its arguments)).                              *)
(***************************************************************************)
EXTENDS Naturals, Sequences, FiniteSets, TLC, Json, IOUtils, CallKinds

CONSTANTS
    Threads,        \* set of thread ids, e.g. {1, 2}
    Policy,
    Mode,           \* "free": every thread picks any call of Kinds on any of Docs
                    \* "script": calls and seam points come from the JSON file IOEnv.C12_SCRIPT
    Kinds,          \* call kinds offered in "free" mode
    Docs,           \* document ids offered in "free" mode
    MaxCalls,       \* calls per behaviour (all threads together)
    MaxPerThread,
    ClearsBuf,      \* TRUE: Parser.parse empties the comment buffer first      (as written)
    KeyByVersion,   \* TRUE: expanded-schema cache keyed by (name, version)      (as written)
    LowerOnCopy,    \* TRUE: validation lower-cases a copy of the dictionary    (as written)
    FindInserts,    \* FALSE: find/findall only read the items              (as documented)
    IncCache,       \* "none": every INCLUDE is read from the resolved path       (as written)
                    \* "by_name": the parser keeps include texts under the name as written
    CdictRebuilt,   \* TRUE: comments_dict is a new dict in every parse                    (as written)
    IncResolve,     \* "join": an INCLUDE name is joined to the folder of the document (as written)
                    \* "chdir": the process changes into that folder, resolves, reads, changes back
    DepthInArg,     \* TRUE: the INCLUDE nesting level is an argument of load_includes    (as written)
                    \* FALSE: a counter on the Parser, raised / lowered around the recursive call
    ExpCacheGlobal, \* FALSE: every Validator has its own expanded-schema cache          (as written)
                    \* TRUE: one process-wide cache shared by all Validators / PrettyPrinters
    TypesRoot,      \* FALSE: validate only reads the __type__ of a root               (as written)
    FormatOnCopy,   \* TRUE: the printer builds new values, never edits list items (as written)
    Record          \* TRUE: keep the call history and the schedule for emission

VARIABLES
    pc, cur, ncalls,            \* per thread: program counter, running call, calls started
    pdepth,                     \* Parser: include nesting counter (stays 0 in the code as written)
    buf, cdict, mt, icache,     \* Parser / MapfileToDict fields, per object (icache: include texts)
    raw, exp, sobj,             \* Validator fields per object; schema objects (pruned entries)
    args,                       \* the dictionaries the callers hold (the arguments)
    fin, hist, sched,           \* call just completed per thread; history and schedule (when Record)
    running, sid,               \* scheduler: thread inside a segment; script id
    cwd                         \* process-wide state shared by all threads: the working directory

vars == <<pc, cur, ncalls, pdepth, buf, cdict, mt, icache, raw, exp, sobj, args, fin, hist, sched, running, sid, cwd>>

-----------------------------------------------------------------------------
(* Documents                                                               *)

\* ntok : number of lexing steps;  fail : 0 = parses, k = rejected at step k
\* com  : steps at which a comment is lexed (line = step number)
\* faults : schema faults present at every version;  entries : version-ranged keywords used
\* some : the object list searched by find* has items lacking the key "some"
\* inc  : 0 = no INCLUDE; n = the document holds  INCLUDE "<name n>"  (a relative name, resolved
\*        against the folder of the document);  dir : the folder the document lives in
\* nest : what the included file holds - "none": no further INCLUDE; "missing": an INCLUDE of a file
\*        that does not exist; "self": an INCLUDE of itself; "chain": a chain of five include files
\* typed: the root dictionary has a __type__ key;  hand : a dictionary built by hand (never loaded)
DocDefaults == [nest |-> "none", typed |-> TRUE, hand |-> FALSE]
DocRaw ==
    <<[ntok |-> 3, fail |-> 0, com |-> {1, 3}, faults |-> {},     entries |-> {},             some |-> TRUE,  inc |-> 0, dir |-> 1],
      [ntok |-> 2, fail |-> 0, com |-> {},     faults |-> {"f1"}, entries |-> {},             some |-> FALSE, inc |-> 0, dir |-> 2],
      [ntok |-> 3, fail |-> 2, com |-> {1},    faults |-> {},     entries |-> {},             some |-> FALSE, inc |-> 0, dir |-> 3],
      [ntok |-> 3, fail |-> 0, com |-> {2},    faults |-> {},     entries |-> {"old"},        some |-> TRUE,  inc |-> 0, dir |-> 1],
      [ntok |-> 2, fail |-> 0, com |-> {1, 2}, faults |-> {"f1"}, entries |-> {"old", "anc"}, some |-> FALSE, inc |-> 0, dir |-> 2],
      [ntok |-> 3, fail |-> 3, com |-> {},     faults |-> {},     entries |-> {},             some |-> FALSE, inc |-> 0, dir |-> 3],
      \* two documents in different folders, both with INCLUDE "<name 1>"; the files differ
      [ntok |-> 3, fail |-> 0, com |-> {1},    faults |-> {},     entries |-> {},             some |-> FALSE, inc |-> 1, dir |-> 1],
      [ntok |-> 3, fail |-> 0, com |-> {3},    faults |-> {},     entries |-> {},             some |-> FALSE, inc |-> 1, dir |-> 2],
      \* text (no file name) whose INCLUDE "<name 2>" is relative to the working directory of the process (dir 0)
      [ntok |-> 3, fail |-> 0, com |-> {2},    faults |-> {},     entries |-> {},             some |-> FALSE, inc |-> 2, dir |-> 0],
      \* a short document with a comment after its last node (line ntok + 1): no node claims it
      [ntok |-> 2, fail |-> 0, com |-> {1, 3}, faults |-> {},     entries |-> {},             some |-> FALSE, inc |-> 0, dir |-> 3],
      \* documents that fail inside an included file, and one that needs the full nesting depth
      [ntok |-> 3, fail |-> 0, com |-> {1},    faults |-> {},     entries |-> {},             some |-> FALSE, inc |-> 3, dir |-> 1, nest |-> "self"],
      [ntok |-> 3, fail |-> 0, com |-> {},     faults |-> {},     entries |-> {},             some |-> FALSE, inc |-> 4, dir |-> 2, nest |-> "missing"],
      [ntok |-> 3, fail |-> 0, com |-> {2},    faults |-> {},     entries |-> {},             some |-> FALSE, inc |-> 5, dir |-> 1, nest |-> "chain"],
      \* a root dictionary built by hand: no __type__ key
      [ntok |-> 3, fail |-> 0, com |-> {},     faults |-> {"f1"}, entries |-> {},             some |-> FALSE, inc |-> 0, dir |-> 3, typed |-> FALSE, hand |-> TRUE]>>
DocTable == [i \in DOMAIN DocRaw |-> DocRaw[i] @@ DocDefaults]

MaxNested == 5
AllDocs   == 1..Len(DocRaw)
ParsesOK(d) == DocTable[d].fail = 0 /\ DocTable[d].nest \notin {"missing", "self"}
DictDocs  == {d \in AllDocs : ParsesOK(d)}               \* documents that exist as dictionaries
LoadDocs  == {d \in AllDocs : ~DocTable[d].hand}         \* documents that exist as text / files
Versions  == {0, 76, 80}                                 \* 0 = no version given
Entries   == {"old", "anc"}                              \* "old": maxVersion 7.6, "anc": maxVersion 5.0
InRange(e, v) == IF e = "old" THEN v <= 76 ELSE v <= 50
FindKeys  == {"all", "some"}                             \* key every item has / key some items lack

\* the file system: what the file <name> in folder <dir> holds
Content(dir, name) == [dir |-> dir, name |-> name]
NoInc              == [dir |-> 0, name |-> 0]

Cwd0            == 9                  \* the folder the process runs in
\* which include files exist: <name 1> in folders 1 and 2, <name 2> in the working directory
Exists(dir, name) == <<dir, name>> \in {<<1, 1>>, <<2, 1>>, <<Cwd0, 2>>, <<1, 3>>, <<2, 4>>, <<1, 5>>}

Comment(d, k)   == [doc |-> d, line |-> k]
\* comments a node claims: those up to the line of the last node
CommentsOf(d)   == {Comment(d, k) : k \in {x \in DocTable[d].com : x <= DocTable[d].ntok}}

\* the harness builds one concrete Mapfile per abstract document from this table (printed once per run)
ASSUME PrintT(ToJson([doctable |-> DocTable, cwd0 |-> Cwd0]))

-----------------------------------------------------------------------------
(* Worker objects                                                          *)

SharedP == Policy \in {"shared_parser", "shared_all"}
SharedV == Policy \in {"shared_validator", "shared_all"}

PObjs == Threads \cup {0, 99}                \* 0 / 99: the shared comment-keeping / plain parser
VObjs == Threads \cup {0} \cup {50 + t : t \in Threads} \cup {50}
SObjs == {10 * t + n : t \in Threads, n \in 1..MaxPerThread}

POf(t) == IF SharedP THEN (IF cur[t].com THEN 0 ELSE 99) ELSE t     \* Parser and MapfileToDict
VOf(t) == IF SharedV THEN 0 ELSE t                                   \* Validator
PVOf(t) == IF SharedV THEN 50 ELSE 50 + t                            \* PrettyPrinter's Validator
\* whose expanded-schema cache a Validator / a PrettyPrinter's Validator uses
XOf(t)  == IF ExpCacheGlobal THEN 0 ELSE VOf(t)
PXOf(t) == IF ExpCacheGlobal THEN 0 ELSE PVOf(t)

NoT    == [by |-> 0, com |-> FALSE]
NoRet  == [k |-> "none"]
Err    == [k |-> "error"]
Heap0  == [order |-> "orig", extra |-> {}, lower |-> FALSE, vcom |-> FALSE, quoted |-> FALSE, typed |-> TRUE]
NoCall == [kind |-> "none", doc |-> 0, com |-> FALSE, ver |-> 0, key |-> "all", seams |-> {}, n |-> 0,
           snap |-> Heap0, att |-> {}, incl |-> NoInc, ipath |-> NoInc, saved |-> 0, sch |-> 0, hit |-> FALSE, keys |-> {}, ret |-> NoRet]

-----------------------------------------------------------------------------
(* F: what a call must return, as a function of its arguments only         *)

F(c) ==
    CASE c.kind = "loads" ->
            IF DocTable[c.doc].fail # 0 THEN Err
            ELSE IF DocTable[c.doc].nest = "missing" THEN [k |-> "ioerror"]
            ELSE IF DocTable[c.doc].nest = "self" THEN [k |-> "toodeep"]
            ELSE [k |-> "dict", doc |-> c.doc, comments |-> IF c.com THEN CommentsOf(c.doc) ELSE {},
                  inc |-> IF DocTable[c.doc].inc = 0 THEN NoInc
                          ELSE Content(IF DocTable[c.doc].dir = 0 THEN Cwd0 ELSE DocTable[c.doc].dir,
                                       DocTable[c.doc].inc)]
      [] c.kind \in {"dumps", "dumps_sep"} ->
            [k |-> "text", doc |-> c.doc, order |-> IF c.kind = "dumps_sep" THEN "sep" ELSE c.snap.order,
             extra |-> c.snap.extra, lower |-> c.snap.lower, vcom |-> c.snap.vcom, quoted |-> c.snap.quoted,
             removed |-> {}]
      [] c.kind \in {"validate", "validate_addc"} ->
            [k |-> "msgs", doc |-> c.doc,
             errs |-> DocTable[c.doc].faults \cup
                      {e \in DocTable[c.doc].entries : c.ver # 0 /\ ~InRange(e, c.ver)}]
      [] OTHER -> [k |-> "items", doc |-> c.doc, key |-> c.key, kind |-> c.kind]

\* the part of a running call that identifies it (local working state dropped)
Public(c) == [kind |-> c.kind, doc |-> c.doc, com |-> c.com, ver |-> c.ver, key |-> c.key, n |-> c.n,
              snap |-> c.snap]

NoFin == [t |-> 0, call |-> Public(NoCall), ret |-> NoRet]

-----------------------------------------------------------------------------
(* Call menus                                                              *)

Range(s) == {s[i] : i \in DOMAIN s}

Scripts == JsonDeserialize(IOEnv.C12_SCRIPT)        \* Seq(script); script = Seq per thread of Seq(call)

Desc(kind, d, com, ver, key, seams) ==
    [kind |-> kind, doc |-> d, com |-> com, ver |-> ver, key |-> key, seams |-> seams]

FreeMenu ==
    {Desc("loads", d, c, 0, "all", {}) : d \in (IF "loads" \in Kinds THEN Docs \cap LoadDocs ELSE {}), c \in BOOLEAN}
    \cup {Desc(k, d, FALSE, 0, "all", {}) : k \in Kinds \cap {"dumps", "dumps_sep"},
                                            d \in {x \in Docs \cap DictDocs : DocTable[x].typed}}
    \cup {Desc(k, d, FALSE, v, "all", {}) : k \in Kinds \cap {"validate", "validate_addc"},
                                            d \in Docs \cap DictDocs, v \in Versions}
    \cup {m \in {Desc(k, d, FALSE, 0, key, {}) : k \in Kinds \cap QueryKinds, d \in Docs \cap DictDocs,
                                                 key \in FindKeys} :
             m.key = "all" \/ DocTable[m.doc].some}

ScriptCall(t) ==
    LET s == Scripts[sid][t][ncalls[t] + 1]
    IN  Desc(s.kind, s.doc, s.com, s.ver, s.key, Range(s.seams))

HasNext(t) ==
    IF Mode = "script" THEN t <= Len(Scripts[sid]) /\ ncalls[t] < Len(Scripts[sid][t])
    ELSE ncalls[t] < MaxPerThread

Menu(t) == IF Mode = "script" THEN {ScriptCall(t)} ELSE FreeMenu

Total == LET RECURSIVE S(_)
             S(T) == IF T = {} THEN 0 ELSE LET x == CHOOSE x \in T : TRUE IN ncalls[x] + S(T \ {x})
         IN  S(Threads)

-----------------------------------------------------------------------------
(* Scheduling: a thread keeps running until it reaches one of the seam     *)
(* points of its call (script mode) - in free mode every step is a seam.   *)

AtSeam(t, newpc, c) == Mode # "script" \/ newpc = "idle" \/ newpc \in c.seams

CanRun(t) == running = 0 \/ running = t

\* bookkeeping common to every step of thread t that leaves it at newpc with call c
Step(t, newpc, c) ==
    /\ pc' = [pc EXCEPT ![t] = newpc]
    /\ cur' = [cur EXCEPT ![t] = IF newpc = "idle" THEN NoCall ELSE c]
    /\ running' = IF AtSeam(t, newpc, c) THEN 0 ELSE t
    /\ sched' = IF Record /\ Mode = "script" /\ AtSeam(t, newpc, c)
                THEN Append(sched, [t |-> t, at |-> IF newpc = "idle" THEN "end" ELSE newpc])
                ELSE sched
    \* fin[t]: the call thread t has just completed (forgotten when t goes on: the invariant has
    \* looked at it in the state where it completed)
    /\ fin' = [fin EXCEPT ![t] = IF newpc = "idle" THEN [t |-> t, call |-> Public(c), ret |-> c.ret]
                                 ELSE NoFin]
    /\ hist' = IF Record /\ newpc = "idle"
               THEN Append(hist, [t |-> t, call |-> Public(c), ret |-> c.ret, exp |-> F(c)])
               ELSE hist

LexPc(k) == <<"lex1", "lex2", "lex3", "lex4">>[k]

FirstPc(kind) == IF kind \in QueryKinds THEN "run" ELSE "alloc"

Start(t) ==
    /\ pc[t] = "idle" /\ CanRun(t) /\ HasNext(t) /\ Total < MaxCalls
    /\ \E m \in Menu(t) :
         LET c == [NoCall EXCEPT !.kind = m.kind, !.doc = m.doc, !.com = m.com, !.ver = m.ver,
                                 !.key = m.key, !.seams = m.seams, !.n = ncalls[t] + 1,
                                 !.snap = IF m.kind \in DictKinds THEN args[m.doc] ELSE Heap0]
         IN  Step(t, FirstPc(m.kind), c)
    /\ ncalls' = [ncalls EXCEPT ![t] = @ + 1]
    /\ UNCHANGED <<pdepth, buf, cdict, mt, icache, raw, exp, sobj, args, sid, cwd>>

-----------------------------------------------------------------------------
(* loads = Parser(...).parse(text) ; MapfileToDict(...).transform(tree)    *)

LAlloc(t) ==                       \* Parser(), MapfileToDict(): new objects unless shared
    /\ pc[t] = "alloc" /\ cur[t].kind = "loads"
    /\ IF SharedP THEN UNCHANGED <<buf, cdict, mt, icache>>
       ELSE /\ buf' = [buf EXCEPT ![t] = <<>>]
            /\ cdict' = [cdict EXCEPT ![t] = {}]
            /\ mt' = [mt EXCEPT ![t] = NoT]
            /\ icache' = [icache EXCEPT ![t] = {}]
    /\ pdepth' = IF SharedP THEN pdepth ELSE [pdepth EXCEPT ![t] = 0]
    /\ Step(t, "incl", cur[t])
    /\ UNCHANGED <<ncalls, raw, exp, sobj, args, sid, cwd>>

\* text = self.load_includes(text, fn): every INCLUDE line is replaced by the text of the file its
\* name resolves to, relative to the folder of the document (for text without a file name: the
\* working directory of the process).  Three steps: find the directive, resolve the path, read.
LIncl(t) ==
    /\ pc[t] = "incl"
    /\ LET c == cur[t]
           d == DocTable[c.doc]
           folder == IF d.dir = 0 THEN cwd ELSE d.dir
           base == IF DepthInArg THEN 0 ELSE pdepth[POf(t)]
       IN  IF d.inc = 0
           THEN /\ Step(t, "clear", c)
                /\ UNCHANGED cwd
           ELSE IF base >= MaxNested              \* "Maximum nested include exceeded"
           THEN /\ Step(t, "ret", [c EXCEPT !.ret = [k |-> "toodeep"]])
                /\ UNCHANGED cwd
           ELSE /\ Step(t, "iresolve", [c EXCEPT !.saved = cwd, !.ipath = Content(folder, d.inc)])
                /\ cwd' = IF IncResolve = "chdir" THEN folder ELSE cwd
    /\ UNCHANGED <<ncalls, pdepth, buf, cdict, mt, icache, raw, exp, sobj, args, sid>>

LResolve(t) ==                     \* the absolute path of the include file
    /\ pc[t] = "iresolve"
    /\ LET c == cur[t]
       IN  Step(t, "iread", IF IncResolve = "chdir" THEN [c EXCEPT !.ipath = Content(cwd, c.ipath.name)] ELSE c)
    /\ UNCHANGED <<ncalls, pdepth, buf, cdict, mt, icache, raw, exp, sobj, args, sid, cwd>>

\* what the nested INCLUDEs of the file just read lead to, starting one level below the current one:
\* k = outcome, left = the value an instance counter is left with
After(t) ==
    LET base == IF DepthInArg THEN 0 ELSE pdepth[POf(t)]
        nest == DocTable[cur[t].doc].nest
    IN  CASE nest = "none"    -> [k |-> "ok", left |-> base]
          [] nest = "missing" -> IF base + 1 >= MaxNested THEN [k |-> "toodeep", left |-> base + 1]
                                 ELSE [k |-> "ioerror", left |-> base + 1]
          [] nest = "self"    -> [k |-> "toodeep", left |-> MaxNested]
          [] OTHER            -> IF base + 4 >= MaxNested THEN [k |-> "toodeep", left |-> MaxNested]
                                 ELSE [k |-> "ok", left |-> base]

LRead(t) ==                        \* include_text = self.open_file(inc_file_path)
    /\ pc[t] = "iread"
    /\ LET c == cur[t]
           p == POf(t)
           kept == {e \in icache[p] : e.name = c.ipath.name}
       IN  /\ cwd' = IF IncResolve = "chdir" THEN c.saved ELSE cwd
           /\ IF IncCache = "by_name" /\ kept # {}
              THEN /\ Step(t, "clear", [c EXCEPT !.incl = (CHOOSE e \in kept : TRUE).content])
                   /\ UNCHANGED icache
              ELSE IF ~Exists(c.ipath.dir, c.ipath.name)
              THEN /\ Step(t, "ret", [c EXCEPT !.ret = [k |-> "ioerror"]])
                   /\ UNCHANGED icache
              ELSE /\ Step(t, IF After(t).k = "ok" THEN "clear" ELSE "ret",
                           IF After(t).k = "ok" THEN [c EXCEPT !.incl = c.ipath]
                           ELSE [c EXCEPT !.ret = [k |-> After(t).k]])
                   /\ icache' = IF IncCache = "by_name"
                                THEN [icache EXCEPT ![p] = @ \cup {[name |-> c.ipath.name, content |-> c.ipath]}]
                                ELSE icache
           \* the recursive call load_includes(include_text) runs one level deeper; an exception
           \* inside it skips the lowering of an instance counter
           /\ pdepth' = IF ~DepthInArg /\ ~(IncCache = "by_name" /\ kept # {}) /\ Exists(c.ipath.dir, c.ipath.name)
                        THEN [pdepth EXCEPT ![p] = After(t).left] ELSE pdepth
    /\ UNCHANGED <<ncalls, buf, cdict, mt, raw, exp, sobj, args, sid>>

LClear(t) ==                       \* self._comments[:] = []
    /\ pc[t] = "clear"
    /\ buf' = IF ClearsBuf THEN [buf EXCEPT ![POf(t)] = <<>>] ELSE buf
    /\ Step(t, "lex1", cur[t])
    /\ UNCHANGED <<ncalls, pdepth, cdict, mt, icache, raw, exp, sobj, args, sid, cwd>>

LLex(t, k) ==                      \* one token; the lexer callback appends a comment to the buffer
    /\ pc[t] = LexPc(k)
    /\ LET c == cur[t]
           d == DocTable[c.doc]
           own == IF k \in d.com THEN <<Comment(c.doc, k)>> ELSE <<>>
           \* a comment after the last node is lexed when the lexer runs to the end of the text
           tail == IF k = d.ntok /\ d.fail = 0 /\ (k + 1) \in d.com THEN <<Comment(c.doc, k + 1)>> ELSE <<>>
       IN  /\ buf' = IF c.com THEN [buf EXCEPT ![POf(t)] = @ \o own \o tail] ELSE buf
           /\ IF d.fail = k
              THEN Step(t, "ret", [c EXCEPT !.ret = Err])          \* parse error: buffer left as it is
              ELSE Step(t, IF k < d.ntok THEN LexPc(k + 1) ELSE IF c.com THEN "cdict" ELSE "tnew", c)
    /\ UNCHANGED <<ncalls, pdepth, cdict, mt, icache, raw, exp, sobj, args, sid, cwd>>

\* comments_dict[c.line] = c.value for c in _comments: a later comment on a line replaces an earlier
LastPerLine(b) == {b[i] : i \in {j \in 1..Len(b) : \A h \in (j + 1)..Len(b) : b[h].line # b[j].line}}

LCdict(t) ==
    /\ pc[t] = "cdict"
    \* self.comments_dict = {} ; then one entry per buffered comment (an entry of an earlier parse on
    \* the same line is replaced, any other entry stays when the dict is not rebuilt)
    /\ LET new == LastPerLine(buf[POf(t)])
           old == IF CdictRebuilt THEN {} ELSE {x \in cdict[POf(t)] : \A y \in new : y.line # x.line}
       IN  cdict' = [cdict EXCEPT ![POf(t)] = new \cup old]
    /\ Step(t, "assign", cur[t])
    /\ UNCHANGED <<ncalls, pdepth, buf, mt, icache, raw, exp, sobj, args, sid, cwd>>

LAssign(t) ==                      \* _assign_comments pops every comment up to the last node's line
    /\ pc[t] = "assign"
    /\ LET take == {x \in cdict[POf(t)] : x.line <= DocTable[cur[t].doc].ntok}
       IN  /\ cdict' = [cdict EXCEPT ![POf(t)] = @ \ take]
           /\ Step(t, "tnew", [cur[t] EXCEPT !.att = take])
    /\ UNCHANGED <<ncalls, pdepth, buf, mt, icache, raw, exp, sobj, args, sid, cwd>>

LTnew(t) ==                        \* self.mapfile_transformer = transformer_class(...)
    /\ pc[t] = "tnew"
    /\ mt' = [mt EXCEPT ![POf(t)] = [by |-> t, com |-> cur[t].com]]
    /\ Step(t, "trun", cur[t])
    /\ UNCHANGED <<ncalls, pdepth, buf, cdict, icache, raw, exp, sobj, args, sid, cwd>>

LTrun(t) ==                        \* return self.mapfile_transformer.transform(tree)
    /\ pc[t] = "trun"
    /\ LET c == cur[t]
       IN  Step(t, "ret", [c EXCEPT !.ret = [k |-> "dict", doc |-> c.doc,
                                             comments |-> IF mt[POf(t)].com THEN c.att ELSE {},
                                             inc |-> c.incl]])
    /\ UNCHANGED <<ncalls, pdepth, buf, cdict, mt, icache, raw, exp, sobj, args, sid, cwd>>

-----------------------------------------------------------------------------
(* dumps = PrettyPrinter(...).pprint(d)                                    *)

NewS(t) == 10 * t + cur[t].n
Lookup(v, key) == {e \in exp[v] : e.key = key}

DAlloc(t) ==
    /\ pc[t] = "alloc" /\ cur[t].kind \in {"dumps", "dumps_sep"}
    /\ IF SharedV THEN UNCHANGED <<raw, exp>>
       ELSE /\ raw' = [raw EXCEPT ![PVOf(t)] = {}]
            /\ exp' = IF ExpCacheGlobal THEN exp ELSE [exp EXCEPT ![PVOf(t)] = {}]
    /\ Step(t, "schema", cur[t])
    /\ UNCHANGED <<ncalls, pdepth, buf, cdict, mt, icache, sobj, args, sid, cwd>>

DSchema(t) ==                      \* self.validator.get_expanded_schema(type_): unversioned entry
    /\ pc[t] = "schema"
    /\ LET v == PXOf(t)
           key == <<"map", 0>>
           got == Lookup(v, key)
       IN  IF got # {}
           THEN /\ Step(t, "format", [cur[t] EXCEPT !.sch = (CHOOSE e \in got : TRUE).obj])
                /\ UNCHANGED <<exp, sobj>>
           ELSE /\ sobj' = [sobj EXCEPT ![NewS(t)] = {}]
                /\ exp' = [exp EXCEPT ![v] = @ \cup {[key |-> key, obj |-> NewS(t)]}]
                /\ Step(t, "format", [cur[t] EXCEPT !.sch = NewS(t)])
    /\ UNCHANGED <<ncalls, pdepth, buf, cdict, mt, icache, raw, args, sid, cwd>>

DFormat(t) ==
    /\ pc[t] = "format"
    /\ LET c == cur[t]
           h == args[c.doc]
           sep == c.kind = "dumps_sep"
           \* list-valued keywords: a new list of quoted items is built (FormatOnCopy) - or the items
           \* of the caller's list are replaced by their quoted form
           h2 == IF FormatOnCopy THEN h ELSE [h EXCEPT !.quoted = TRUE]
       IN  /\ args' = [args EXCEPT ![c.doc] = IF sep THEN [h2 EXCEPT !.order = "sep"] ELSE h2]
           /\ Step(t, "ret", [c EXCEPT !.ret = [k |-> "text", doc |-> c.doc,
                                                order |-> IF sep THEN "sep" ELSE h.order,
                                                extra |-> h.extra, lower |-> h.lower, vcom |-> h.vcom,
                                                quoted |-> h.quoted,
                                                removed |-> sobj[c.sch]]])
    /\ UNCHANGED <<ncalls, pdepth, buf, cdict, mt, icache, raw, exp, sobj, sid, cwd>>

-----------------------------------------------------------------------------
(* validate = Validator().validate(d, version=v)                           *)

VAlloc(t) ==
    /\ pc[t] = "alloc" /\ cur[t].kind \in {"validate", "validate_addc"}
    /\ IF SharedV THEN UNCHANGED <<raw, exp>>
       ELSE /\ raw' = [raw EXCEPT ![VOf(t)] = {}]
            /\ exp' = IF ExpCacheGlobal THEN exp ELSE [exp EXCEPT ![VOf(t)] = {}]
    \* mappyfile.validate picks the schema by root.get("__type__", "map"): a read
    /\ args' = IF TypesRoot THEN [args EXCEPT ![cur[t].doc].typed = TRUE] ELSE args
    /\ Step(t, IF cur[t].ver = 0 THEN "raw" ELSE "xchk", cur[t])
    /\ UNCHANGED <<ncalls, pdepth, buf, cdict, mt, icache, sobj, sid, cwd>>

VRaw(t) ==                         \* get_schema_validator: raw schema file cache, registry
    /\ pc[t] = "raw"
    /\ raw' = [raw EXCEPT ![VOf(t)] = @ \cup {"map"}]
    /\ Step(t, "lower", cur[t])
    /\ UNCHANGED <<ncalls, pdepth, buf, cdict, mt, icache, exp, sobj, args, sid, cwd>>

CacheKey(ver) == <<"map", IF KeyByVersion THEN ver ELSE 1>>

VXchk(t) ==                        \* if cache_schema_name not in self.expanded_schemas
    /\ pc[t] = "xchk"
    /\ LET got == Lookup(XOf(t), CacheKey(cur[t].ver))
       IN  IF got # {}
           THEN /\ Step(t, "xins", [cur[t] EXCEPT !.hit = TRUE, !.sch = (CHOOSE e \in got : TRUE).obj])
                /\ UNCHANGED sobj
           ELSE /\ sobj' = [sobj EXCEPT ![NewS(t)] = {}]              \* jsonref.load: a new object
                /\ Step(t, "xins", [cur[t] EXCEPT !.hit = FALSE, !.sch = NewS(t)])
    /\ UNCHANGED <<ncalls, pdepth, buf, cdict, mt, icache, raw, exp, args, sid, cwd>>

VXins(t) ==                        \* self.expanded_schemas[cache_schema_name] = jsn_schema
    /\ pc[t] = "xins"
    /\ LET key == CacheKey(cur[t].ver)
       IN  exp' = IF cur[t].hit THEN exp
                  ELSE [exp EXCEPT ![XOf(t)] = (@ \ Lookup(XOf(t), key)) \cup {[key |-> key, obj |-> cur[t].sch]}]
    /\ Step(t, "pkeys", cur[t])
    /\ UNCHANGED <<ncalls, pdepth, buf, cdict, mt, icache, raw, sobj, args, sid, cwd>>

VPkeys(t) ==                       \* keys_copy = list(properties.keys())
    /\ pc[t] = "pkeys"
    /\ Step(t, "prune1", [cur[t] EXCEPT !.keys = Entries \ sobj[cur[t].sch]])
    /\ UNCHANGED <<ncalls, pdepth, buf, cdict, mt, icache, raw, exp, sobj, args, sid, cwd>>

\* for key in keys_copy: v = properties[key]; del properties[key] when out of range - in place, on
\* the cached object.  A key deleted by somebody else since the copy was taken: KeyError.
VPrune(t, here, e, next) ==
    /\ pc[t] = here
    /\ LET c == cur[t]
       IN  IF e \in c.keys /\ e \in sobj[c.sch]
           THEN /\ Step(t, "ret", [c EXCEPT !.ret = Err])
                /\ UNCHANGED sobj
           ELSE /\ sobj' = IF e \in c.keys /\ ~InRange(e, c.ver) THEN [sobj EXCEPT ![c.sch] = @ \cup {e}]
                           ELSE sobj
                /\ Step(t, next, c)
    /\ UNCHANGED <<ncalls, pdepth, buf, cdict, mt, icache, raw, exp, args, sid, cwd>>

VLower(t) ==                       \* lowercase_dict = self.convert_lowercase(d): a copy
    /\ pc[t] = "lower"
    /\ args' = IF LowerOnCopy THEN args ELSE [args EXCEPT ![cur[t].doc].lower = TRUE]
    /\ Step(t, "judge", cur[t])
    /\ UNCHANGED <<ncalls, pdepth, buf, cdict, mt, icache, raw, exp, sobj, sid, cwd>>

VJudge(t) ==
    /\ pc[t] = "judge"
    /\ LET c == cur[t]
           d == DocTable[c.doc]
           errs == d.faults \cup (IF c.ver = 0 THEN {} ELSE d.entries \cap sobj[c.sch])
       IN  /\ args' = IF c.kind = "validate_addc" /\ errs # {} THEN [args EXCEPT ![c.doc].vcom = TRUE]
                      ELSE args
           /\ Step(t, "ret", [c EXCEPT !.ret = [k |-> "msgs", doc |-> c.doc, errs |-> errs]])
    /\ UNCHANGED <<ncalls, pdepth, buf, cdict, mt, icache, raw, exp, sobj, sid, cwd>>

-----------------------------------------------------------------------------
(* find / findall / findunique / findkey                                   *)

QRun(t) ==
    /\ pc[t] = "run"
    /\ LET c == cur[t]
       IN  /\ args' = IF FindInserts /\ c.kind \in {"find", "findall"} /\ c.key = "some"
                      THEN [args EXCEPT ![c.doc].extra = @ \cup {"some"}] ELSE args
           /\ Step(t, "ret", [c EXCEPT !.ret = [k |-> "items", doc |-> c.doc, key |-> c.key,
                                                kind |-> c.kind]])
    /\ UNCHANGED <<ncalls, pdepth, buf, cdict, mt, icache, raw, exp, sobj, sid, cwd>>

Return(t) ==
    /\ pc[t] = "ret"
    /\ Step(t, "idle", cur[t])
    /\ UNCHANGED <<ncalls, pdepth, buf, cdict, mt, icache, raw, exp, sobj, args, sid, cwd>>

-----------------------------------------------------------------------------

ThreadStep(t) ==
    /\ CanRun(t)
    /\ \/ Start(t)
       \/ LAlloc(t) \/ LIncl(t) \/ LResolve(t) \/ LRead(t) \/ LClear(t) \/ (\E k \in 1..4 : LLex(t, k)) \/ LCdict(t) \/ LAssign(t)
       \/ LTnew(t) \/ LTrun(t)
       \/ DAlloc(t) \/ DSchema(t) \/ DFormat(t)
       \/ VAlloc(t) \/ VRaw(t) \/ VXchk(t) \/ VXins(t)
       \/ VPkeys(t) \/ VPrune(t, "prune1", "anc", "prune2") \/ VPrune(t, "prune2", "old", "lower")
       \/ VLower(t) \/ VJudge(t)
       \/ QRun(t) \/ Return(t)

Next == \E t \in Threads : ThreadStep(t)

Init ==
    /\ pc = [t \in Threads |-> "idle"]
    /\ cur = [t \in Threads |-> NoCall]
    /\ ncalls = [t \in Threads |-> 0]
    /\ buf = [p \in PObjs |-> <<>>]
    /\ cdict = [p \in PObjs |-> {}]
    /\ mt = [p \in PObjs |-> NoT]
    /\ icache = [p \in PObjs |-> {}]
    /\ raw = [v \in VObjs |-> {}]
    /\ exp = [v \in VObjs |-> {}]
    /\ sobj = [s \in SObjs |-> {}]
    /\ args = [d \in DictDocs |-> [Heap0 EXCEPT !.typed = DocTable[d].typed]]
    /\ pdepth = [p \in PObjs |-> 0]
    /\ fin = [t \in Threads |-> NoFin]
    /\ cwd = Cwd0
    /\ hist = <<>>
    /\ sched = <<>>
    /\ running = 0
    /\ sid \in IF Mode = "script" THEN 1..Len(Scripts) ELSE {0}

Spec == Init /\ [][Next]_vars

-----------------------------------------------------------------------------
(* Properties                                                              *)

\* a dictionary held by a caller changes only in a step of a call of one of the two documented
\* mutating kinds, and only the dictionary passed to that call
\* (every step moves the program counter of exactly the thread that takes it)
ArgsStep ==
    \A d \in DictDocs :
        args'[d] # args[d] =>
            \E t \in Threads : pc'[t] # pc[t] /\ cur[t].kind \in MutatingKinds /\ cur[t].doc = d
ArgsUnchanged == [][ArgsStep]_vars

\* every completed call returned what a sequential call on fresh workers returns
SeqEquivalent == \A t \in Threads : fin[t].t # 0 => fin[t].ret = F(fin[t].call)

TypeOK ==
    /\ \A t \in Threads : cur[t].kind \in AllKinds \cup {"none"}
    /\ \A d \in DictDocs : args[d].order \in {"orig", "sep"}

AllIdle  == \A t \in Threads : pc[t] = "idle"

\* no call leaves the process in another working directory
CwdRestored == AllIdle => cwd = Cwd0
Finished == AllIdle /\ (Total = MaxCalls \/ \A t \in Threads : ~HasNext(t))

\* emission (G): complete call histories / schedules, printed once per distinct final state
Emit == (Record /\ Finished) => PrintT(ToJson([sid |-> sid, hist |-> hist, sched |-> sched]))
=============================================================================
