--------------------------- MODULE TraceParseLoop ---------------------------
(***************************************************************************)
(* Trace validation for C11 (T).  The harness wraps lark's                 *)
(* InteractiveParser.iter_parse at run time and records, for every token   *)
(* that Parser.parse looks at,                                             *)
(*   {tid, ev: "tok", before, after, v, lv, top: {k, ty, v}}               *)
(* (terminal name before / after the loop body, token text when it is a    *)
(* plain word ("~" otherwise), the value-stack top), and one record        *)
(*   {tid, ev: "out", kind, stage, haspos, line, col, nlines, isdict}      *)
(* for what the call did (and {tid, ev: "time", n0, t0us, n1, t1us} for a  *)
(* measured pair of the timing clause, judged by TimeOK).  TLC replays each trace through ParseLoop:       *)
(*   clause "top"     the recorded stack top is the previous token as the  *)
(*                    spec's `prev` has it (After),                        *)
(*   clause "retype"  after = Retype(prev, tok),                           *)
(*   clause contract  OutcomeOK of the outcome record.                     *)
(* One verdict line per trace: {tid, drift, contract, n}.  The mechanism   *)
(* clauses only ever produce MECHANISM-DRIFT in the harness.               *)
(***************************************************************************)
EXTENDS ParseLoop, IOUtils

Trace == ndJsonDeserialize(IOEnv.TRACE_FILE)

VARIABLES l, tid, tprev, drift, contract, cnt

tvars == <<l, tid, tprev, drift, contract, cnt>>

ContractClause(r) ==
    IF r.kind \notin {"ok", "larkerror"} THEN "kind"
    ELSE IF IsSyntaxError(r) /\ ~(r.haspos /\ PosOK(r.line, r.col, r.nlines)) THEN "position"
    ELSE IF ~PosExact(r) THEN "exact-position"
    ELSE IF r.kind = "ok" /\ ~r.isdict THEN "result-type"
    ELSE IF OutcomeOK(r) THEN "ok" ELSE "contract"

TopOK(p, r) == /\ r.top.k = p.k
               /\ p.k = "tok" => (r.top.ty = p.ty /\ r.top.v = p.v)

TokDrift(p, r) ==
    IF ~TopOK(p, r) THEN "top"
    ELSE IF r.after # "~aborted" /\ r.after # Retype(p, [ty |-> r.before, v |-> r.v, lv |-> r.lv]) THEN "retype"
    ELSE ""

Verdict == PrintT(ToJson([tid |-> tid, drift |-> drift, contract |-> contract, n |-> cnt]))

\* apply record r to the per-trace state (p = prev, d = drift so far, c = contract so far, n = events)
Apply(r, p, d, c, n) ==
    IF r.ev = "tok"
    THEN /\ tprev' = [k |-> "tok", ty |-> (IF r.after = "~aborted" THEN r.before ELSE r.after), v |-> r.v, lv |-> r.lv]
         /\ drift' = IF d # "" THEN d ELSE TokDrift(p, r)
         /\ contract' = c
         /\ cnt' = n + 1
    ELSE IF r.ev = "out"
    THEN /\ tprev' = p
         /\ drift' = d
         /\ contract' = IF c # "none" THEN "twice" ELSE ContractClause(r)
         /\ cnt' = n
    ELSE IF r.ev = "time"
    THEN /\ tprev' = p
         /\ drift' = d
         /\ contract' = IF TimeOK(r) THEN "ok" ELSE "time"
         /\ cnt' = n
    ELSE /\ UNCHANGED <<tprev, drift, contract, cnt>>       \* "eof" sentinel

Step(r) ==
    IF r.tid # tid
    THEN /\ (tid # 0 => Verdict)
         /\ tid' = r.tid
         /\ Apply(r, NoPrev, "", "none", 0)
    ELSE /\ tid' = tid
         /\ Apply(r, tprev, drift, contract, cnt)

TraceInit ==
    /\ l = 1 /\ tid = 0 /\ tprev = NoPrev /\ drift = "" /\ contract = "none" /\ cnt = 0
    /\ soup = <<>> /\ prev = NoPrev /\ rets = <<>> /\ outcome = "none" /\ muts = <<>> /\ base = 0 /\ rtype = ""

TraceNext ==
    /\ l <= Len(Trace)
    /\ Step(Trace[l])
    /\ l' = l + 1
    /\ UNCHANGED vars

\* the whole file was consumed (POSTCONDITION)
Consumed == TLCGet("stats").diameter - 1 = Len(Trace)
=============================================================================
