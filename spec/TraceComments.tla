--------------------------- MODULE TraceComments ---------------------------
(***************************************************************************)
(* C14 / C13, code -> spec.  One record per real execution:                *)
(*  what = "comments": src = ids of the comments in the source, out = ids  *)
(*    of the comments found in dumps output (0 = text that is no source    *)
(*    comment), with/without = projections of the reloaded outputs,        *)
(*    claimed = for every claimed slot the spec's expectation and what the *)
(*    independent reader observed;                                         *)
(*  what = "transparent": base = plain load, variants = loads with the     *)
(*    bookkeeping flags on (hidden keys already separated by the           *)
(*    projection), printed = interned digests of the comment-free line     *)
(*    events of each variant's dumps output.                               *)
(***************************************************************************)
EXTENDS TraceBase, FiniteSets

VARIABLE l

Count(seq, x) == Cardinality({i \in 1..Len(seq) : seq[i] = x})

Leaf(a, b) == a.t = b.t /\ (IF a.t = "bool" THEN a.b = b.b ELSE IF a.t = "none" THEN TRUE ELSE a.id = b.id)
RECURSIVE Eq(_, _)
Eq(a, b) ==
    IF a.t # b.t THEN FALSE
    ELSE IF a.t = "dict" THEN
        /\ a.type = b.type
        /\ Len(a.items) = Len(b.items)
        /\ \A i \in 1..Len(a.items) : a.items[i].k = b.items[i].k /\ Eq(a.items[i].v, b.items[i].v)
    ELSE IF a.t = "list" THEN Len(a.elems) = Len(b.elems) /\ \A i \in 1..Len(a.elems) : Eq(a.elems[i], b.elems[i])
    ELSE Leaf(a, b)

\* --- C14 ------------------------------------------------------------------
ClaimOK(c) ==
    /\ c.found
    /\ c.where = "eol"   => (c.linekind = "attr" /\ c.key = c.wantkey /\ c.chain = c.wantchain /\ c.valsame)
    /\ c.where = "above" => (c.linekind = "comment" /\ c.nextkind = "open" /\ c.nextkey = c.wantkey /\ c.chain = c.wantchain)

RECURSIVE FirstBadClaim(_, _)
FirstBadClaim(cs, i) == IF i > Len(cs) THEN "" ELSE IF ~ClaimOK(cs[i]) THEN
                              (IF ~cs[i].found THEN "claimed-comment-lost:" ELSE "claimed-comment-moved:") \o cs[i].where \o ":" \o cs[i].wantkey
                        ELSE FirstBadClaim(cs, i + 1)

JudgeComments(r) ==
    LET ids == {r.out[i] : i \in 1..Len(r.out)} IN
    IF ~r.accepted THEN "output-with-comments-rejected"
    ELSE IF 0 \in ids THEN "comment-invented-or-altered"
    ELSE IF \E x \in ids : Count(r.out, x) > Count(r.src, x) THEN "comment-duplicated"
    ELSE IF ~Eq(r.with, r.without) THEN "content-differs-with-comments"
    ELSE LET c == FirstBadClaim(r.claimed, 1) IN IF c = "" THEN "ok" ELSE c

\* --- C13 ------------------------------------------------------------------
RECURSIVE FirstVariant(_, _)
FirstVariant(r, i) ==
    IF i > Len(r.variants) THEN ""
    ELSE LET v == r.variants[i] IN
         IF ~Eq(r.base, v.proj) THEN "content-changed:" \o v.name
         \* "types identical": the Python container / value types (list vs tuple, dict class), as a digest
         ELSE IF v.types # r.types THEN "types-changed:" \o v.name
         ELSE IF v.position_printed THEN "position-printed:" \o v.name
         ELSE IF v.printed # r.printed THEN "printed-differs:" \o v.name
         ELSE IF ~v.hidden_ok THEN "unexpected-hidden-keys:" \o v.name
         ELSE FirstVariant(r, i + 1)

JudgeTransparent(r) == LET v == FirstVariant(r, 1) IN IF v = "" THEN "ok" ELSE v

Judge(r) == IF r.what = "comments" THEN JudgeComments(r) ELSE JudgeTransparent(r)

TInit == l = 0
TNext == /\ l < Len(Trace)
         /\ l' = l + 1
         /\ PrintT(ToJson([tid |-> Trace[l'].tid, verdict |-> Judge(Trace[l'])]))
=============================================================================
