----------------------------- MODULE Validator -----------------------------
(***************************************************************************)
(* Version-aware validation of mappyfile (property C09).                   *)
(*                                                                         *)
(* Two things are written down here and compared with each other:          *)
(*                                                                         *)
(*  - the CONTRACT: a schema entry (keyword, value alternative, object)    *)
(*    annotated with minVersion / maxVersion is accepted for version v     *)
(*    exactly when Accept(e, v); the answer of every call is a function    *)
(*    of its arguments only (Judge);                                       *)
(*                                                                         *)
(*  - the MECHANISM of mappyfile.validator.Validator: a cache of raw       *)
(*    schemas, a cache of expanded (jsonref) schema objects keyed by       *)
(*    schema name + version, and get_versioned_properties, which prunes    *)
(*    the cached object IN PLACE.  A cached object is represented by the   *)
(*    set of versions it has been pruned with; an entry is still inside it *)
(*    iff every one of those prunings kept it.                             *)
(*                                                                         *)
(* Versions are rationals with two decimals, held as integers x100 (7.6 ->  *)
(* 760, 7.64 -> 764): a supplied version need not be a published one.       *)
(* Bounds: NoMin = 0, NoMax = 100000.  Entries, paths and probe documents are structure extracted from *)
(* the schemas of the current tree by harness/versions.py; no verdict is   *)
(* computed outside this module.                                           *)
(***************************************************************************)
EXTENDS Naturals, Sequences, FiniteSets, TLC, Json, IOUtils

CONSTANTS
    Versions,       \* versions used in call histories and for fault probes
    Names,          \* schema names used by get_versioned_schema / create in call histories
    KeyWithVersion, \* TRUE: expanded-schema cache keyed by name + version (the code as it is)
                    \* FALSE: keyed by name only (the behaviour before the fix; negative config)
    Derive,         \* "fresh": every cache entry is expanded from the schema files (the code as it is)
                    \* "alias": a versioned entry created while the version-less entry of the same
                    \*   schema is cached is a shallow copy of it - the nested objects are shared, so
                    \*   pruning one prunes all of them (negative config)
    Ops,            \* the kinds of call a history may contain
    Forms,          \* argument forms of validate: "dict" one root object | "list1" a list holding one
                    \*   root | "list2" a list of two roots (what loads returns for a multi-root Mapfile)
    Fine,           \* distances (in hundredths) of the non-tenth probe versions from every bound
    MaxCalls,       \* length bound of a call history
    Mode            \* "mc" exhaustive histories | "sim" random histories with emission |
                    \* "all" exhaustive histories of exactly MaxCalls calls with emission |
                    \* "table" probe table and schema table

(* Structure extracted from the schemas of the current tree (harness/versions.py), handed over as   *)
(* one JSON file (a cfg file cannot hold tuples):                                                    *)
(*   entries  [[entry id, minVersion x100, maxVersion x100]]                                           *)
(*   defaults [[schema name, entry id]]   annotated keywords of that schema carrying a default       *)
(*   paths    [[schema name, entry id, guards]]  a path from the root schema to the entry; guards =  *)
(*            the annotated entries crossed on the way (its annotated ancestors)                     *)
(*   docs     [{id, root, entry | "", covers, guards, shadow, fault, fine}]  probe documents         *)
(*            fine   = probe it at the non-tenth versions next to its bounds as well                 *)
(*            covers = annotated alternatives / keyword / object the probe value relies on           *)
(*            guards = annotated entries on the path from the root to it                             *)
(*            shadow = an unannotated alternative admits the value as well                           *)
(*            fault  = the document carries a fault in an unannotated keyword                        *)
Data     == JsonDeserialize(IOEnv.C09_DATA)
ToSet(s) == {s[i] : i \in DOMAIN s}
Entries  == ToSet(Data.entries)
Defaults == ToSet(Data.defaults)
Paths    == {<<p[1], p[2], ToSet(p[3])>> : p \in ToSet(Data.paths)}

VARIABLES raw, exp, answer, last, ncalls, hist, target

vars == <<raw, exp, answer, last, ncalls, hist, target>>

NoVersion == 1000000
NoMin     == 0
NoMax     == 100000
VersionsN == Versions \cup {NoVersion}

-----------------------------------------------------------------------------
(* Entries                                                                 *)

EntryIds == {e[1] : e \in Entries}
MinOf    == [i \in EntryIds |-> (CHOOSE e \in Entries : e[1] = i)[2]]
MaxOf    == [i \in EntryIds |-> (CHOOSE e \in Entries : e[1] = i)[3]]

\* THE rule of the property
Accept(i, v) == v = NoVersion \/ (MinOf[i] <= v /\ v <= MaxOf[i])

-----------------------------------------------------------------------------
(* Documents                                                               *)

Doc(t)   == [id |-> t.id, root |-> t.root, entry |-> t.entry, covers |-> ToSet(t.covers),
             guards |-> ToSet(t.guards), shadow |-> t.shadow, fault |-> t.fault, fine |-> t.fine]
DocRecs  == {Doc(t) : t \in ToSet(Data.docs)}
DocById  == [i \in {d.id : d \in DocRecs} |-> CHOOSE d \in DocRecs : d.id = i]
AllNames == Names \cup {d.root : d \in DocRecs}

\* contract: is the (fault-free part of the) document acceptable for version v
DocOK(d, v) == /\ \A g \in d.guards : Accept(g, v)
               /\ (d.shadow \/ \E c \in d.covers : Accept(c, v))

-----------------------------------------------------------------------------
(* Schema objects: which annotated entries does the schema for (name, v) hold *)

PathsOf == [n \in AllNames |-> [i \in EntryIds |-> {p[3] : p \in {q \in Paths : q[1] = n /\ q[2] = i}}]]
Reach(n) == {i \in EntryIds : PathsOf[n][i] # {}}

Avail(n, i, v) == Accept(i, v) /\ \E g \in PathsOf[n][i] : \A a \in g : Accept(a, v)
Absent(n, v)   == {i \in Reach(n) : ~Avail(n, i, v)}

DefaultsOf(n, v) == {p[2] : p \in {q \in Defaults : q[1] = n /\ Accept(q[2], v)}}

-----------------------------------------------------------------------------
(* The mechanism                                                           *)

Key(n, v) == IF KeyWithVersion THEN <<n, v>> ELSE <<n, NoVersion>>
Keys      == AllNames \X VersionsN
Fresh     == [k \in Keys |-> [in |-> FALSE, alias |-> FALSE, pruned |-> {}]]

\* the object a cache entry stands for: an aliased entry shares its nested structure (and so every
\* pruning) with the version-less entry of the same schema
Obj(e, k) == [in |-> e[k].in,
              pruned |-> IF e[k].alias THEN e[<<k[1], NoVersion>>].pruned ELSE e[k].pruned]

\* an entry is still inside a cached object iff every pruning so far kept it
InC(c, i)        == \A w \in c.pruned : Accept(i, w)
AvailC(c, n, i)  == InC(c, i) /\ \E g \in PathsOf[n][i] : \A a \in g : InC(c, a)
AbsentC(c, n)    == {i \in Reach(n) : ~AvailC(c, n, i)}
DocInC(c, d)     == /\ \A g \in d.guards : InC(c, g)
                    /\ (d.shadow \/ \E x \in d.covers : InC(c, x))

\* get_versioned_schema(v, n): get_expanded_schema creates the cache entry, then the object is
\* pruned in place with v  ("if version:")
Touch(e, n, v) ==
    LET k  == Key(n, v)
        al == IF e[k].in THEN e[k].alias
              ELSE Derive = "alias" /\ v # NoVersion /\ k # <<n, NoVersion>> /\ e[<<n, NoVersion>>].in
        e1 == [e EXCEPT ![k] = [in |-> TRUE, alias |-> al, pruned |-> @.pruned]]
    IN  IF v = NoVersion THEN e1
        ELSE IF al THEN [e1 EXCEPT ![<<n, NoVersion>>].pruned = @ \cup {v}]
        ELSE [e1 EXCEPT ![k].pruned = @ \cup {v}]

\* answers computed by the mechanism from a cache state e (after the call)
MechValidate(e, d, v) ==
    [reject |-> d.fault \/ (v # NoVersion /\ ~DocInC(Obj(e, Key(d.root, v)), d))]    \* no version: raw schema
\* a list of roots: the messages of all of them
MechSeq(e, ds, v)     == [reject |-> \E i \in DOMAIN ds : MechValidate(e, DocById[ds[i]], v).reject]
MechSchema(e, n, v)   == [absent |-> AbsentC(Obj(e, Key(n, v)), n)]
MechCreate(e, n, v)   == [defaults |-> {p[2] : p \in {q \in Defaults : q[1] = n /\ InC(Obj(e, Key(n, v)), q[2])}}]

-----------------------------------------------------------------------------
(* The contract: the answer as a function of the arguments only            *)

Judge(c) ==
    CASE c.op \in {"validate", "mod_validate"} ->       \* one root or a list of roots: each is judged
            [reject |-> \E i \in DOMAIN c.docs : DocById[c.docs[i]].fault \/ ~DocOK(DocById[c.docs[i]], c.v)]
      [] c.op \in {"get_versioned", "export", "mod_export"} -> [absent |-> Absent(c.name, c.v)]
      [] c.op = "mod_create" -> [defaults |-> DefaultsOf(c.name, c.v)]
      [] OTHER -> [none |-> TRUE]

-----------------------------------------------------------------------------
(* Calls                                                                   *)

Pick(S) == IF Mode = "sim" THEN {RandomElement(S)} ELSE S

Record(c) ==
    /\ last' = c
    /\ ncalls' = ncalls + 1
    /\ hist' = IF Mode \in {"sim", "all"} THEN Append(hist, [call |-> c, exp |-> Judge(c)]) ELSE hist
    /\ UNCHANGED target

\* the argument of validate built around document d: the root itself, a list holding it, a list of
\* two roots (the second of the same root type when one schema_name serves the whole list)
Args(d, sameRoot) ==
    (IF "dict" \in Forms THEN {[form |-> "dict", docs |-> <<d.id>>]} ELSE {})
    \cup (IF "list1" \in Forms THEN {[form |-> "list", docs |-> <<d.id>>]} ELSE {})
    \cup (IF "list2" \in Forms
          THEN {[form |-> "list", docs |-> <<d.id, x.id>>] :
                   x \in Pick(IF sameRoot THEN {y \in DocRecs : y.root = d.root} ELSE DocRecs)}
          ELSE {})

\* Validator.validate(doc | [docs], schema_name = root, version = v) on THE object
Validate ==
    \E d \in Pick(DocRecs), v \in Pick(VersionsN) : \E a \in Pick(Args(d, TRUE)) :
        /\ exp' = IF v = NoVersion THEN exp ELSE Touch(exp, d.root, v)
        /\ raw' = IF v = NoVersion THEN raw \cup {d.root} ELSE raw
        /\ answer' = MechSeq(exp', a.docs, v)
        /\ Record([op |-> "validate", docs |-> a.docs, form |-> a.form, name |-> d.root, v |-> v])

\* Validator.get_versioned_schema(v, n) on THE object; the returned object is walked
GetVersioned ==
    \E n \in Pick(Names), v \in Pick(VersionsN) :
        /\ exp' = Touch(exp, n, v)
        /\ answer' = MechSchema(exp', n, v)
        /\ Record([op |-> "get_versioned", name |-> n, v |-> v])
        /\ UNCHANGED raw

\* schema export on THE object: get_versioned_schema(v) + json.dumps (what `mappyfile schema` does)
Export ==
    \E v \in Pick(VersionsN) :
        /\ exp' = Touch(exp, "map", v)
        /\ answer' = MechSchema(exp', "map", v)
        /\ Record([op |-> "export", name |-> "map", v |-> v])
        /\ UNCHANGED raw

\* the module-level API creates a Validator per call: a fresh cache, the object is untouched.
\* mappyfile.validate(doc | [docs], version = v) judges every root with the schema of its own type,
\* all roots of one call on the same new Validator.
ModValidate ==
    \E d \in Pick(DocRecs), v \in Pick(VersionsN) : \E a \in Pick(Args(d, FALSE)) :
        LET r1 == d.root
            r2 == DocById[a.docs[Len(a.docs)]].root
            e  == IF v = NoVersion THEN Fresh ELSE Touch(Touch(Fresh, r1, v), r2, v)
        IN  /\ answer' = MechSeq(e, a.docs, v)
            /\ Record([op |-> "mod_validate", docs |-> a.docs, form |-> a.form, name |-> d.root, v |-> v])
            /\ UNCHANGED <<raw, exp>>

ModExport ==            \* the `mappyfile schema [--version=v]` command, run in this process
    \E v \in Pick(VersionsN) :
        /\ answer' = MechSchema(Touch(Fresh, "map", v), "map", v)
        /\ Record([op |-> "mod_export", name |-> "map", v |-> v])
        /\ UNCHANGED <<raw, exp>>

ModCreate ==            \* mappyfile.create(n, version = v): defaults of the versioned schema
    \E n \in Pick(Names), v \in Pick(VersionsN) :
        /\ answer' = MechCreate(Touch(Fresh, n, v), n, v)
        /\ Record([op |-> "mod_create", name |-> n, v |-> v])
        /\ UNCHANGED <<raw, exp>>

Validate2 == Mode = "sim" /\ Validate         \* (simulation draws uniformly among the disjuncts)
Validate3 == Mode = "sim" /\ Validate
GetVersioned2 == Mode = "sim" /\ GetVersioned

Init ==
    /\ raw = {}
    /\ exp = Fresh
    /\ answer = [none |-> TRUE]
    /\ last = [op |-> "init"]
    /\ ncalls = 0
    /\ hist = <<>>
    /\ target \in (IF Mode = "sim" THEN 2..MaxCalls ELSE {MaxCalls})

Next ==
    /\ Mode \in {"mc", "sim", "all"}
    /\ ncalls < target
    /\ \/ "validate" \in Ops /\ (Validate \/ Validate2 \/ Validate3)
       \/ "get_versioned" \in Ops /\ (GetVersioned \/ GetVersioned2)
       \/ "export" \in Ops /\ Export
       \/ "mod_validate" \in Ops /\ ModValidate
       \/ "mod_export" \in Ops /\ ModExport
       \/ "mod_create" \in Ops /\ ModCreate

Spec == Init /\ [][Next]_vars

-----------------------------------------------------------------------------
(* Invariants                                                              *)

\* the entries present in a cached object are exactly those accepted for the version of its key
CacheSound ==
    \A k \in Keys : exp[k].in => \A i \in EntryIds : InC(Obj(exp, k), i) <=> Accept(i, k[2])

\* the answer of the last call is a function of its arguments only
HistoryIndependent == answer = Judge(last)

\* a version-less answer never rejects an annotated entry, an in-range one neither (sanity of Judge)
VersionlessAcceptsAll ==
    \A d \in DocRecs : ~d.fault => DocOK(d, NoVersion)

Bound == ncalls <= MaxCalls

-----------------------------------------------------------------------------
(* Emission                                                                *)

Emit == (Mode \in {"sim", "all"} /\ ncalls = target) => PrintT(ToJson(hist))

\* probe table: every document x the versions at, just below and just above the bounds of its
\* entry (and no version) - the neighbouring tenths and, for `fine` documents, the non-tenth versions
\* at the distances Fine on either side of each bound; fault documents x Versions (and no version)
VClasses(i, fine) ==
    LET F == IF fine THEN Fine ELSE {} IN
    {<<"none", NoVersion>>}
    \cup (IF MinOf[i] # NoMin
          THEN {<<"below-min", MinOf[i] - 10>>, <<"at-min", MinOf[i]>>}
               \cup {<<"just-below-min", MinOf[i] - f>> : f \in F} \cup {<<"just-above-min", MinOf[i] + f>> : f \in F}
          ELSE {})
    \cup (IF MaxOf[i] # NoMax
          THEN {<<"at-max", MaxOf[i]>>, <<"above-max", MaxOf[i] + 10>>}
               \cup {<<"just-below-max", MaxOf[i] - f>> : f \in F} \cup {<<"just-above-max", MaxOf[i] + f>> : f \in F}
          ELSE {})

\* the verdict of mappyfile.validate for the document given as a list of n roots
Roots(d, n, v) == ~Judge([op |-> "mod_validate", docs |-> [i \in 1..n |-> d.id], v |-> v]).reject

RowsOf(d) ==
    IF d.entry = ""
    THEN {[doc |-> d.id, vc |-> "fault", v |-> v, accept |-> ~(d.fault \/ ~DocOK(d, v)),
           own |-> TRUE, guardsok |-> TRUE, list1 |-> Roots(d, 1, v), list2 |-> Roots(d, 2, v)] : v \in VersionsN}
    ELSE {[doc |-> d.id, vc |-> c[1], v |-> c[2], accept |-> ~(d.fault \/ ~DocOK(d, c[2])),
           own |-> Accept(d.entry, c[2]),
           guardsok |-> \A g \in d.guards : Accept(g, c[2]),
           list1 |-> Roots(d, 1, c[2]), list2 |-> Roots(d, 2, c[2])] : c \in VClasses(d.entry, d.fine)}

EmitTable == Mode = "table" => \A d \in DocRecs : PrintT(ToJson(RowsOf(d)))

\* schema table: for every schema name x version, the annotated entries the versioned schema must
\* not hold, and the annotated defaults create() must give
SchemaRows(n) == {[name |-> n, v |-> v, absent |-> Absent(n, v), defaults |-> DefaultsOf(n, v)] : v \in VersionsN}
EmitSchemas == Mode = "table" => \A n \in Names : PrintT(ToJson(SchemaRows(n)))
=============================================================================
