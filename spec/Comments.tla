------------------------------ MODULE Comments ------------------------------
(***************************************************************************)
(* Comment flow (C14, C13): a generated document in one-keyword-per-line   *)
(* layout receives comments in *slots*; the specification says which slots *)
(* are claimed by the property and where a claimed comment must be found   *)
(* in the output, and models the flow                                      *)
(*   captured (keyed by line) -> pending -> taken by the next node whose   *)
(*   line is >= the comment's line -> stored on that node -> printed       *)
(* to show that the claimed slots are exactly those the flow preserves.    *)
(*                                                                         *)
(* Slots of a document (one builder action = one item; item 0 = the root   *)
(* block's opener):                                                        *)
(*   eol(i)    end of the first line of item i                             *)
(*   above(i)  own line(s) directly above the first line of item i         *)
(* Claimed (C14): eol(i) with a # comment when item i is a simple keyword  *)
(* (one line, not repeatable, not CONFIG); above(i) when item i opens an   *)
(* object block or a METADATA / VALIDATION / CONNECTIONOPTIONS block.      *)
(***************************************************************************)
EXTENDS Reader

CONSTANT MaxComments

VARIABLES cms, placed

cvars == <<stack, hist, done, target, cms, placed>>

Items == IF done THEN Len(hist) - 1 ELSE 0       \* builder actions of the finished document

ItemAct(i) == IF i = 0 THEN [a |-> "root"] ELSE hist[i]

ClaimedEol(i)   == i > 0 /\ ItemAct(i).a = "attr"
ClaimedAbove(i) == \/ i = 0
                   \/ ItemAct(i).a = "open"
                   \/ (ItemAct(i).a = "kv" /\ ItemAct(i).type \in {"metadata", "validation", "connectionoptions"})

Claimed(c) == IF c.where = "eol" THEN ClaimedEol(c.item) /\ c.style = "hash" ELSE ClaimedAbove(c.item)

\* two comments in one eol slot would share a line (the implementation keeps one per line):
\* not a configuration the property claims, so at most one comment per eol slot is placed
FreeEol(i) == \A k \in 1..Len(cms) : ~(cms[k].where = "eol" /\ cms[k].item = i)

Place ==
    /\ done /\ ~placed /\ Len(cms) < MaxComments
    /\ \E i \in Pick(0..Items), w \in Pick({"eol", "above"}), st \in Pick({"hash", "c"}) :
         /\ (w = "eol" => FreeEol(i))
         /\ LET c == [item |-> i, where |-> w, style |-> st, id |-> Len(cms) + 1] IN
            cms' = Append(cms, [c EXCEPT !.item = i] @@ [claimed |-> Claimed(c)])
    /\ UNCHANGED <<stack, hist, done, target, placed>>

Place2 == Place
Place3 == Place
Seal == /\ done /\ ~placed /\ Len(cms) >= 1 /\ placed' = TRUE
        /\ UNCHANGED <<stack, hist, done, target, cms>>

\* a simple keyword the grammar accepts but the schema of the enclosing object does not list (old or custom
\* spellings): still "a line holding a single simple keyword", so its end-of-line # comment is claimed
UnknownKeys == {"symbolscale", "overlaysymbol", "cachekey"}
UnknownAttr ==
    /\ ~done /\ Steps < target
    /\ \E k \in Pick(UnknownKeys), i \in Pick(Ids), kc \in Pick(Cases) :
         /\ ~HasKey(Top.d, k)
         \* (a word the lexer does not know right behind a SYMBOL opener reads as the value of a SYMBOL keyword:
         \* the parser's SYMBOL look-ahead; such documents are outside every quantifier)
         /\ Top.type # "symbol"
         /\ \A s \in SlotsBy[Top.type] : s[2] # k
         /\ Apply([a |-> "attr", key |-> k, kc |-> kc, val |-> [sh |-> "int", id |-> i], post |-> <<>>])
    /\ UNCHANGED <<done, target, cms, placed>>

CInit == Init /\ cms = <<>> /\ placed = FALSE
CNext == (Build /\ UNCHANGED <<cms, placed>>) \/ UnknownAttr \/ (Finish /\ UNCHANGED <<cms, placed>>) \/ Place \/ Place2 \/ Place3 \/ Seal

CEmit == placed => PrintT(ToJson([hist |-> hist, comments |-> cms]))

-----------------------------------------------------------------------------
(* The flow model.  Lines of the laid-out document: every item contributes *)
(* its lines; a line may carry a *node* (something the assignment pass     *)
(* visits: object block, kv block except VALUES, simple/repeated/CONFIG    *)
(* keyword, PROJECTION, key-value pair).                                   *)

Line(node, item) == [node |-> node, item |-> item]

ItemLines(i) ==
    LET a == ItemAct(i) IN
    CASE a.a \in {"root", "open", "attr", "repeated", "config"} -> <<Line(TRUE, i)>>
      [] a.a = "end" -> <<Line(FALSE, i)>>
      [] a.a = "kv" -> <<Line(a.type # "values", i)>> \o [k \in 1..Len(a.pairs) |-> Line(TRUE, 1000 + i)] \o <<Line(FALSE, i)>>
      [] a.a = "projection" -> <<Line(TRUE, i)>> \o [k \in 1..(IF a.auto THEN 1 ELSE Len(a.strs)) |-> Line(FALSE, i)] \o <<Line(FALSE, i)>>
      [] a.a \in {"points", "pattern"} -> <<Line(FALSE, i)>> \o [k \in 1..Len(a.pairs) |-> Line(FALSE, i)] \o <<Line(FALSE, i)>>
      [] OTHER -> <<>>

AboveOf(i) == SelectSeq(cms, LAMBDA c : c.where = "above" /\ c.item = i)
EolOf(i)   == SelectSeq(cms, LAMBDA c : c.where = "eol" /\ c.item = i)

\* text lines in order: [node, item, cm] where cm = comment ids captured on that line
RECURSIVE Layout(_)
Layout(i) ==
    IF i > Items THEN <<>>
    ELSE LET own == ItemLines(i)
             ab  == [k \in 1..Len(AboveOf(i)) |-> [node |-> FALSE, item |-> i, cm |-> <<AboveOf(i)[k].id>>]]
             first == IF Len(own) = 0 THEN <<>> ELSE
                      <<[node |-> own[1].node, item |-> own[1].item, cm |-> [k \in 1..Len(EolOf(i)) |-> EolOf(i)[k].id]]>>
             rest == IF Len(own) <= 1 THEN <<>> ELSE [k \in 1..(Len(own) - 1) |-> [node |-> own[k + 1].node, item |-> own[k + 1].item, cm |-> <<>>]]
         IN  ab \o first \o rest \o Layout(i + 1)

\* the assignment pass: walking the lines in order, a node line takes every pending comment
\* captured on a line <= its own (PROJECTION nodes also take what lies inside the block: ignored here,
\* comments are not placed inside blocks of that kind)
RECURSIVE Flow(_, _, _, _)
Flow(lines, k, pending, attached) ==
    IF k > Len(lines) THEN attached
    ELSE LET pend2 == pending \o lines[k].cm IN
         IF lines[k].node THEN Flow(lines, k + 1, <<>>, attached @@ (k :> [item |-> lines[k].item, cm |-> pend2]))
         ELSE Flow(lines, k + 1, pend2, attached)

AttachedTo(cid) ==
    LET lines == Layout(0)
        att == Flow(lines, 1, <<>>, <<>>)
        ks == {k \in DOMAIN att : \E j \in 1..Len(att[k].cm) : att[k].cm[j] = cid}
    IN  IF ks = {} THEN 9999 ELSE att[CHOOSE k \in ks : TRUE].item

\* the flow keeps every claimed comment on the item it was written for
ClaimedStay == placed => \A k \in 1..Len(cms) : cms[k].claimed => AttachedTo(cms[k].id) = cms[k].item
\* and never attaches a comment to two nodes
NoDuplication == placed =>
    LET att == Flow(Layout(0), 1, <<>>, <<>>) IN
    \A k1, k2 \in DOMAIN att : k1 # k2 => \A j1 \in 1..Len(att[k1].cm), j2 \in 1..Len(att[k2].cm) : att[k1].cm[j1] # att[k2].cm[j2]
=============================================================================
