---------------------------- MODULE TraceLayout ----------------------------
(***************************************************************************)
(* C16: the printed text is the trace.  A record holds the option set and, *)
(* for every physical line of dumps output, what the independent reader    *)
(* measured: nesting level (from the open/END structure, not from the      *)
(* indentation), kind, keyword, length and uniformity of the leading       *)
(* white space, offset at which the value starts, END comment.  The stack  *)
(* machine below re-derives what each of these must be.                    *)
(***************************************************************************)
EXTENDS TraceBase, Options

VARIABLE l

Structural(ln) == ln.kind \in {"open", "end", "attr", "pair", "item"}

\* clause 1/2: indentation = nesting depth x indent copies of spacer, on its own line
IndentOK(opts, ln) == ln.wslen = IndentLen(opts, ln.lvl) /\ ln.wsok

\* END closes the innermost open block at the opener's indentation; END comment
RECURSIVE Walk(_, _, _, _)
Walk(opts, lines, i, st) ==
    IF i > Len(lines) THEN (IF Len(st) = 0 THEN "" ELSE "unclosed-block")
    ELSE LET ln == lines[i] IN
      IF ~Structural(ln) THEN Walk(opts, lines, i + 1, st)
      ELSE IF ~IndentOK(opts, ln) THEN "indent:" \o ln.kind \o ":" \o ln.key
      ELSE IF ln.kind = "open" THEN
           (IF ln.lvl # Len(st) THEN "level:open" ELSE Walk(opts, lines, i + 1, Append(st, ln)))
      ELSE IF ln.kind = "end" THEN
           IF Len(st) = 0 THEN "end-without-open"
           ELSE LET op == st[Len(st)] IN
                IF ln.wslen # op.wslen THEN "end-indent:" \o op.key
                ELSE IF opts.end_comment /\ ln.endc # op.key THEN "end-comment-missing:" \o op.key
                ELSE IF ~opts.end_comment /\ ln.endc # "" THEN "end-comment-unexpected:" \o op.key
                ELSE Walk(opts, lines, i + 1, SubSeq(st, 1, Len(st) - 1))
      ELSE IF ln.lvl # Len(st) THEN "level:" \o ln.kind
      ELSE Walk(opts, lines, i + 1, st)

\* align_values: the simple keywords (not CONFIG) directly inside one object share one column
SimpleOf(lines, obj) == {i \in 1..Len(lines) : lines[i].kind = "attr" /\ lines[i].obj = obj /\ lines[i].key # "config"}
MaxKey(lines, S) == IF S = {} THEN 0 ELSE LET m == CHOOSE i \in S : \A j \in S : lines[i].keylen >= lines[j].keylen
                                          IN lines[m].keylen
Objects(lines) == {lines[i].obj : i \in {j \in 1..Len(lines) : lines[j].kind = "attr"}}
AlignOK(opts, lines) ==
    IF ~opts.align_values THEN ""
    ELSE IF \A ob \in Objects(lines) :
              LET S == SimpleOf(lines, ob)  col == AlignColumn(opts, MaxKey(lines, S))
              IN  \A i \in S : lines[i].valoff = col
         THEN "" ELSE "align-column"

Judge(r) ==
    LET a == IF r.badbreaks # 0 THEN "line-break-not-newlinechar" ELSE ""
        b == Walk(r.opts, r.lines, 1, <<>>)
        c == AlignOK(r.opts, r.lines)
        v == FirstOf(<<a, b, c>>)
    IN  IF v = "" THEN "ok" ELSE v

TInit == l = 0 /\ o = <<>>
TNext == /\ l < Len(Trace)
         /\ l' = l + 1
         /\ UNCHANGED o
         /\ PrintT(ToJson([tid |-> Trace[l'].tid, verdict |-> Judge(Trace[l'])]))
=============================================================================
