--------------------------- MODULE TraceRoundTrip ---------------------------
(***************************************************************************)
(* C01: parse -> print -> parse preserves content.                         *)
(* A record holds the typed projections d1 = loads(text),                  *)
(* d2 = loads(dumps(d1)) of one real execution (strings and numbers        *)
(* interned; lower[] and numstr[] relations shipped with the record).      *)
(* The verdict is TreeEq(d1, d2): same objects, keys, key order, nesting   *)
(* and values, up to the two allowances the property names, decided with   *)
(* the slot typing of the extracted vocabulary (module Vocab).             *)
(***************************************************************************)
EXTENDS TraceBase, Vocab

VARIABLE l

EnumSlot(t, k) == \E s \in Slots : s[1] = t /\ s[2] = k /\ s[3] \in {"enum", "bool", "projection"}    \* PROJECTION AUTO is an enumerated word too
StrSlot(t, k)  == \E s \in Slots : s[1] = t /\ s[2] = k /\ s[3] \in {"str", "char", "strpat"}
ExprCapable(t, k) == \E s \in Slots : s[1] = t /\ s[2] = k /\ s[3] \in {"expr", "regex", "bind"}

\* documented exclusions (docs/pretty_printing.rst; the quantifier of C01)
Excluded(a, t, k) ==
    /\ a.t = "str"
    /\ \/ a.q                                   \* contains the output quote character
       \/ (ExprCapable(t, k) /\ a.lk # "")      \* looks like an expression / regex / list / binding

Loc(t, k) == t \o "." \o k

RECURSIVE Diff(_, _, _, _, _)
RECURSIVE DiffItems(_, _, _, _, _)
RECURSIVE DiffElems(_, _, _, _, _, _)

Diff(a, b, t, k, r) ==
    IF a.t = "dict" THEN
        IF b.t # "dict" THEN "not-a-dict:" \o Loc(t, k)
        ELSE IF a.type # b.type THEN "object-type:" \o Loc(t, k)
        ELSE IF [i \in 1..Len(a.items) |-> a.items[i].k] # [i \in 1..Len(b.items) |-> b.items[i].k]
             THEN "keys:" \o a.type
        ELSE DiffItems(a.items, b.items, a.type, 1, r)
    ELSE IF a.t = "list" THEN
        IF b.t # "list" THEN "not-a-list:" \o Loc(t, k)
        ELSE IF Len(a.elems) # Len(b.elems) THEN "list-length:" \o Loc(t, k)
        ELSE DiffElems(a.elems, b.elems, t, k, 1, r)
    ELSE IF Excluded(a, t, k) THEN ""
    ELSE IF a.t = b.t /\ (IF a.t = "bool" THEN a.b = b.b ELSE IF a.t = "none" THEN TRUE ELSE a.id = b.id) THEN ""
    \* allowance 1: letter case of a bare enumerated keyword value
    ELSE IF a.t = "str" /\ b.t = "str" /\ EnumSlot(t, k) /\ r.lower[a.id] = r.lower[b.id] THEN ""
    \* allowance 2: a number becomes the equal numeric string where the schema types the keyword as a string
    ELSE IF a.t \in {"int", "float"} /\ b.t = "str" /\ StrSlot(t, k) /\ r.numstr[a.id] = b.id THEN ""
    ELSE IF a.t # b.t THEN "value-type:" \o Loc(t, k)
    ELSE "value:" \o Loc(t, k)

DiffItems(as, bs, t, i, r) ==
    IF i > Len(as) THEN ""
    ELSE LET d == Diff(as[i].v, bs[i].v, t, as[i].k, r)
         IN  IF d # "" THEN d ELSE DiffItems(as, bs, t, i + 1, r)

DiffElems(as, bs, t, k, i, r) ==
    IF i > Len(as) THEN ""
    ELSE LET d == Diff(as[i], bs[i], t, k, r)
         IN  IF d # "" THEN d ELSE DiffElems(as, bs, t, k, i + 1, r)

\* does the document contain a value of the excluded classes at all?
RECURSIVE AnyExcluded(_, _, _)
AnyExcluded(a, t, k) ==
    IF a.t = "dict" THEN \E i \in 1..Len(a.items) : AnyExcluded(a.items[i].v, a.type, a.items[i].k)
    ELSE IF a.t = "list" THEN \E i \in 1..Len(a.elems) : AnyExcluded(a.elems[i], t, k)
    ELSE Excluded(a, t, k)

RootDiff(a, b, r) ==
    IF a.t = "list" /\ b.t = "list" /\ Len(a.elems) = Len(b.elems) THEN DiffElems(a.elems, b.elems, "", "", 1, r)
    ELSE IF a.t # b.t THEN "root-shape" ELSE Diff(a, b, "", "", r)

Judge(r) ==
    IF ~r.accepted2 THEN
        (IF AnyExcluded(r.d1, "", "") THEN "skipped-excluded" ELSE "rejected")   \* "the written text is always accepted"
    ELSE LET d == RootDiff(r.d1, r.d2, r) IN
         IF d = "" THEN "ok"
         ELSE IF AnyExcluded(r.d1, "", "") /\ r.anyq THEN "skipped-excluded"   \* an unescaped quote can shift structure
         ELSE d

TInit == l = 0
TNext == /\ l < Len(Trace)
         /\ l' = l + 1
         /\ PrintT(ToJson([tid |-> Trace[l'].tid, verdict |-> Judge(Trace[l'])]))
=============================================================================
