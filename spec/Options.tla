------------------------------ MODULE Options ------------------------------
(***************************************************************************)
(* The formatter option space of C06 / C04 / C16 and the layout contract   *)
(* as functions of an option set.  TLC enumerates the full cross product   *)
(* (each option set is one initial state) and emits it for the harness.    *)
(***************************************************************************)
EXTENDS Naturals, Sequences, TLC, Json

VARIABLE o

Indents  == 0..8
Spacers  == {"SP", "TAB"}
Quotes   == {"DQ", "SQ"}
Newlines == {"LF", "CRLF", "SP"}        \* SP: one-line form, only when no comments are emitted

OptionSets == [indent : Indents, spacer : Spacers, quote : Quotes, nl : Newlines,
               end_comment : BOOLEAN, align_values : BOOLEAN, separate_complex_types : BOOLEAN]

\* --- layout contract (C16) as functions of the options -------------------
IndentLen(opts, lvl)   == lvl * opts.indent
Unit(opts)             == IF opts.indent = 0 THEN 1 ELSE opts.indent
\* first multiple of indent past the longest simple keyword of the object
AlignColumn(opts, maxkey) == ((maxkey \div Unit(opts)) + 1) * Unit(opts)

\* a space as newlinechar is only in scope when no comment is emitted (an END comment would swallow the rest)
Valid(opts) == ~(opts.nl = "SP" /\ opts.end_comment)
OInit == o \in {x \in OptionSets : Valid(x)}
ONext == UNCHANGED o
OEmit == PrintT(ToJson(o))

\* model-level facts about the contract itself
AlignPastLongest == \A m \in 0..40 : AlignColumn(o, m) > m /\ AlignColumn(o, m) - m <= Unit(o)
                                     /\ AlignColumn(o, m) % Unit(o) = 0
=============================================================================
