------------------------------ MODULE Surface ------------------------------
(***************************************************************************)
(* Surface renderings of a document (C05, C08).  A rendering chooses, for  *)
(* every token position, the separator written before it, a letter-case   *)
(* variant (applied when the token is a keyword) and a quoting variant     *)
(* (applied when the token is a quotable string).  All of these are        *)
(* *stuttering steps* of the Reader: the specification of the dictionary   *)
(* (Reader.tla) does not mention them, so every rendering of one document  *)
(* must load to the dict the Reader predicts.                              *)
(*                                                                         *)
(* Two generators: Deviations (exhaustive): the canonical rendering with   *)
(* one or two deviations at token positions 1..MaxPos; Vector (simulate):  *)
(* a random choice at each of VecLen positions, applied cyclically.        *)
(***************************************************************************)
EXTENDS Reader

CONSTANTS MaxPos, VecLen, MaxDevs

VARIABLES rend

svars == <<stack, hist, done, target, rend>>

SepKinds  == {"SP", "SP3", "TAB", "FF", "LF", "CRLF", "LFLF", "HASH", "CC", "CCML", "MIX", "CCT", "CCMLT", "HASHT",
              "CCSTAR", "CCSTARS", "CCEMPTY"}      \* C comments whose closing */ follows a run of asterisks; the empty comment
CaseKinds == {"U", "l", "M"}
QuoteKinds == {"DQ", "SQ", "BARE"}

Choice == [sep : SepKinds, cs : CaseKinds, q : QuoteKinds]
Canon  == [sep |-> "CANON", cs |-> "KEEP", q |-> "KEEP"]

\* exhaustive: the canonical rendering with one or two deviations; the descriptor is independent of the
\* document (DevInit enumerates all descriptors; the harness applies each to every context document)
Kinds == SepKinds \cup CaseKinds \cup QuoteKinds
Dev(p, k) == [pos |-> p, kind |-> k]
SingleDevs == {<<Dev(p, k)>> : p \in 1..MaxPos, k \in Kinds}
PairDevs   == {<<Dev(p1, k1), Dev(p2, k2)>> : p1 \in 1..MaxPos, p2 \in 1..MaxPos, k1 \in Kinds, k2 \in Kinds}
DevInit == /\ stack = <<>> /\ hist = <<>> /\ done = TRUE /\ target = 0
           /\ \E D \in (IF MaxDevs >= 2 THEN SingleDevs \cup {d \in PairDevs : d[1].pos < d[2].pos} ELSE SingleDevs) :
                 rend = [mode |-> "devs", devs |-> D]
DevNext == UNCHANGED svars
DevEmit == PrintT(ToJson(rend))

RandomVec ==
    /\ done /\ rend = <<>>
    /\ rend' = [mode |-> "vec",
                vec |-> [i \in 1..VecLen |-> [sep |-> RandomElement(SepKinds), cs |-> RandomElement(CaseKinds),
                                              q |-> RandomElement(QuoteKinds)]]]
    /\ UNCHANGED <<stack, hist, done, target>>

SInit == Init /\ rend = <<>>
SNext == (Build /\ UNCHANGED rend) \/ (Finish /\ UNCHANGED rend) \/ RandomVec

SEmit == rend # <<>> => PrintT(ToJson([hist |-> hist, rend |-> rend]))

\* The Reader state is untouched by rendering choices: rendering is a stuttering step of the contract
RenderingStutters == [][rend' # rend => UNCHANGED <<stack, done>> /\ hist' = hist]_svars
=============================================================================
