--------------------------- MODULE TracePositions ---------------------------
(***************************************************************************)
(* C08: recorded positions and validation error locations are exact.       *)
(* The trace is the laid-out text as a sequence of pieces (separator,      *)
(* token, separator, token, ...), each piece given only by its length, the *)
(* number of line breaks in it and the length of its last line; the cursor *)
(* machine below recomputes the 1-based (line, column) at which every      *)
(* token starts (tab = one column, LF / CRLF = next line column 1, a       *)
(* multi-line token advances the line count).  Observations taken from the *)
(* real __position__ data and from validation messages name a token and    *)
(* must carry exactly that token's coordinates; value positions must lie   *)
(* inside their value token, in source order.                              *)
(***************************************************************************)
EXTENDS TraceBase

VARIABLE l

Advance(cur, p) == IF p.nl = 0 THEN [line |-> cur.line, col |-> cur.col + p.len]
                   ELSE [line |-> cur.line + p.nl, col |-> p.tail + 1]

\* Starts(pieces): start position of every token; pieces alternate separator, token
RECURSIVE Starts(_, _, _, _)
Starts(seps, toks, i, cur) ==
    IF i > Len(toks) THEN <<>>
    ELSE LET s == Advance(cur, seps[i])
         IN  <<s>> \o Starts(seps, toks, i + 1, Advance(s, toks[i]))

Before(a, b) == a.line < b.line \/ (a.line = b.line /\ a.col <= b.col)     \* a <= b
Strictly(a, b) == a.line < b.line \/ (a.line = b.line /\ a.col < b.col)

Inside(st, toks, k, pos) ==      \* pos lies within token k
    /\ Before(st[k], pos)
    /\ Strictly(pos, Advance(st[k], toks[k]))

RECURSIVE ObsOK(_, _, _, _)
ObsOK(obs, st, toks, i) ==
    IF i > Len(obs) THEN ""
    ELSE LET o == obs[i] IN
         IF o.line # st[o.tok].line \/ o.col # st[o.tok].col THEN o.what \o ":" \o o.name
         ELSE IF \E j \in 1..Len(o.vals) : ~Inside(st, toks, o.vals[j].tok, [line |-> o.vals[j].line, col |-> o.vals[j].col])
              THEN "value-position:" \o o.name
         ELSE IF \E j \in 1..(Len(o.vals) - 1) : ~Strictly([line |-> o.vals[j].line, col |-> o.vals[j].col],
                                                            [line |-> o.vals[j + 1].line, col |-> o.vals[j + 1].col])
              THEN "value-order:" \o o.name
         ELSE ObsOK(obs, st, toks, i + 1)

Judge(r) ==
    LET st == Starts(r.seps, r.toks, 1, [line |-> 1, col |-> 1])
        v  == ObsOK(r.obs, st, r.toks, 1)
    IN  IF r.missing # "" THEN "position-missing:" \o r.missing
        ELSE IF v = "" THEN "ok" ELSE v

TInit == l = 0
TNext == /\ l < Len(Trace)
         /\ l' = l + 1
         /\ PrintT(ToJson([tid |-> Trace[l'].tid, verdict |-> Judge(Trace[l'])]))
=============================================================================
