------------------------------ MODULE TraceBase ------------------------------
(* Shared skeleton of the trace-validation specifications: one state per     *)
(* recorded execution, exactly one verdict printed per record.               *)
EXTENDS Naturals, Sequences, TLC, Json, IOUtils

Trace == ndJsonDeserialize(IOEnv.TRACE_FILE)

\* first non-empty string of a sequence of clause names ("" = no violation)
RECURSIVE FirstOf(_)
FirstOf(ss) == IF Len(ss) = 0 THEN "" ELSE IF Head(ss) # "" THEN Head(ss) ELSE FirstOf(Tail(ss))

Has(r, f) == f \in DOMAIN r
=============================================================================
