------------------------------ MODULE PlainOD ------------------------------
(***************************************************************************)
(* An ordinary insertion-ordered dictionary (Python OrderedDict with an    *)
(* optional default hook) - the reference of property C17.  It knows       *)
(* nothing about letter case: keys are opaque and compared exactly.        *)
(* spec/DictObj.tla must refine it under the key-folding map               *)
(* (PROPERTY Refines in DictObj).                                          *)
(*                                                                         *)
(* The dictionary is written functionally (head/tail recursion), on        *)
(* purpose in a different style from DictObj (positions / EXCEPT).         *)
(*                                                                         *)
(* pop  : the operation of the step, [name, k, v, hasd, pairs, kw, adopt,  *)
(*        mk]; pairs = the positional pairs of update / the constructor,   *)
(*        kw = its keyword arguments, which are applied after them         *)
(*        mk = the value the default hook produced (when it ran)           *)
(* pret : what the operation returned                                      *)
(***************************************************************************)
EXTENDS Naturals, Sequences

CONSTANTS NoneV,       \* the value None
          DfltV,       \* the default handed to get / pop when one is given
          KeyErr,      \* result "raised KeyError"
          TrueV, FalseV

VARIABLES od, fac, pop, pret

vars == <<od, fac, pop, pret>>

RECURSIVE Lookup(_, _), Assign(_, _, _), AssignAll(_, _), Without(_, _)

Has(d, k)       == \E i \in DOMAIN d : d[i][1] = k
Lookup(d, k)    == IF Head(d)[1] = k THEN Head(d)[2] ELSE Lookup(Tail(d), k)
\* assignment keeps the place of an existing key, a new key goes to the end
Assign(d, k, v) == IF d = <<>> THEN << <<k, v>> >>
                   ELSE IF Head(d)[1] = k THEN << <<k, v>> >> \o Tail(d)
                   ELSE << Head(d) >> \o Assign(Tail(d), k, v)
AssignAll(d, ps) == IF ps = <<>> THEN d ELSE AssignAll(Assign(d, Head(ps)[1], Head(ps)[2]), Tail(ps))
Without(d, k)   == IF d = <<>> THEN <<>>
                   ELSE IF Head(d)[1] = k THEN Tail(d) ELSE << Head(d) >> \o Without(Tail(d), k)
KeysOf(d)       == [i \in DOMAIN d |-> d[i][1]]

Mutators  == {"GetItem", "SetItem", "DelItem", "Contains", "Get", "Pop", "SetDefault", "Update", "Keys"}
Observers == {"Copy", "DeepCopy", "Pickle", "Construct"}

\* result of a mutator: [od |-> new dictionary, ret |-> returned value]
Result(d, f, o) ==
    CASE o.name = "GetItem" ->
            IF Has(d, o.k) THEN [od |-> d, ret |-> Lookup(d, o.k)]
            ELSE IF f = "None" THEN [od |-> d, ret |-> KeyErr]
            ELSE [od |-> Assign(d, o.k, o.mk), ret |-> o.mk]            \* default hook: stored and returned
      [] o.name = "SetItem"  -> [od |-> Assign(d, o.k, o.v), ret |-> NoneV]
      [] o.name = "DelItem"  -> IF Has(d, o.k) THEN [od |-> Without(d, o.k), ret |-> NoneV]
                                ELSE [od |-> d, ret |-> KeyErr]
      [] o.name = "Contains" -> [od |-> d, ret |-> IF Has(d, o.k) THEN TrueV ELSE FalseV]
      [] o.name = "Get"      -> [od |-> d, ret |-> IF Has(d, o.k) THEN Lookup(d, o.k)
                                                   ELSE IF o.hasd THEN DfltV ELSE NoneV]
      [] o.name = "Pop"      -> IF Has(d, o.k) THEN [od |-> Without(d, o.k), ret |-> Lookup(d, o.k)]
                                ELSE [od |-> d, ret |-> IF o.hasd THEN DfltV ELSE KeyErr]
      [] o.name = "SetDefault" ->
            IF Has(d, o.k) THEN [od |-> d, ret |-> Lookup(d, o.k)]
            ELSE LET v == IF o.hasd THEN o.v ELSE NoneV IN [od |-> Assign(d, o.k, v), ret |-> v]
      [] o.name = "Update"   -> [od |-> AssignAll(d, o.pairs \o o.kw), ret |-> NoneV]   \* positional first, then keywords
      [] o.name = "Keys"     -> [od |-> d, ret |-> [t |-> "keys", n |-> 0, ks |-> KeysOf(d)]]

Init == od = <<>> /\ fac \in {"None", "Dict"} /\ pop.name = "Init"

Next ==
    \/ /\ pop'.name \in Mutators
       /\ od'   = Result(od, fac, pop').od
       /\ pret' = Result(od, fac, pop').ret
       /\ fac'  = fac
    \/ /\ pop'.name \in {"Copy", "DeepCopy", "Pickle"}       \* the original is not touched; when the walk
       /\ KeysOf(od') = KeysOf(od)                            \* continues on the copy it has the same keys
       /\ (pop'.name = "Copy" \/ ~pop'.adopt => od' = od)
       /\ fac' = fac
    \/ /\ pop'.name = "Construct"                             \* a new dictionary built from pairs
       /\ IF pop'.adopt THEN od' = AssignAll(<<>>, pop'.pairs \o pop'.kw) ELSE od' = od /\ fac' = fac

Spec == Init /\ [][Next]_vars
=============================================================================
