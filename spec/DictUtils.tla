----------------------------- MODULE DictUtils -----------------------------
(***************************************************************************)
(* Property C18: the documented laws of mappyfile.dictutils                *)
(*   update(d1, d2, overwrite)   find / findall / findunique / findkey     *)
(*                                                                         *)
(* Values (text and numbers are interned; id order = sort order; id 0 is   *)
(* the falsy one: the empty string / the number 0; numbers are interned    *)
(* in numeric order, negative ids for negative numbers - the harness maps  *)
(* them to numbers of different digit counts, negatives and a float, whose *)
(* text order differs from their numeric order):                           *)
(*   [t |-> "str", n]  [t |-> "int", n]  [t |-> "none"]                    *)
(*   [t |-> "dict", items |-> Seq(<<key, value>>)]                         *)
(*   [t |-> "list", elems |-> Seq(value)]                                  *)
(*   [t |-> "del"]    the string "__delete__"                              *)
(*   [t |-> "deld"]   a dict carrying __delete__ : true                    *)
(*                                                                         *)
(* A *case* is one call: the arguments, the expected result and the        *)
(* expected state of the arguments afterwards.  TLC enumerates the cases   *)
(* (the initial states), checks the laws on each (M) and prints it (G).    *)
(* In "history" mode a patch is applied to the result of the previous one. *)
(*                                                                         *)
(* Not generated (unspecified): a delete marker for an absent key, a       *)
(* top-level __delete__, empty-list patches, None / delete markers beyond  *)
(* the end of the original list, a dict patch over a non-dict, keys that   *)
(* differ only in case.                                                    *)
(***************************************************************************)
EXTENDS Integers, Sequences, FiniteSets, TLC, Json

CONSTANTS
    Big,          \* FALSE: quick universes, TRUE: larger ones
    MaxMention,   \* a patch mentions at most this many top-level keys
    MaxList,      \* longest object list in d1
    OwSet,        \* overwrite flags explored
    Vary,         \* d1: at most this many of the keys name/sub/layers differ from their default form (3 = full product)
    NameOpts,     \* partition of the d1 universe between parallel runs: subset of 0..3
    FindKinds,    \* which find helpers this run enumerates: subset of {"find", "findall", "findunique", "findkey"}
    MaxHist,      \* history mode: number of patches in a row
    Bug           \* "none", or the name of a deliberately wrong variant (negative configs)

VARIABLES case, hist

vars == <<case, hist>>

S(n)   == [t |-> "str", n |-> n]
N(n)   == [t |-> "int", n |-> n]
NoneV  == [t |-> "none"]
Del    == [t |-> "del"]
DelD   == [t |-> "deld"]
D(its) == [t |-> "dict", items |-> its]
L(es)  == [t |-> "list", elems |-> es]

-----------------------------------------------------------------------------
(* insertion-ordered dicts as sequences of pairs                           *)
RECURSIVE Assign(_, _, _), Without(_, _), Lookup(_, _)
Has(d, k)       == \E i \in DOMAIN d : d[i][1] = k
Lookup(d, k)    == IF Head(d)[1] = k THEN Head(d)[2] ELSE Lookup(Tail(d), k)
Assign(d, k, v) == IF d = <<>> THEN << <<k, v>> >>
                   ELSE IF Head(d)[1] = k THEN << <<k, v>> >> \o Tail(d)
                   ELSE << Head(d) >> \o Assign(Tail(d), k, v)
Without(d, k)   == IF d = <<>> THEN <<>>
                   ELSE IF Head(d)[1] = k THEN Tail(d) ELSE << Head(d) >> \o Without(Tail(d), k)
KeysOf(d)       == [i \in DOMAIN d |-> d[i][1]]
KeySet(d)       == {d[i][1] : i \in DOMAIN d}

IsObjList(v) == v.t = "list" /\ \A e \in DOMAIN v.elems : v.elems[e].t \in {"none", "dict", "deld"}

-----------------------------------------------------------------------------
(* update: the contract, written as a fold over the patch                  *)
RECURSIVE Upd(_, _, _), UpdList(_, _, _)

Upd(d1, d2, ow) ==
    IF d2 = <<>> THEN d1
    ELSE LET k == Head(d2)[1]
             v == Head(d2)[2]
             step ==
               CASE v.t = "deld" -> Without(d1, k)                                   \* object removed
                 [] v.t = "del"  -> Without(d1, k)                                   \* key removed
                 [] v.t = "dict" ->                                                  \* nested dicts merge
                      Assign(d1, k, D(Upd(IF Has(d1, k) THEN Lookup(d1, k).items ELSE <<>>, v.items, ow)))
                 [] IsObjList(v) ->                                                  \* object lists merge by index
                      Assign(d1, k, L(UpdList(IF Has(d1, k) THEN Lookup(d1, k).elems ELSE <<>>, v.elems, ow)))
                 [] OTHER ->                                                         \* anything else replaces
                      IF (ow \/ Bug = "ignoreOverwrite") \/ ~Has(d1, k) THEN Assign(d1, k, v) ELSE d1
         IN  Upd(step, Tail(d2), ow)

UpdList(orig, new, ow) ==
    IF new = <<>> THEN orig                                                          \* the rest is untouched
    ELSE IF orig = <<>>                                                              \* extra items are appended
         THEN IF Bug = "extrasDropped" THEN <<>>
              ELSE IF Head(new).t = "dict" THEN << D(Upd(<<>>, Head(new).items, ow)) >> \o UpdList(<<>>, Tail(new), ow)
              ELSE UpdList(<<>>, Tail(new), ow)
    ELSE LET n == Head(new) IN
         CASE n.t = "none" -> (IF Bug = "noneReplaces" THEN << D(<<>>) >> ELSE << Head(orig) >>)
                              \o UpdList(Tail(orig), Tail(new), ow)                  \* None skips the index
           [] n.t = "deld" -> UpdList(Tail(orig), Tail(new), ow)                     \* the item is removed
           [] OTHER        -> << D(Upd(Head(orig).items, n.items, ow)) >> \o UpdList(Tail(orig), Tail(new), ow)

-----------------------------------------------------------------------------
(* update: the laws, stated relationally (M)                               *)
RECURSIVE Laws(_, _, _, _), ListLaws(_, _, _, _)

Deleted(d2)   == {k \in KeySet(d2) : Lookup(d2, k).t \in {"del", "deld"}}
Survivors(d1, d2) == SelectSeq(KeysOf(d1), LAMBDA k : k \notin Deleted(d2))
NewKeys(d1, d2)   == SelectSeq(KeysOf(d2), LAMBDA k : k \notin KeySet(d1) /\ k \notin Deleted(d2))

Laws(d1, d2, res, ow) ==
    /\ KeysOf(res) = Survivors(d1, d2) \o NewKeys(d1, d2)          \* deletes delete; order kept; new keys appended
    /\ \A k \in KeySet(d1) \ KeySet(d2) : Lookup(res, k) = Lookup(d1, k)            \* untouched keys untouched
    /\ \A k \in KeySet(d2) \ Deleted(d2) :
         LET v == Lookup(d2, k) IN
         CASE v.t = "dict" -> /\ Lookup(res, k).t = "dict"
                              /\ Laws(IF Has(d1, k) THEN Lookup(d1, k).items ELSE <<>>, v.items, Lookup(res, k).items, ow)
           [] IsObjList(v) -> /\ Lookup(res, k).t = "list"
                              /\ ListLaws(IF Has(d1, k) THEN Lookup(d1, k).elems ELSE <<>>, v.elems, Lookup(res, k).elems, ow)
           [] OTHER        -> Lookup(res, k) = IF ow \/ ~Has(d1, k) THEN v ELSE Lookup(d1, k)   \* ow = FALSE never replaces

\* position of original index i in the result: the items removed before it are gone
Gone(new, i)  == Cardinality({j \in 1..(i - 1) : j <= Len(new) /\ new[j].t = "deld"})
ListLaws(orig, new, res, ow) ==
    LET n    == IF Len(orig) > Len(new) THEN Len(orig) ELSE Len(new)
        dels == Cardinality({j \in DOMAIN new : new[j].t = "deld"})
    IN  /\ Len(res) = n - dels                                                       \* extras appended, deleted gone
        /\ \A i \in 1..n :
             LET j == i - Gone(new, i) IN
             IF i > Len(new) \/ new[i].t = "none" THEN res[j] = orig[i]              \* not mentioned / None: untouched
             ELSE IF new[i].t = "deld" THEN TRUE
             ELSE /\ res[j].t = "dict"
                  /\ Laws(IF i <= Len(orig) THEN orig[i].items ELSE <<>>, new[i].items, res[j].items, ow)

-----------------------------------------------------------------------------
(* find helpers                                                            *)
\* find: the key EQUALS the value (also when the value is itself a list)
MatchEq(item, key, val) == Has(item.items, key) /\ Lookup(item.items, key) = val    \* items lacking the key are skipped
\* findall: equality, or "is one of the values" when a list of values is given
MatchAny(item, key, val) ==
    /\ Has(item.items, key)
    /\ IF val.t = "list" THEN \E e \in DOMAIN val.elems : val.elems[e] = Lookup(item.items, key)
       ELSE Lookup(item.items, key) = val
HitsEq(lst, key, val) == {i \in DOMAIN lst : MatchEq(lst[i], key, val)}
Hits(lst, key, val)   == {i \in DOMAIN lst : MatchAny(lst[i], key, val)}
RECURSIVE SortedSeq(_)
SortedSeq(Sx) == IF Sx = {} THEN <<>> ELSE LET m == CHOOSE x \in Sx : \A y \in Sx : x <= y IN <<m>> \o SortedSeq(Sx \ {m})

\* results refer to list items by position (the real helper must return those very objects)
Find(lst, key, val)    == LET h == IF Bug = "findByMembership" THEN Hits(lst, key, val) ELSE HitsEq(lst, key, val) IN
                          IF h = {} THEN [t |-> "none"]
                          ELSE [t |-> "item", i |-> CHOOSE i \in h : \A j \in h : i <= j]
FindAll(lst, key, val) == [t |-> "items", idx |-> IF Bug = "findallReversed" /\ Cardinality(Hits(lst, key, val)) > 1
                                                    THEN <<0>> ELSE SortedSeq(Hits(lst, key, val))]
\* distinct values present, sorted (values are interned in sort order, so ids are compared)
FindUnique(lst, key)   ==
    LET present == {lst[i] : i \in {j \in DOMAIN lst : Has(lst[j].items, key)}}
        ids     == {Lookup(it.items, key).n : it \in present}
        ty      == IF present = {} THEN "str" ELSE Lookup((CHOOSE it \in present : TRUE).items, key).t
    IN  [t |-> "values", vals |-> [i \in DOMAIN SortedSeq(ids) |-> [t |-> ty, n |-> SortedSeq(ids)[i]]]]
RECURSIVE FindKey(_, _)
FindKey(v, path) == IF path = <<>> THEN v
                    ELSE IF Head(path).t = "key" THEN FindKey(Lookup(v.items, Head(path).k), Tail(path))
                    ELSE FindKey(v.elems[Head(path).i], Tail(path))

-----------------------------------------------------------------------------
(* universes                                                               *)
Opt(k, Vals) == {<<>>} \cup {<< <<k, v>> >> : v \in Vals}
ScalarList   == L(<<N(1), N(2)>>)

LeafDicts      == {a \o b : a \in Opt("name", {S(1), S(2), S(0)}), b \in Opt("x", {N(1), ScalarList, N(0), NoneV})}
Falsy          == {S(0), N(0), NoneV}                                \* '' 0 None: present, but falsy
LeafDictsSmall == {<<>>, << <<"name", S(1)>> >>, << <<"name", S(2)>>, <<"x", N(1)>> >>, << <<"name", S(0)>>, <<"x", N(0)>> >>}
SubDicts       == IF Big THEN LeafDicts ELSE LeafDictsSmall \cup {<< <<"x", N(1)>> >>}
ListItems      == IF Big THEN LeafDictsSmall \cup {<< <<"x", ScalarList>> >>} ELSE LeafDictsSmall \ {<<>>}

RECURSIVE SeqsUpTo(_, _)
SeqsOf(Sx, n)   == [1..n -> Sx]
SeqsUpTo(Sx, n) == IF n = 0 THEN {<<>>} ELSE SeqsOf(Sx, n) \cup SeqsUpTo(Sx, n - 1)

NameValsAll == <<{}, {S(1)}, {ScalarList}, Falsy>>                 \* absent | a scalar | a list of scalars | falsy
\* the default form of a key; the update laws are stated key by key, so the quick universes vary one or
\* two keys of d1 at a time and keep the others in this form (Vary = 3: the full product)
DefaultOf(k) == CASE k = "name" -> S(1) [] k = "sub" -> D(<< <<"name", S(1)>> >>) [] OTHER -> L(<<D(<< <<"name", S(1)>> >>)>>)
Varied(d)    == Cardinality({k \in {"name", "sub", "layers"} : ~Has(d, k) \/ Lookup(d, k) # DefaultOf(k)})
D1Full == {a \o b \o c :
          a \in UNION {IF NameValsAll[i + 1] = {} THEN {<<>>} ELSE Opt("name", NameValsAll[i + 1]) \ {<<>>} : i \in NameOpts},
          b \in Opt("sub", {D(x) : x \in SubDicts}),
          c \in Opt("layers", {L([i \in DOMAIN s |-> D(s[i])]) : s \in SeqsUpTo(ListItems, MaxList) \ {<<>>}})}

D1 == {d \in D1Full : Varied(d) <= Vary}

\* patches that stay inside the specified behaviour
KeyPatch(d, k, news) == {<<>>} \cup {<< <<k, v>> >> : v \in news} \cup (IF Has(d, k) THEN {<< <<k, Del>> >>} ELSE {})
LeafPatches(d, big) ==
    IF big THEN {a \o b \o c : a \in KeyPatch(d, "name", {S(3)}), b \in KeyPatch(d, "x", {N(2), L(<<N(2)>>)}), c \in Opt("z", {S(1)})}
    ELSE {a \o c : a \in KeyPatch(d, "name", {S(3)}), c \in Opt("z", {S(1)})}
IdxOpts(item) == {NoneV, DelD} \cup {D(p) : p \in LeafPatches(item.items, FALSE)}
RECURSIVE FullListPatches(_)
FullListPatches(orig) == IF orig = <<>> THEN {<<>>}
                         ELSE {<<h>> \o t : h \in IdxOpts(Head(orig)), t \in FullListPatches(Tail(orig))}
\* items appended beyond the end of the original list: one or two, different from each other
NewA == D(<< <<"name", S(3)>> >>)
NewB == D(<< <<"name", S(2)>>, <<"z", S(1)>> >>)
Extras == {<<NewA>>, <<NewA, NewB>>, <<NewB, NewA>>}
ListPatches(orig) ==
    LET full == FullListPatches(orig)
        pre  == {SubSeq(p, 1, n) : p \in full, n \in 1..Len(orig)}                  \* shorter than the original
        ext  == IF Len(orig) < 3 THEN {p \o x : p \in full, x \in Extras} ELSE {}     \* extra items (lists stay short)
    IN  (pre \cup ext) \ {<<>>}

NamePatch(d1)   == KeyPatch(d1, "name", {S(2), L(<<N(2)>>), N(0)})
SubPatch(d1)    == IF Has(d1, "sub")
                   THEN {<<>>, << <<"sub", DelD>> >>} \cup {<< <<"sub", D(p)>> >> : p \in LeafPatches(Lookup(d1, "sub").items, Big)}
                   ELSE {<<>>} \cup {<< <<"sub", D(x)>> >> : x \in {<<>>, << <<"name", S(1)>> >>}}
LayersPatch(d1) == IF Has(d1, "layers")
                   THEN {<<>>} \cup {<< <<"layers", L(p)>> >> : p \in ListPatches(Lookup(d1, "layers").elems)}
                   ELSE {<<>>} \cup {<< <<"layers", L(x)>> >> : x \in Extras}              \* a new object list
\* "zz" is a key d1 does not have at first; in history mode it may exist: then only patches of its own shape
ZPatch(d1)      == IF ~Has(d1, "zz")
                   THEN Opt("zz", {S(1), D(<< <<"name", S(1)>> >>), L(<<D(<< <<"name", S(1)>> >>)>>), L(<<NewA, NewB>>), L(<<N(1)>>),
                                   \* a new object that itself holds an object and a list of objects
                                   D(<< <<"name", S(1)>>, <<"sub", D(<< <<"x", N(0)>> >>)>>, <<"objs", L(<<NewA, NewB>>)>> >>)})
                   ELSE LET z == Lookup(d1, "zz") IN
                        {<<>>, << <<"zz", Del>> >>} \cup
                        {<< <<"zz", v>> >> : v \in
                            CASE z.t = "dict" -> {D(p) : p \in LeafPatches(z.items, FALSE)}
                              [] IsObjList(z)  -> {L(p) : p \in ListPatches(z.elems)}
                              [] OTHER         -> {S(2), L(<<N(2)>>)}}
Reverse(s)      == [i \in DOMAIN s |-> s[Len(s) + 1 - i]]
\* all ways to mention at most m of the keys (each part is a set of zero- or one-entry patches), in key order
RECURSIVE Combine(_, _)
Combine(parts, m) ==
    IF parts = <<>> THEN {<<>>}
    ELSE Combine(Tail(parts), m) \cup
         (IF m = 0 THEN {} ELSE {a \o r : a \in Head(parts) \ {<<>>}, r \in Combine(Tail(parts), m - 1)})
Patches(d1) ==
    LET fwd == Combine(<<NamePatch(d1), SubPatch(d1), LayersPatch(d1), ZPatch(d1)>>, MaxMention) \ {<<>>}
    IN  IF Big THEN fwd \cup {Reverse(p) : p \in fwd} ELSE fwd

\* A patch that brings a NEW key holding an object (or a list of objects) is followed by a second patch that
\* speaks about that very object: the second call may change its d1 only - in particular not the first
\* patch, which is no argument of the second call (the result must not share objects with the patch).
NewObjectKeys(d1, d2) == SelectSeq(KeysOf(d2), LAMBDA k : k \notin KeySet(d1) /\
                                       (Lookup(d2, k).t = "dict" \/ (IsObjList(Lookup(d2, k)) /\ Lookup(d2, k).elems # <<>>)))
FollowUp(d1, d2) ==
    IF NewObjectKeys(d1, d2) = <<>> THEN <<>>
    ELSE LET k == Head(NewObjectKeys(d1, d2))
             p == D(<< <<"fz", S(2)>> >>)
         IN  << <<k, IF Lookup(d2, k).t = "dict" THEN p ELSE L(<<p>>)>> >>
UpdateCase(d1, d2, ow) ==
    LET res == Upd(d1, d2, ow)
        fu  == FollowUp(d1, d2)
    IN  [kind |-> "update", d1 |-> D(d1), d2 |-> D(d2), ow |-> ow, res |-> D(res),
         then |-> IF fu = <<>> THEN [t |-> "none"] ELSE [t |-> "update", d2 |-> D(fu), res |-> D(Upd(res, fu, TRUE))]]

\* every path into a value
RECURSIVE Paths(_)
Paths(v) ==
    {<<>>} \cup
    (IF v.t = "dict" THEN UNION {{<<[t |-> "key", k |-> v.items[i][1]]>> \o p : p \in Paths(v.items[i][2])} : i \in DOMAIN v.items}
     ELSE IF v.t = "list" THEN UNION {{<<[t |-> "idx", i |-> i]>> \o p : p \in Paths(v.elems[i])} : i \in DOMAIN v.elems}
     ELSE {})

\* find universes
FindItems == {<<>>, << <<"name", S(1)>> >>, << <<"name", S(2)>> >>, << <<"name", S(3)>> >>, << <<"name", N(1)>> >>,
              << <<"x", N(1)>> >>, << <<"x", N(2)>>, <<"name", S(1)>> >>,
              << <<"name", L(<<S(1), S(3)>>)>> >>,                       \* a list-valued keyword
              << <<"name", N(0)>> >>, << <<"name", S(0)>> >>}            \* falsy values
\* the longest lists are built from a core of five items: lacking the key, two holders of the same text, a
\* list-valued keyword, a falsy value
FindCore  == {<<>>, << <<"name", S(1)>> >>, << <<"x", N(2)>>, <<"name", S(1)>> >>, << <<"name", L(<<S(1), S(3)>>)>> >>,
              << <<"name", N(0)>> >>}
FindLists == {[i \in DOMAIN s |-> D(s[i])] :
                 s \in IF Big THEN SeqsUpTo(FindItems, 3) \cup SeqsOf(FindItems \ {<< <<"x", N(1)>> >>, << <<"name", S(3)>> >>}, 4)
                             ELSE SeqsUpTo(FindItems, 3)}
FindVals  == {S(0), S(1), S(2), S(3), N(0), N(1), N(2)}
FindValLists == {L(<<S(1), S(3)>>), L(<<S(2)>>), L(<<N(1), S(1)>>)}
KeyTypes(lst, key) == {Lookup(lst[i].items, key).t : i \in {j \in DOMAIN lst : Has(lst[j].items, key)}}
Homogeneous(lst, key) == Cardinality(KeyTypes(lst, key)) <= 1 /\ KeyTypes(lst, key) \subseteq {"str", "int"}
\* findunique is also run over numeric keywords: negative numbers, zero, a fraction, numbers of 2, 3, 4, 5 digits
NumItems == {<<>>} \cup {<< <<"name", N(i)>> >> : i \in {-2, -1, 0, 3, 4, 5, 6, 7}}
NumLists == {[i \in DOMAIN s |-> D(s[i])] : s \in SeqsUpTo(NumItems, 3)}
\* findkey on plain dictionaries whose keys are not all lower case, with sibling keys that differ only in case:
\* the element stored under exactly the key given in the path
CaseDoc ==
    D(<< <<"layers", L(<<D(<< <<"name", S(1)>>, <<"Meta", D(<< <<"Title", S(1)>>, <<"title", S(2)>> >>)>> >>),
                         D(<< <<"NAME", S(3)>>, <<"name", S(2)>> >>)>>)>>,
         <<"WMS_SRS", S(3)>>, <<"wms_srs", S(1)>>,
         <<"Web", D(<< <<"metadata", D(<< <<"Wms_Title", S(2)>> >>)>> >>)>> >>)
\* the key is also given in upper case (short lists only, to keep the product small)
KeyCases(l) == IF Len(l) <= 2 THEN {"l", "U"} ELSE {"l"}
\* the find cases, as a predicate on `case` (nested quantifiers, see UInit)
FindCase(kind) ==
    IF kind = "findkey" THEN
        \* kc = "U": the keys of the path are given in upper case, which a Mapfile dict resolves (C17) - a plain
        \* dict does not, so those cases are for Mapfile dicts only; CaseDoc is for plain dicts only
        \/ \E d \in D1 : \E p \in Paths(D(d)) : \E kc \in {"l", "U"} :
              case = [kind |-> "findkey", d |-> D(d), path |-> p, kc |-> kc, only |-> IF kc = "U" THEN "mapfile" ELSE "both",
                      res |-> FindKey(D(d), p)]
        \/ \E p \in Paths(CaseDoc) :
              case = [kind |-> "findkey", d |-> CaseDoc, path |-> p, kc |-> "l", only |-> "plain", res |-> FindKey(CaseDoc, p)]
    ELSE \E l \in FindLists \cup (IF kind = "findunique" THEN NumLists ELSE {}) : \E kc \in KeyCases(l) :
        CASE kind = "find" ->                  \* equality, also with a list-valued search value
               \E v \in FindVals \cup FindValLists :
                  case = [kind |-> "find", lst |-> L(l), key |-> "name", kc |-> kc, val |-> v, res |-> Find(l, "name", v)]
          [] kind = "findall" ->               \* a list of values means "one of"; whether a list-valued keyword can equal
                                               \* a list of values is not specified: that combination is not generated
               \E v \in FindVals \cup (IF "list" \in KeyTypes(l, "name") THEN {} ELSE FindValLists) :
                  case = [kind |-> "findall", lst |-> L(l), key |-> "name", kc |-> kc, val |-> v, res |-> FindAll(l, "name", v)]
          [] OTHER ->
               /\ Homogeneous(l, "name")
               /\ case = [kind |-> "findunique", lst |-> L(l), key |-> "name", kc |-> kc, res |-> FindUnique(l, "name")]

-----------------------------------------------------------------------------
(* the machines                                                            *)
\* (nested quantifiers: TLC enumerates them in linear time, whereas a UNION of many small sets is normalised
\* in quadratic time; the find case sets take a dummy argument because TLC evaluates zero-argument constant
\* definitions eagerly in every run, whether the run uses them or not)
UInit == /\ \E d1 \in D1 : \E d2 \in Patches(d1) : \E ow \in OwSet : case = UpdateCase(d1, d2, ow)
         /\ hist = <<>>
FInit == (\E k \in FindKinds : FindCase(k)) /\ hist = <<>>
Stay  == UNCHANGED vars

\* history mode: the next patch is applied to the result of the previous one
HInit == /\ \E d1 \in D1 : case = [kind |-> "start", res |-> D(d1)]
         /\ hist = <<>>
HNext == /\ Len(hist) < MaxHist
         /\ LET d1 == case.res.items
                \* (one random choice per top-level key instead of the whole product of patches)
                p  == RandomElement(NamePatch(d1)) \o RandomElement(SubPatch(d1)) \o RandomElement(LayersPatch(d1))
                      \o RandomElement(ZPatch(d1))
                q  == IF p = <<>> THEN RandomElement(ZPatch(d1) \ {<<>>}) ELSE p
                d2 == IF RandomElement(BOOLEAN) THEN q ELSE Reverse(q)
                ow == RandomElement(OwSet)
            IN  /\ case' = UpdateCase(d1, d2, ow)
                /\ hist' = Append(hist, case')

-----------------------------------------------------------------------------
(* (M) laws, (G) emission                                                  *)
UpdateLaws == case.kind = "update" =>
                  /\ Laws(case.d1.items, case.d2.items, case.res.items, case.ow)
                  /\ (case.then.t = "update" => Laws(case.res.items, case.then.d2.items, case.then.res.items, TRUE))

FindLaws ==
    /\ case.kind \in {"find", "findall"} =>
         LET l == case.lst.elems
             h == IF case.kind = "find" THEN HitsEq(l, case.key, case.val) ELSE Hits(l, case.key, case.val)
         IN
         /\ (case.kind = "find" => IF h = {} THEN case.res.t = "none"
                                   ELSE case.res.t = "item" /\ case.res.i \in h /\ \A j \in h : case.res.i <= j)
         /\ (case.kind = "findall" =>
               /\ {case.res.idx[i] : i \in DOMAIN case.res.idx} = h                       \* exactly the matching items
               /\ \A i, j \in DOMAIN case.res.idx : i < j => case.res.idx[i] < case.res.idx[j])   \* in list order
         /\ (case.val.t # "list" /\ case.kind = "findall" /\ h # {} =>
               Find(l, case.key, case.val).i = FindAll(l, case.key, case.val).idx[1])
    /\ case.kind = "findunique" =>
         LET vs == case.res.vals IN
         /\ \A i, j \in DOMAIN vs : i < j => vs[i].n < vs[j].n                            \* sorted, distinct
         /\ {vs[i] : i \in DOMAIN vs} = {Lookup(case.lst.elems[i].items, case.key) :
                                           i \in {j \in DOMAIN case.lst.elems : Has(case.lst.elems[j].items, case.key)}}
    /\ case.kind = "findkey" =>
         /\ (case.path = <<>> => case.res = case.d)
         /\ (case.path # <<>> =>
               LET front == SubSeq(case.path, 1, Len(case.path) - 1)
                   last  == case.path[Len(case.path)]
                   par   == FindKey(case.d, front)
               IN  case.res = IF last.t = "key" THEN Lookup(par.items, last.k) ELSE par.elems[last.i])

Emit     == PrintT(ToJson(case))
EmitHist == Len(hist) = MaxHist => PrintT(ToJson(hist))
=============================================================================
