------------------------------ MODULE Numbers ------------------------------
(***************************************************************************)
(* Number lexemes (C02 "numbers are int or float by value", C01, C03):     *)
(* which bare lexemes the grammar reads as a number, and of which kind.    *)
(*                                                                         *)
(*   SIGNED_INT   : [+-]? DIGIT+                                            *)
(*   SIGNED_FLOAT : [+-]? ( DIGIT+ "." DIGIT* EXP? | "." DIGIT+ EXP?        *)
(*                        | DIGIT+ EXP )          EXP : [eE] [+-]? DIGIT+    *)
(*                                                                         *)
(* Lexemes are sequences over an alphabet that has every character class   *)
(* of these rules (three digits incl. 0, both signs, the dot, e and E).    *)
(* TLC classifies every sequence up to MaxLen, checks the laws below and   *)
(* emits the number lexemes with their kind; the harness places each one   *)
(* in every kind of numeric slot of a real document (C02: the loaded value *)
(* is a Python int / float - exactly the kind the model says - equal to    *)
(* the lexeme's value; C01: the value and its kind survive the round trip).*)
(***************************************************************************)
EXTENDS Naturals, Sequences, FiniteSets, TLC, Json

CONSTANT MaxLen

Digits == {"0", "1", "9"}
Signs  == {"+", "-"}
Sym    == Digits \cup Signs \cup {".", "e", "E"}
SeqsUpTo(S, n) == UNION {[1..k -> S] : k \in 0..n}

AllDigits(s) == Len(s) >= 1 /\ \A i \in 1..Len(s) : s[i] \in Digits
Unsigned(s)  == IF Len(s) > 0 /\ s[1] \in Signs THEN Tail(s) ELSE s
Sub(s, a, b) == SubSeq(s, a, b)

IsInt(s) == AllDigits(Unsigned(s))
Exp(s)   == Len(s) >= 2 /\ s[1] \in {"e", "E"} /\ IsInt(Tail(s))
\* DIGIT* EXP?   (what may follow the dot after an integer part)
FracOpt(r) == \/ r = <<>> \/ AllDigits(r) \/ Exp(r)
              \/ \E m \in 1..(Len(r) - 1) : AllDigits(Sub(r, 1, m)) /\ Exp(Sub(r, m + 1, Len(r)))
\* DIGIT+ EXP?   (what must follow a leading dot)
FracReq(r) == \/ AllDigits(r)
              \/ \E m \in 1..(Len(r) - 1) : AllDigits(Sub(r, 1, m)) /\ Exp(Sub(r, m + 1, Len(r)))

IsFloatU(u) ==
    \/ \E k \in 1..Len(u) : u[k] = "." /\
         LET a == Sub(u, 1, k - 1)  r == Sub(u, k + 1, Len(u)) IN
         \/ (AllDigits(a) /\ FracOpt(r))
         \/ (a = <<>> /\ FracReq(r))
    \/ \E m \in 1..(Len(u) - 1) : AllDigits(Sub(u, 1, m)) /\ Exp(Sub(u, m + 1, Len(u)))
IsFloat(s) == IsFloatU(Unsigned(s))

Kind(s) == IF IsInt(s) THEN "int" ELSE IF IsFloat(s) THEN "float" ELSE "none"

-----------------------------------------------------------------------------
VARIABLES s, phase
Init == s \in SeqsUpTo(Sym, MaxLen) /\ phase = "new"
Next == phase = "new" /\ phase' = "done" /\ UNCHANGED s

\* laws of the classification (non-vacuity of the enumeration is visible in the emitted counts)
Disjoint      == ~(IsInt(s) /\ IsFloat(s))
SignInvariant == (s # <<>> /\ s[1] \notin Signs) => \A g \in Signs : Kind(<<g>> \o s) = Kind(s)
OneSignOnly   == (Len(s) >= 2 /\ s[1] \in Signs /\ s[2] \in Signs) => Kind(s) = "none"
IntHasNoMark  == IsInt(s) => \A i \in 1..Len(s) : s[i] \notin {".", "e", "E"}
FloatHasMark  == IsFloat(s) => \E i \in 1..Len(s) : s[i] \in {".", "e", "E"}

Emit == (phase = "done" /\ Kind(s) # "none") => PrintT(ToJson([s |-> s, kind |-> Kind(s)]))
=============================================================================
