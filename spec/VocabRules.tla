----------------------------- MODULE VocabRules -----------------------------
(***************************************************************************)
(* C19, part 1: the relations that must hold between the four hand-        *)
(* maintained descriptions of the Mapfile vocabulary - the grammar's block *)
(* type list, the keyword tables of tokens.py / parser.py, the printer's   *)
(* tables and the JSON schemas.  The constants are extracted from the      *)
(* current tree into module Vocab on every run; TLC evaluates each rule    *)
(* and emits the offending elements.                                       *)
(***************************************************************************)
EXTENDS Naturals, Sequences, FiniteSets, TLC, Json, Vocab

VARIABLE x

KV == {"metadata", "validation", "values", "connectionoptions"}
PluralOf(t) == IF t = "class" THEN "classes" ELSE t \o "s"

\* R1 every block type the grammar can open has a schema (and SYMBOLSET files too)
R1_NoSchema == {t \in GrammarBlockTypes : t \notin SchemaTypes}
\* R2 every object schema is a block type the grammar can open (or the SYMBOLSET file type)
R2_NoGrammar == {t \in SchemaTypes : t \notin GrammarBlockTypes /\ t # "symbolset"}
\* R3 block-type literals are case-insensitive in the grammar
R3_CaseSensitive == {t \in GrammarBlockTypes : t \notin GrammarBlockCI}
\* R4 a nested single object in a parent schema is a singleton for the transformer, under its own name
R4_SingleNotSingleton == {c \in ChildSingle : c[3] \notin KV /\ (c[3] \notin Singletons \/ c[2] # c[3])}
\* R5 a list of objects in a parent schema is stored under the plural key of a non-singleton type,
\*    and that key is one the auto-creating dict / the printer treat as an object list
R5_ListNotPlural == {c \in ChildList : c[3] \in Singletons \/ c[2] # PluralOf(c[3]) \/ c[2] \notin ObjectListKeys}
\* R6 every object-list key is the plural of a block type
R6_OrphanListKey == {k \in ObjectListKeys : ~\E t \in GrammarBlockTypes : PluralOf(t) = k}
\* R7 key-value block types are singletons; the grammar knows them
R7_KV == {k \in KV : k \notin Singletons \/ k \notin GrammarKVTypes}
\* R8 every block type is known to the printer (COMPLEX_TYPES) and singleton tables only name real things
R8_NotComplex == {t \in GrammarBlockTypes \cup KV \cup {"projection", "points", "pattern"} : t \notin ComplexTypes}
R8_SingletonUnknown == {s \in Singletons : s \notin GrammarBlockTypes \cup KV \cup {"projection", "pattern"}}
\* R9 repeated keywords are array-of-string slots in every schema that has them, and vice versa
R9_RepeatedNotArray == {s \in Slots : s[2] \in RepeatedKeys /\ s[3] # "repeated"}
R9_ArrayNotRepeated == {s \in Slots : s[3] = "repeated" /\ s[2] \notin RepeatedKeys}
\* R10 every keyword of the SYMBOL schema can start a SYMBOL block (parser.py SYMBOL_ATTRIBUTES)
R10_SymbolFirst == {s[2] : s \in {y \in Slots : y[1] = "symbol"}} \ SymbolAttributes
\* R11 every block type passes the printer's type assertion (COMPOSITE_NAMES or SINGLETON_COMPOSITE_NAMES)
R11_UnknownWord == {t \in GrammarBlockTypes \cup {"symbolset"} : t \notin CompositeNames \cup Singletons}
\* R12 required keywords exist
R12_Required == {r \in Required : ~\E s \in Slots : s[1] = r[1] /\ s[2] = r[2]}

\* R13 every keyword a schema allows is enumerable (a general patternProperties regex cannot be probed keyword by keyword)
R13_PatternKeyword == PatternUnexpanded

Report == [R13_PatternKeyword |-> R13_PatternKeyword, R1_NoSchema |-> R1_NoSchema, R2_NoGrammar |-> R2_NoGrammar, R3_CaseSensitive |-> R3_CaseSensitive,
           R4_SingleNotSingleton |-> R4_SingleNotSingleton, R5_ListNotPlural |-> R5_ListNotPlural,
           R6_OrphanListKey |-> R6_OrphanListKey, R7_KV |-> R7_KV, R8_NotComplex |-> R8_NotComplex,
           R8_SingletonUnknown |-> R8_SingletonUnknown, R9_RepeatedNotArray |-> R9_RepeatedNotArray,
           R9_ArrayNotRepeated |-> R9_ArrayNotRepeated, R10_SymbolFirst |-> R10_SymbolFirst,
           R11_UnknownWord |-> R11_UnknownWord, R12_Required |-> R12_Required]

VInit == x = 0 /\ PrintT(ToJson(Report))
VNext == UNCHANGED x
=============================================================================
