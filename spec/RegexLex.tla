------------------------------ MODULE RegexLex ------------------------------
(***************************************************************************)
(* Regular-expression lexemes (C02, C01, C05): the text  / body / [i]  is  *)
(* one value lexeme, stored verbatim (delimiters and flag included), when  *)
(* the body holds no "/" and no line break - unless the same text is a     *)
(* complete C comment  / * ... * /  (body of length >= 2 that starts and   *)
(* ends with "*"), which is a separator and no value at all.  Inside a     *)
(* regex neither "#" nor a quote nor a blank has any meaning of its own:   *)
(* the lexeme ends at the first "/" after the opening one.                 *)
(* Bodies are drawn from an alphabet with a letter, a blank, "*", "#" and  *)
(* a single quote; the flag is absent or "i".                              *)
(***************************************************************************)
EXTENDS Naturals, Sequences, FiniteSets, TLC, Json

CONSTANTS MaxLen      \* every body over Sym up to this length
Sym == {"a", " ", "*", "#", "'"}
SeqsUpTo(S, n) == UNION {[1..k -> S] : k \in 0..n}

IsComment(b) == Len(b) >= 2 /\ b[1] = "*" /\ b[Len(b)] = "*"
\* the stored value, as a sequence of characters
Stored(b, f) == <<"/">> \o b \o <<"/">> \o (IF f THEN <<"i">> ELSE <<>>)

VARIABLES b, f, phase
Init == b \in SeqsUpTo(Sym, MaxLen) /\ f \in BOOLEAN /\ phase = "new"
Next == phase = "new" /\ phase' = "done" /\ UNCHANGED <<b, f>>

\* laws: the stored form is the source text; exactly two "/" in it; a one-star body is a regex, never a comment
Delims(s) == Cardinality({i \in 1..Len(s) : s[i] = "/"})
TwoDelims     == Delims(Stored(b, f)) = 2
LenLaw        == Len(Stored(b, f)) = Len(b) + 2 + (IF f THEN 1 ELSE 0)
ShortNoComment == Len(b) < 2 => ~IsComment(b)
CommentNeedsStars == IsComment(b) => Cardinality({i \in 1..Len(b) : b[i] = "*"}) >= 2
Emit == phase = "done" => PrintT(ToJson([b |-> b, flag |-> f, comment |-> IsComment(b), stored |-> Stored(b, f)]))
=============================================================================
