----------------------------- MODULE SlotProbe -----------------------------
(***************************************************************************)
(* The finite product "block type x keyword slot x value alternative x     *)
(* position in the block" (C19, and the slot part of C01/C02/C03): one     *)
(* minimal document per point of the product, built with the Reader's own  *)
(* actions so that each comes with the dict the contract predicts.         *)
(* The neighbours are neutral simple keywords of the same block's schema.  *)
(***************************************************************************)
EXTENDS Reader

VARIABLES plan, info

pvars == <<stack, hist, done, target, plan, info>>

Positions == {"first", "middle", "last", "alone"}

SimpleNeutral(t, k) == {s \in SlotsBy[t] : s[2] # k /\ s[3] \in {"str", "int", "float", "enum", "numlist2", "numlist3", "numlist4"} /\ s[2] \notin RepeatedKeys}
NeutralAct(s, i) == [a |-> "attr", key |-> s[2], kc |-> "U", val |-> CHOOSE v \in ValuesOf(s) : TRUE, post |-> <<>>]

\* the builder actions that write slot s with value choice v
SlotActs(s, v) ==
    LET sh == s[3] IN
    CASE sh \in ScalarShapes \cup ListShapes -> << [a |-> "attr", key |-> s[2], kc |-> "U", val |-> v, post |-> <<>>] >>
      [] sh = "repeated" -> << [a |-> "repeated", key |-> s[2], kc |-> "U", val |-> [sh |-> "str", id |-> 1], post |-> <<>>],
                               [a |-> "repeated", key |-> s[2], kc |-> "l", val |-> [sh |-> "str", id |-> 2], post |-> <<>>] >>
      [] sh = "kv" -> << [a |-> "kv", type |-> s[4], kc |-> "U",
                          pairs |-> << <<[sh |-> "kvkey", id |-> 1, n |-> 1], [sh |-> "str", id |-> 1]>>,
                                       <<[sh |-> "kvkey", id |-> 2, n |-> 2], [sh |-> "str", id |-> 2]>> >>, post |-> <<>>] >>
      [] sh = "config" -> << [a |-> "config", kc |-> "U", k |-> [sh |-> "cfgkey", id |-> 1], v |-> [sh |-> "str", id |-> 1], post |-> <<>>] >>
      [] sh = "projection" -> << [a |-> "projection", kc |-> "U", auto |-> v.auto, cs |-> "U",
                                  strs |-> IF v.one THEN <<[sh |-> "str", id |-> 1]>>        \* a single definition string
                                           ELSE <<[sh |-> "str", id |-> 1], [sh |-> "str", id |-> 2]>>, post |-> <<>>] >>
      [] sh \in {"points", "pointslist"} ->
            << [a |-> IF s[2] = "pattern" THEN "pattern" ELSE "points", kc |-> "U",
                pairs |-> << <<Num("int", 1), Num("float", 2)>>, <<Num("float", 3), Num("int", 4)>> >>, post |-> <<>>] >>
      [] sh \in {"block", "blocklist"} -> << [a |-> "open", type |-> s[4], kc |-> "U", post |-> <<>>],
                                             [a |-> "end", kc |-> "U", post |-> <<>>] >>

ProbeValues(s) ==
    IF s[3] \in ScalarShapes \cup ListShapes THEN ValuesOf(s)
    ELSE IF s[3] = "projection" THEN {[auto |-> TRUE, one |-> FALSE], [auto |-> FALSE, one |-> FALSE], [auto |-> FALSE, one |-> TRUE]}
    ELSE {[none |-> TRUE]}

\* shapes the builder knows how to write; a schema construct the extractor cannot classify ("any", "array?") is
\* reported by the harness, not probed
KnownShapes == ScalarShapes \cup ListShapes \cup {"repeated", "kv", "config", "projection", "points", "pointslist", "block", "blocklist"}
ProbeSlots == {s \in Slots : s[3] \in KnownShapes /\ ~(s[2] = "symbol" /\ s[4] = "symbol" /\ s[3] = "block")}

PlanFor(s, v, p) ==
    LET ns == SimpleNeutral(s[1], s[2])
        n1 == IF ns = {} THEN <<>> ELSE <<NeutralAct(CHOOSE x \in ns : TRUE, 1)>>
        n2 == IF ns = {} THEN <<>> ELSE <<NeutralAct(CHOOSE x \in ns : \A y \in ns : y = x \/ x # (CHOOSE z \in ns : TRUE), 2)>>
        me == SlotActs(s, v)
    IN  CASE p = "alone"  -> me
          [] p = "first"  -> me \o n1
          [] p = "last"   -> n1 \o me
          [] p = "middle" -> n1 \o me \o n2

\* position "aftercomplex": the keyword is the first simple keyword of its block but follows a block-valued item
\* (one representative per complex shape the block type has) - the order separate_complex_types undoes
WithComplex == FALSE          \* (cfg: CONSTANT WithComplex <- Yes)
Yes == TRUE
ComplexShapes == {"kv", "projection", "points", "pointslist", "block", "blocklist"}
ComplexSlots(t) == {c \in SlotsBy[t] : c[3] \in ComplexShapes /\ ~(c[2] = "symbol" /\ c[4] = "symbol")}
ComplexReps(t) == {c \in ComplexSlots(t) : c = CHOOSE x \in ComplexSlots(t) : x[3] = c[3]}
ComplexValue(c) == CHOOSE v \in ProbeValues(c) : TRUE
OneValue(s) == IF s[3] \in {"enum", "bool"} THEN {CHOOSE v \in ProbeValues(s) : v.cs = "U"} ELSE ProbeValues(s)

PInit ==
    /\ \/ \E s \in ProbeSlots : \E v \in ProbeValues(s), p \in Positions :
            /\ stack = <<[type |-> s[1], d |-> <<>>]>>
            /\ plan = PlanFor(s, v, p)
            /\ info = [slot |-> s, pos |-> p]
       \/ /\ WithComplex
          /\ \E s \in ProbeSlots : s[3] \in ScalarShapes \cup ListShapes /\
               \E v \in OneValue(s), c \in ComplexReps(s[1]) :
                 /\ stack = <<[type |-> s[1], d |-> <<>>]>>
                 /\ plan = SlotActs(c, ComplexValue(c)) \o SlotActs(s, v)
                 /\ info = [slot |-> s, pos |-> "aftercomplex", after |-> c]
    /\ hist = <<>>
    /\ done = FALSE
    /\ target = 0

ApplyAct(act) ==
    IF act.a = "open" THEN
        LET newstack == Append(stack, [type |-> act.type, d |-> <<>>])
        IN  stack' = newstack /\ Record(act, newstack)
    ELSE IF act.a = "end" THEN
        LET n == Len(stack)
            parent == [stack[n - 1] EXCEPT !.d = PutBlock(@, Top.type, Top.d)]
            newstack == Append(SubSeq(stack, 1, n - 2), parent)
        IN  stack' = newstack /\ Record(act, newstack)
    ELSE Apply(act)

PStep ==
    /\ ~done
    /\ Len(plan) > 0
    /\ ApplyAct(Head(plan))
    /\ plan' = Tail(plan)
    /\ UNCHANGED <<done, target, info>>

PFinish ==
    /\ ~done
    /\ Len(plan) = 0
    /\ done' = TRUE
    /\ hist' = Append(hist, [a |-> "finish", post |-> CloseAll(stack), info |-> info])
    /\ UNCHANGED <<stack, target, plan, info>>

PNext == PStep \/ PFinish

PEmit == done => PrintT(ToJson(hist))
=============================================================================
