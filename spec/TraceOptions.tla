---------------------------- MODULE TraceOptions ----------------------------
(***************************************************************************)
(* C06: formatting options never change content.  A record holds the typed *)
(* projection of loads(dumps(d, default options)) and of                   *)
(* loads(dumps(d, options)).  They must be equal; under                    *)
(* separate_complex_types the keys of each object may only be the stable   *)
(* partition (simple keys, then block-valued keys) of the default order.   *)
(* C04 (idempotence / determinism) is judged on the same records.          *)
(***************************************************************************)
EXTENDS TraceBase

VARIABLE l

Leaf(a, b) == a.t = b.t /\ (IF a.t = "bool" THEN a.b = b.b ELSE IF a.t = "none" THEN TRUE ELSE a.id = b.id)

BlockValued(it) ==
    \/ (it.v.t = "dict" /\ it.k # "config")
    \/ (it.v.t = "list" /\ Len(it.v.elems) > 0 /\ it.v.elems[1].t = "dict")
    \/ it.k \in {"projection", "points", "pattern"}

StablePartition(items) == SelectSeq(items, LAMBDA it : ~BlockValued(it)) \o SelectSeq(items, BlockValued)

Keys(items) == [i \in 1..Len(items) |-> items[i].k]

RECURSIVE Eq(_, _, _)
RECURSIVE EqItems(_, _, _, _)
RECURSIVE EqElems(_, _, _, _)
\* sep = TRUE: b may be the stable partition of a, object by object
Eq(a, b, sep) ==
    IF a.t = "dict" THEN
        IF b.t # "dict" \/ a.type # b.type THEN "object:" \o a.type
        ELSE LET as == IF sep THEN StablePartition(a.items) ELSE a.items IN
             IF Keys(as) # Keys(b.items) THEN (IF sep THEN "not-a-stable-partition:" ELSE "keys:") \o a.type
             ELSE EqItems(as, b.items, 1, sep)
    ELSE IF a.t = "list" THEN
        IF b.t # "list" \/ Len(a.elems) # Len(b.elems) THEN "list"
        ELSE EqElems(a.elems, b.elems, 1, sep)
    ELSE IF Leaf(a, b) THEN "" ELSE "value"

EqItems(as, bs, i, sep) ==
    IF i > Len(as) THEN ""
    ELSE LET d == Eq(as[i].v, bs[i].v, sep) IN
         IF d # "" THEN d \o "@" \o as[i].k ELSE EqItems(as, bs, i + 1, sep)

EqElems(as, bs, i, sep) ==
    IF i > Len(as) THEN ""
    ELSE LET d == Eq(as[i], bs[i], sep) IN IF d # "" THEN d ELSE EqElems(as, bs, i + 1, sep)

RootEq(a, b, sep) ==
    IF a.t = "list" /\ b.t = "list" /\ Len(a.elems) = Len(b.elems) THEN EqElems(a.elems, b.elems, 1, sep)
    ELSE IF a.t # b.t THEN "root-shape" ELSE Eq(a, b, sep)

\* C06 ----------------------------------------------------------------------
JudgeOptions(r) ==
    IF ~r.accepted THEN "rejected"
    ELSE LET d == RootEq(r.dflt, r.opt, r.opts.separate_complex_types) IN IF d = "" THEN "ok" ELSE d

\* C04 ----------------------------------------------------------------------
\* pass1 = dumps(loads(src)), pass2 = dumps(loads(pass1)): byte-identical (digests interned by the
\* harness), loads(pass1) = loads(pass2) exactly, same dict+options -> same text, in this process
\* and in a second process with a different hash seed
JudgeIdem(r) ==
    IF ~r.accepted THEN "rejected"
    ELSE IF r.digest1 # r.digest2 THEN "second-pass-differs"
    ELSE IF RootEq(r.proj1, r.proj2, FALSE) # "" THEN "reload-differs:" \o RootEq(r.proj1, r.proj2, FALSE)
    ELSE IF r.digest_again # r.digest1 THEN "nondeterministic-same-process"
    ELSE IF r.digest_other # 0 /\ r.digest_other # r.digest1 THEN "nondeterministic-other-process"
    ELSE "ok"

Judge(r) == IF r.what = "options" THEN JudgeOptions(r) ELSE JudgeIdem(r)

TInit == l = 0
TNext == /\ l < Len(Trace)
         /\ l' = l + 1
         /\ PrintT(ToJson([tid |-> Trace[l'].tid, verdict |-> Judge(Trace[l'])]))
=============================================================================
