------------------------------ MODULE ParseLoop ------------------------------
(***************************************************************************)
(* Property C11: "any input is either parsed or rejected with a parse      *)
(* error, promptly".                                                       *)
(*                                                                         *)
(* The interactive token loop of Parser.parse (mappyfile/parser.py) looks  *)
(* at every token before it is fed to the LALR parser and may *retype* it, *)
(* depending on the top of the parser's value stack.  At the moment a      *)
(* token is handed to the loop body no reduction for it has happened yet,  *)
(* so the value-stack top is the previously shifted token (with the type   *)
(* the loop gave it) or nothing at all for the first token.  The spec      *)
(* keeps exactly that: `prev`.                                             *)
(*                                                                         *)
(* What the module provides                                                *)
(*   - the class alphabet of Mapfile tokens (Classes) and the token        *)
(*     abstraction [ty, v, lv] the loop decides on;                        *)
(*   - Retype(prev, tok): the retyping rule, as a function;                *)
(*   - Emit(c): token soups - any class may follow any class;              *)
(*   - Delete / Duplicate / Swap / Truncate / Splice / Break over a well-   *)
(*     formed sequence (class level: canonical documents; index level:     *)
(*     a window 1..N of a concrete document with a donor N+1..2N);         *)
(*   - the contract: Loads sets outcome to "ok" or "larkerror", never      *)
(*     anything else; a minimal document of every block type must be "ok"; *)
(*     OutcomeOK(r) judges a recorded outcome (used by TraceParseLoop).    *)
(* The model does not try to predict accept/reject for arbitrary soups and *)
(* it says nothing about time (the timing clause of C11 is measured).      *)
(***************************************************************************)
EXTENDS Naturals, Sequences, FiniteSets, TLC, Json, Vocab

CONSTANTS
    Mode,      \* "model" | "soup" | "sim" | "min" | "mut" | "mutsim" | "mutw" | "lex" | "lextime" | "pos" | "posw"
    MaxLen,    \* soups: number of Emit steps after the root; sim: maximal length
    Roots,     \* soups: classes the soup may start with; "-" = bare root (nothing before the soup)
    Alphabet,  \* soups: classes Emit may append (a subset of Classes)
    N,         \* mutw: window length (ids 1..N, donor ids N+1..2N)
    MaxMut,    \* mut / mutsim / mutw: number of mutations applied
    Variant    \* "spec"; anything else selects a deliberately broken variant (non-vacuity)

VARIABLES soup,      \* the token classes so far (mutw: token ids)
          prev,      \* abstraction of the value-stack top: the previous token as the loop left it
          rets,      \* the type the loop gives to each token (the retyping decisions)
          outcome,   \* "none" until Loads
          muts,      \* mutations applied so far
          base,      \* mut: index of the canonical document; sim: target length
          rtype      \* min: concrete root block type; lex: the lexeme case ("" otherwise)

vars == <<soup, prev, rets, outcome, muts, base, rtype>>

-----------------------------------------------------------------------------
(* Token classes                                                           *)

Openers  == {"OPN", "SYM", "STY", "GRD", "FEA"} \* OPN: one of the 15 block types the loop does not look at
Words    == {"WRD", "SAT", "NAM", "NRM", "IMG"} \* plain keyword, symbol attribute (not "NAME"), "NAME", NORMAL, IMAGEMODE
Literals == {"STR", "INT", "FLT", "HEX", "REX", "BOO"}
Brackets == {"LSQ", "RSQ", "LPA", "RPA", "LBR", "RBR", "COM"}
Opers    == {"OP", "NOT"}
SubOpen  == {"KVO", "PRJ", "PTS", "CFG", "SET"} \* METADATA.., PROJECTION, POINTS/PATTERN, CONFIG, SYMBOLSET
Specials == {"AUT", "CMT"}                      \* AUTO/HILITE/SELECTED, a complete comment
Broken   == {"JNK", "USTR", "UREX", "UCMT"}     \* junk character, unterminated string / regex / comment

Classes  == Openers \cup {"END"} \cup Words \cup Literals \cup Brackets \cup Opers \cup SubOpen
            \cup Specials \cup Broken

\* the token the loop sees for a class, when the lexer gives a keyword its own terminal:
\*   ty = terminal name as far as the loop cares, v = text, lv = lower-cased text
TokOf(c) ==
    CASE c = "WRD" -> [ty |-> "UNQUOTED_STRING", v |-> "STATUS", lv |-> "status"]
      [] c = "SAT" -> [ty |-> "UNQUOTED_STRING", v |-> "TYPE",   lv |-> "type"]
      [] c = "NAM" -> [ty |-> "UNQUOTED_STRING", v |-> "NAME",   lv |-> "name"]
      [] c = "NRM" -> [ty |-> "UNQUOTED_STRING", v |-> "NORMAL", lv |-> "normal"]
      [] c = "GRD" -> [ty |-> "GRID",   v |-> "GRID",   lv |-> "grid"]
      [] c = "SYM" -> [ty |-> "SYMBOL", v |-> "SYMBOL", lv |-> "symbol"]
      [] c = "STY" -> [ty |-> "STYLE",  v |-> "STYLE",  lv |-> "style"]
      [] c = "FEA" -> [ty |-> "FEATURE", v |-> "FEATURE", lv |-> "feature"]
      [] c = "IMG" -> [ty |-> "UNQUOTED_STRING", v |-> "IMAGEMODE", lv |-> "imagemode"]
      [] OTHER     -> [ty |-> c, v |-> c, lv |-> c]

ValueTy == "UNQUOTED_STRING_VALUE"
NoPrev  == [k |-> "none", ty |-> "", v |-> "", lv |-> ""]

\* The retyping rule.  prev = [k, ty, v, lv]: value-stack top (k = "none" when the stack is empty,
\* "tok" for a token, "tree" for anything else); tok = [ty, v, lv].
RetypeSpec(p, t) ==
    CASE t.ty = "UNQUOTED_STRING" /\ p.k = "tok" /\ p.ty = "SYMBOL" /\ t.lv \notin SymbolAttributes -> ValueTy
      [] t.ty = "UNQUOTED_STRING" /\ p.k = "tok" /\ p.ty = "STYLE"  /\ t.lv = "normal"            -> ValueTy
      [] t.ty = "GRID"            /\ p.k = "tok" /\ p.v = "NAME"                                  -> ValueTy
      [] t.ty = "FEATURE"         /\ p.k = "tok" /\ p.ty = "UNQUOTED_STRING" /\ p.lv = "imagemode" -> ValueTy
      [] OTHER -> t.ty

\* broken variants for the negative configurations (TLC must reject them)
RetypeNegSymAttr(p, t) ==     \* forgets the SYMBOL_ATTRIBUTES exemption
    IF t.ty = "UNQUOTED_STRING" /\ p.ty = "SYMBOL" THEN ValueTy ELSE RetypeSpec(p, t)
RetypeNegFirst(p, t) ==       \* retypes without a predecessor
    IF t.ty = "GRID" /\ p.k = "none" THEN ValueTy ELSE RetypeSpec(p, t)

Retype(p, t) ==
    CASE Variant = "neg_symattr" -> RetypeNegSymAttr(p, t)
      [] Variant = "neg_first"   -> RetypeNegFirst(p, t)
      [] OTHER -> RetypeSpec(p, t)

\* the value-stack top after a token was shifted
After(p, t) == [k |-> "tok", ty |-> Retype(p, t), v |-> t.v, lv |-> t.lv]

-----------------------------------------------------------------------------
(* Documents that are well-formed by construction                          *)

\* a minimal document of each block type (and SYMBOLSET): opener END
OpenerClass(t) == CASE t = "symbol" -> "SYM" [] t = "style" -> "STY" [] t = "grid" -> "GRD" [] t = "feature" -> "FEA" [] OTHER -> "OPN"
RootTypes    == GrammarBlockTypes \cup {"symbolset"}
MinimalDoc(t) == IF t = "symbolset" THEN <<"SET", "END">> ELSE <<OpenerClass(t), "END">>
IsMinimal(s)  == \E t \in RootTypes : s = MinimalDoc(t)

\* canonical documents (class level) that the mutation actions start from
CanonDocs == <<
    <<"OPN", "NAM", "STR", "WRD", "INT", "END">>,                                  \* MAP NAME "x" STATUS 1 END
    <<"OPN", "OPN", "STY", "SYM", "WRD", "WRD", "INT", "INT", "INT", "END", "END", "END">>,
    <<"OPN", "KVO", "STR", "STR", "END", "PRJ", "STR", "END", "END">>,
    <<"OPN", "WRD", "LPA", "LSQ", "WRD", "RSQ", "OP", "INT", "RPA", "END">>,       \* CLASS EXPRESSION ([a] = 1) END
    <<"SYM", "NAM", "STR", "SAT", "WRD", "PTS", "INT", "INT", "END", "END">>,
    <<"OPN", "STY", "NRM", "WRD", "INT", "INT", "INT", "END">>,                    \* QUERYMAP STYLE NORMAL COLOR 1 2 3 END
    <<"OPN", "NAM", "GRD", "END">>,                                                \* LAYER NAME GRID END
    <<"OPN", "GRD", "WRD", "STR", "END", "END">>,
    <<"OPN", "CFG", "STR", "STR", "WRD", "REX", "END">>,
    <<"OPN", "WRD", "LBR", "INT", "COM", "INT", "RBR", "WRD", "AUT", "END">>,
    <<"SET", "SYM", "NAM", "STR", "END", "END">>,
    <<"OPN", "IMG", "FEA", "WRD", "WRD", "END">>,                                  \* OUTPUTFORMAT IMAGEMODE FEATURE DRIVER x END
    <<"OPN", "FEA", "PTS", "INT", "FLT", "END", "END", "END">>,
    <<"OPN", "END", "OPN", "END">> >>

-----------------------------------------------------------------------------
(* Sequence mutations (generic)                                            *)

DeleteAt(s, i)     == SubSeq(s, 1, i - 1) \o SubSeq(s, i + 1, Len(s))
DuplicateAt(s, i)  == SubSeq(s, 1, i) \o SubSeq(s, i, Len(s))
SwapAt(s, i, j)    == [s EXCEPT ![i] = s[j], ![j] = s[i]]
TruncateAt(s, i)   == SubSeq(s, 1, i)                         \* keeps the first i elements (0 <= i < Len)
SpliceAt(s, i, d)  == SubSeq(s, 1, i) \o d \o SubSeq(s, i + 1, Len(s))   \* donor d inserted after position i

\* "break": the token loses its closing delimiter (unterminated string / regex / comment); a token
\* without one loses its last character.  Class level: the class it turns into; index level:
\* id + BrokenBase names "the broken spelling of token id".
BrokenBase == 1000
BreakClass(c) == CASE c \in {"STR", "HEX"} -> "USTR" [] c = "REX" -> "UREX" [] c = "CMT" -> "UCMT" [] OTHER -> c

-----------------------------------------------------------------------------
(* Single lexemes with a delimiter (strings, regular expressions, runtime variables,      *)
(* comments): opened by d, filled with n copies of the unit u, closed or not, in a context *)

LexDelims   == {"dq", "sq", "bq", "re", "re2", "rv", "cc", "lc"}      \* " ' ` / \\ % /* #
LexUnits    == {"x", "bs", "bsbs", "bsdq", "bssq", "dq", "sq", "bq", "star", "slash", "starslash", "sp", "nl", "pct", "hash", "uni"}
LexContexts == {"value", "expr", "kv", "root", "proj", "list"}
LexLens     == {0, 1, 7, 32, 40, 300}
\* a unit that would close the lexeme itself is not a filler
Closes(d, u) == \/ (d = "dq" /\ u = "dq")
                \/ (d = "sq" /\ u = "sq")
                \/ (d = "bq" /\ u = "bq")
                \/ (d = "re" /\ u \in {"slash", "starslash"})
                \/ (d = "rv" /\ u = "pct")
                \/ (d = "cc" /\ u = "starslash")
                \/ (d = "lc" /\ u = "nl")
LexCases == {c \in [d : LexDelims, u : LexUnits, closed : BOOLEAN, ctx : LexContexts, n : LexLens] : ~Closes(c.d, c.u)}
\* the (delimiter, unit, closed) combinations whose time is measured over a x100 length range
LexTimed == {c \in [d : LexDelims, u : LexUnits, closed : BOOLEAN] : ~Closes(c.d, c.u)}

-----------------------------------------------------------------------------
(* State machine                                                           *)

Steps == Len(soup)

RECURSIVE Run(_, _, _)
\* prev / rets after pushing the tokens of s (from position i) through the loop
Run(s, i, st) == IF i > Len(s) THEN st
                 ELSE LET t == TokOf(s[i])
                      IN  Run(s, i + 1, [p |-> After(st.p, t), r |-> Append(st.r, Retype(st.p, t))])

Through(s) == Run(s, 1, [p |-> NoPrev, r |-> <<>>])

Tracked == Mode \notin {"mutw", "posw"}        \* (mutw sequences hold token ids, the loop abstraction is not run on them)

SetSoup(s) == /\ soup' = s
              /\ prev' = IF Tracked THEN Through(s).p ELSE NoPrev
              /\ rets' = IF Tracked THEN Through(s).r ELSE <<>>

Emit(c) ==
    /\ outcome = "none"
    /\ soup' = Append(soup, c)
    /\ prev' = After(prev, TokOf(c))
    /\ rets' = Append(rets, Retype(prev, TokOf(c)))
    /\ UNCHANGED <<outcome, muts, base, rtype>>

\* what the contract allows loads to do with the text of this token sequence
Allowed(s)  == IF Tracked /\ IsMinimal(s) THEN {"ok"} ELSE {"ok", "larkerror"}
AllowedV(s) == IF Variant = "neg_other" THEN Allowed(s) \cup {"other"} ELSE Allowed(s)

Loads ==
    /\ outcome = "none"
    /\ outcome' \in AllowedV(soup)
    /\ UNCHANGED <<soup, prev, rets, muts, base, rtype>>

SpliceMax == IF Mode = "mutw" THEN 8 ELSE 3
\* donor segments.  Class level: every piece (1..3 classes) of a canonical document; index level:
\* ids N+a .. N+a+l-1, a run of tokens of the donor window
ClassSegs  == UNION {{SubSeq(CanonDocs[d], a, a + l - 1) : a \in 1..(Len(CanonDocs[d]) - l + 1)} :
                       d \in 1..Len(CanonDocs), l \in 1..SpliceMax}
IndexSeg(a, l) == [x \in 1..l |-> N + a + x - 1]

\* one mutation; i, j positions in the sequence, k an insertion point 0..Len, seg the donor piece
ApplyMut(op, i, j, k, seg) ==
    CASE op = "delete"    -> /\ SetSoup(DeleteAt(soup, i))
                             /\ muts' = Append(muts, [op |-> op, i |-> i])
      [] op = "duplicate" -> /\ SetSoup(DuplicateAt(soup, i))
                             /\ muts' = Append(muts, [op |-> op, i |-> i])
      [] op = "swap"      -> /\ SetSoup(SwapAt(soup, i, j))
                             /\ muts' = Append(muts, [op |-> op, i |-> i, j |-> j])
      [] op = "truncate"  -> /\ SetSoup(TruncateAt(soup, i - 1))
                             /\ muts' = Append(muts, [op |-> op, i |-> i - 1])
      [] op = "break"     -> /\ SetSoup([soup EXCEPT ![i] = IF Mode = "mutw" THEN (IF @ < BrokenBase THEN @ + BrokenBase ELSE @)
                                                                  ELSE BreakClass(@)])
                             /\ muts' = Append(muts, [op |-> op, i |-> i])
      [] op = "splice"    -> /\ SetSoup(SpliceAt(soup, k, seg))
                             /\ muts' = Append(muts, [op |-> op, i |-> k, seg |-> seg])

MutOps == {"delete", "duplicate", "swap", "truncate", "splice", "break"}

\* Mutations with a determinate first offending token.  The sequence before the mutation is a
\* well-formed document, so every prefix of it can be shifted:
\*   "junk"      a junk character (a token no terminal matches anywhere) inserted after position k:
\*               the junk token itself is the first token that cannot be shifted;
\*   "extraend"  one more END after the complete document: that END is.
JunkId == 999
EndId  == 998
PosMutate ==
    /\ outcome = "none"
    /\ muts = <<>>
    /\ \/ \E k \in 0..Len(soup) :
            /\ SetSoup(SpliceAt(soup, k, <<IF Mode = "posw" THEN JunkId ELSE "JNK">>))
            /\ muts' = <<[op |-> "junk", i |-> k, bad |-> k + 1]>>
       \/ /\ SetSoup(Append(soup, IF Mode = "posw" THEN EndId ELSE "END"))
          /\ muts' = <<[op |-> "extraend", i |-> Len(soup), bad |-> Len(soup) + 1]>>
    /\ UNCHANGED <<outcome, base, rtype>>
Offending == IF Len(muts) = 1 /\ muts[1].op \in {"junk", "extraend"} THEN muts[1].bad ELSE 0

\* exhaustive (class level): every single mutation, and every pair of non-splice mutations
Mutate ==
    /\ outcome = "none"
    /\ Len(muts) < MaxMut
    /\ Len(soup) > 0
    /\ (muts # <<>> => muts[1].op # "splice")
    /\ \E op \in MutOps, i \in 1..Len(soup) :
         \/ /\ op \in {"delete", "duplicate", "truncate"}
            /\ ApplyMut(op, i, i, 0, <<>>)
         \/ /\ op = "break"
            /\ BreakClass(soup[i]) # soup[i]
            /\ ApplyMut(op, i, i, 0, <<>>)
         \/ /\ op = "swap"
            /\ \E j \in (i + 1)..Len(soup) : soup[i] # soup[j] /\ ApplyMut(op, i, j, 0, <<>>)
         \/ /\ op = "splice"
            /\ muts = <<>>
            /\ \E k \in {i} \cup (IF i = 1 THEN {0} ELSE {}), seg \in ClassSegs : ApplyMut(op, i, i, k, seg)
    /\ UNCHANGED <<outcome, base, rtype>>

\* simulation: one random successor per step (bound variables are drawn once)
RandEmit == \E c \in {RandomElement(Alphabet)} : Emit(c)

RandMutate ==
    /\ outcome = "none"
    /\ Len(muts) < MaxMut
    /\ Len(soup) > 1
    /\ \E op \in {RandomElement(MutOps \cup {"splice2"})},
          i \in {RandomElement(1..Len(soup))}, j \in {RandomElement(1..Len(soup))},
          k \in {RandomElement(0..Len(soup))}, l \in {RandomElement(1..SpliceMax)} :
         \E seg \in {IF Mode = "mutw" THEN IndexSeg(RandomElement(1..(N - l + 1)), l) ELSE RandomElement(ClassSegs)} :
            ApplyMut(IF op = "splice2" THEN "splice" ELSE op, i, j, k, seg)
    /\ UNCHANGED <<outcome, base, rtype>>

Init ==
    /\ outcome = "none"
    /\ muts = <<>>
    /\ \/ /\ Mode \in {"model", "soup"}
          /\ \E r \in Roots : soup = IF r = "-" THEN <<>> ELSE <<r>>
          /\ base = 0 /\ rtype = ""
       \/ /\ Mode = "sim"
          /\ soup = <<>>
          /\ base \in {MaxLen \div 8, MaxLen \div 4, MaxLen \div 2, MaxLen} \ {0} /\ rtype = ""
       \/ /\ Mode = "min"
          /\ rtype \in RootTypes
          /\ soup = MinimalDoc(rtype)
          /\ base = 0
       \/ /\ Mode \in {"mut", "mutsim", "pos"}
          /\ base \in 1..Len(CanonDocs)
          /\ soup = CanonDocs[base]
          /\ rtype = ""
       \/ /\ Mode \in {"mutw", "posw"}
          /\ base = 0 /\ rtype = ""
          /\ soup = [i \in 1..N |-> i]
       \/ /\ Mode = "lex"
          /\ base = 0 /\ soup = <<>>
          /\ rtype \in LexCases
       \/ /\ Mode = "lextime"
          /\ base = 0 /\ soup = <<>>
          /\ rtype \in LexTimed
    /\ prev = IF Tracked THEN Through(soup).p ELSE NoPrev
    /\ rets = IF Tracked THEN Through(soup).r ELSE <<>>

RootLen == IF "-" \in Roots THEN 0 ELSE 1       \* (one run = one kind of root)

Next ==
    \/ /\ Mode \in {"model", "soup"}
       /\ Steps < MaxLen + RootLen
       /\ \E c \in Alphabet : Emit(c)
    \/ /\ Mode \in {"model", "min", "lex", "lextime"}
       /\ Loads
    \/ /\ Mode = "sim"
       /\ Steps < base
       /\ RandEmit
    \/ /\ Mode = "mut"
       /\ Mutate
    \/ /\ Mode \in {"pos", "posw"}
       /\ PosMutate
    \/ /\ Mode \in {"mutsim", "mutw"}
       /\ RandMutate

Spec == Init /\ [][Next]_vars

-----------------------------------------------------------------------------
(* Invariants (M)                                                          *)

TypeOK ==
    /\ outcome \in {"none", "ok", "larkerror", "other"}
    /\ Tracked => Len(rets) = Len(soup)
    /\ prev.k \in {"none", "tok"}

\* THE CONTRACT: loads never ends in anything but a result or a Lark-family error
Contract == outcome \in {"none", "ok", "larkerror"}

\* a minimal document of every block type is accepted
MinimalAccepted == (Tracked /\ outcome # "none" /\ IsMinimal(soup)) => outcome = "ok"

\* the loop's view of the stack top is the last token
PrevIsLast ==
    Tracked =>
      /\ (soup = <<>>) = (prev.k = "none")
      /\ soup # <<>> => /\ prev.v = TokOf(soup[Len(soup)]).v
                        /\ prev.ty = rets[Len(rets)]

\* retyping only ever turns a plain word, NORMAL or GRID into a value, never touches a symbol
\* attribute, and never happens without a predecessor (the empty-stack case)
RetypeSound ==
    Tracked =>
    \A i \in 1..Len(soup) :
        LET t == TokOf(soup[i]) IN
        /\ rets[i] \in {t.ty, ValueTy}
        /\ rets[i] = ValueTy => soup[i] \in {"WRD", "NRM", "GRD", "IMG", "FEA"}
        /\ i = 1 => rets[i] = t.ty
        /\ (i > 1 /\ soup[i - 1] = "SYM" /\ rets[i - 1] = "SYMBOL") => (rets[i] = ValueTy) = (soup[i] \in {"WRD", "NRM", "IMG"})
        /\ (i > 1 /\ soup[i - 1] = "STY" /\ rets[i - 1] = "STYLE" /\ soup[i] = "NRM") => rets[i] = ValueTy
        /\ (i > 1 /\ soup[i] = "GRD") => (rets[i] = ValueTy) = (soup[i - 1] = "NAM")
        /\ (i > 1 /\ soup[i] = "FEA") => (rets[i] = ValueTy) = (soup[i - 1] = "IMG" /\ rets[i - 1] = "UNQUOTED_STRING")

\* the judgement of one recorded outcome (TraceParseLoop applies it to what the real code did):
\*   kind  in {"ok","larkerror","other"}
\*   stage "parse" = the exception came out of lexing / parsing the text (Parser.parse), i.e. it IS a
\*         syntax error whatever class of the Lark family it has; "transform" = raised while the tree
\*         is turned into a dict (VisitError); "none" for a result.
\* A syntax error must carry a usable line and column - also when it is reported as a plain
\* ParseError / LexError rather than an UnexpectedInput.
PosOK(line, col, nlines) == /\ line >= 1 /\ line <= nlines + 1 /\ col >= 1
IsSyntaxError(r) == r.kind = "larkerror" /\ r.stage = "parse"
\* hasexp: the behaviour determines the first token that cannot be shifted (see Offending below) and
\* the text layout gives its line and column (eline, ecol): the error must point exactly there
PosExact(r) == (r.hasexp /\ IsSyntaxError(r) /\ r.haspos) => (r.line = r.eline /\ r.col = r.ecol)
OutcomeOK(r) ==
    /\ r.kind \in {"ok", "larkerror"}
    /\ IsSyntaxError(r) => (r.haspos /\ PosOK(r.line, r.col, r.nlines))
    /\ PosExact(r)
    /\ (r.kind = "ok") => r.isdict

\* "promptly": the one formula of the timing clause.  The harness measures CPU time (microseconds)
\* at n0 and n1 = k * n0 tokens / characters; the model does not predict the numbers, it only fixes
\* how they are judged: within TimeFactor x the linear extrapolation, or below an absolute floor.
TimeFactor  == 20
TimeFloorUs == 1000000
TimeOK(r) == \/ r.t1us <= TimeFloorUs
             \/ r.t1us \div (r.n1 \div r.n0) <= TimeFactor * r.t0us

-----------------------------------------------------------------------------
(* Emission (G): behaviours as JSON lines                                  *)

\* printed once per TLC run: the default allowed outcomes come from the spec, not from the harness
\* the (previous class, class) pairs on which the loop retypes: long repetitive inputs must hit each
RetypePairs == {p \in Classes \X Classes : Run(<<p[1], p[2]>>, 1, [p |-> NoPrev, r |-> <<>>]).r[2] = ValueTy}
Header == [hdr |-> "ParseLoop", allowed |-> Allowed(<<"JNK">>), classes |-> Classes, mutops |-> MutOps,
           timefactor |-> TimeFactor, timefloorus |-> TimeFloorUs, retypepairs |-> RetypePairs]
ASSUME PrintT(ToJson(Header))

\* exhaustive soups: one line per state.  A bare array is a soup with the header's allowed
\* outcomes; a record carries its own.
EmitSoup == IF IsMinimal(soup) THEN PrintT(ToJson([s |-> soup, allowed |-> Allowed(soup)]))
            ELSE PrintT(ToJson(soup))

EmitSim == (Steps = base) => PrintT(ToJson(soup))

EmitMin == outcome = "none" => PrintT(ToJson([s |-> soup, allowed |-> Allowed(soup), t |-> rtype]))

EmitPos == Len(muts) = 1 =>
    PrintT(ToJson([s |-> soup, base |-> base, muts |-> muts, allowed |-> Allowed(soup), tail |-> TRUE, bad |-> Offending]))

EmitLex == outcome = "none" => PrintT(ToJson([lex |-> rtype, allowed |-> Allowed(<<"JNK">>)]))

\* tail: does the text after the mutated window survive (index level)?  not after a truncation
TailKept == \A m \in 1..Len(muts) : muts[m].op # "truncate"

EmitMut == Len(muts) > 0 =>
    PrintT(ToJson([s |-> soup, base |-> base, muts |-> muts, allowed |-> Allowed(soup), tail |-> TailKept]))

EmitMutDone == Len(muts) = MaxMut =>
    PrintT(ToJson([s |-> soup, base |-> base, muts |-> muts, allowed |-> Allowed(soup), tail |-> TailKept]))
=============================================================================
