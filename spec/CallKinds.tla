----------------------------- MODULE CallKinds -----------------------------
(***************************************************************************)
(* Vocabulary shared by Calls.tla (the model of the public calls, C12) and *)
(* TraceCalls.tla (validation of purity traces recorded from the real      *)
(* code): the kinds of public calls and which of them are allowed to       *)
(* modify their argument.                                                  *)
(***************************************************************************)

\* calls that take text and return a dict
ReadKinds     == {"loads"}
\* calls that take a dict (or a list of dicts taken from one) and must not change it
PrintKinds    == {"dumps"}
CheckKinds    == {"validate"}
QueryKinds    == {"find", "findall", "findunique", "findkey"}
\* the two documented exceptions: dumps(separate_complex_types=True) re-orders the keys of the
\* dictionary it prints, Validator.validate(add_comments=True) writes error comments into it
MutatingKinds == {"dumps_sep", "validate_addc"}

PureKinds     == ReadKinds \cup PrintKinds \cup CheckKinds \cup QueryKinds
AllKinds      == PureKinds \cup MutatingKinds
DictKinds     == AllKinds \ ReadKinds

\* the clause every call of a pure kind has to satisfy: the deep snapshot of every argument
\* (key order, value types, hidden keys, identities of nested containers) is the same before
\* and after the call
ArgsClause(kind, pre, post) == kind \in PureKinds => pre = post
=============================================================================
