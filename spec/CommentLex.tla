----------------------------- MODULE CommentLex -----------------------------
(***************************************************************************)
(* Separators (C05): which texts between two tokens consist of white space *)
(* and comments only, so that the dictionary loads returns cannot depend   *)
(* on them.                                                                 *)
(*                                                                         *)
(* Texts are sequences over an alphabet with every character class the     *)
(* lexer distinguishes here:  sl "/"   st "*"   ha "#"   nl line break      *)
(* sp blank   a  any other character.                                       *)
(*    #-comment : "#" up to (not including) the next line break; it must   *)
(*                end inside the separator, otherwise it swallows the next *)
(*                token;                                                   *)
(*    C comment : "/*" up to the FIRST following "*/" (not overlapping the *)
(*                opener: "/*/" is not a comment).                         *)
(* IsSep(s) holds iff s is a sequence of blanks, line breaks and complete  *)
(* comments.  TLC enumerates every sequence up to MaxLen, checks the laws  *)
(* below and emits the separators; the harness inserts each one at several *)
(* positions of real documents and requires the same dictionary.           *)
(***************************************************************************)
EXTENDS Naturals, Sequences, FiniteSets, TLC, Json

CONSTANT MaxLen

Sym == {"sl", "st", "ha", "nl", "sp", "a"}
SeqsUpTo(S, n) == UNION {[1..k -> S] : k \in 0..n}

\* first index >= i where a line break stands (0: none)
RECURSIVE NextNl(_, _)
NextNl(s, i) == IF i > Len(s) THEN 0 ELSE IF s[i] = "nl" THEN i ELSE NextNl(s, i + 1)
\* first index k >= i with s[k] = "*" and s[k+1] = "/" (0: none)
RECURSIVE NextClose(_, _)
NextClose(s, i) == IF i + 1 > Len(s) THEN 0 ELSE IF s[i] = "st" /\ s[i + 1] = "sl" THEN i ELSE NextClose(s, i + 1)

RECURSIVE Sep(_, _)
Sep(s, i) ==
    IF i > Len(s) THEN TRUE
    ELSE IF s[i] \in {"sp", "nl"} THEN Sep(s, i + 1)
    ELSE IF s[i] = "ha" THEN LET j == NextNl(s, i) IN IF j = 0 THEN FALSE ELSE Sep(s, j)
    ELSE IF s[i] = "sl" /\ i < Len(s) /\ s[i + 1] = "st"
         THEN LET k == NextClose(s, i + 2) IN IF k = 0 THEN FALSE ELSE Sep(s, k + 2)
    ELSE FALSE
IsSep(s) == Sep(s, 1)

HasComment(s) == \E i \in 1..Len(s) : s[i] \in {"ha", "sl"}
HasBlank(s)   == \E i \in 1..Len(s) : s[i] \in {"sp", "nl"}

-----------------------------------------------------------------------------
VARIABLES s, phase
Init == s \in SeqsUpTo(Sym, MaxLen) /\ phase = "new"
Next == phase = "new" /\ phase' = "done" /\ UNCHANGED s

\* laws
BlankOnlyIsSep == (\A i \in 1..Len(s) : s[i] \in {"sp", "nl"}) => IsSep(s)
\* separators compose: cutting a separator at a point outside its comments gives two separators, and
\* appending blanks / a complete comment keeps a separator
ComposeRight == IsSep(s) => /\ IsSep(s \o <<"sp">>) /\ IsSep(s \o <<"nl">>)
                            /\ IsSep(s \o <<"sl", "st", "st", "sl">>) /\ IsSep(s \o <<"ha", "a", "nl">>)
ComposeLeft  == IsSep(s) => /\ IsSep(<<"sp">> \o s) /\ IsSep(<<"sl", "st", "a", "st", "sl">> \o s) /\ IsSep(<<"ha", "nl">> \o s)
\* an ordinary character outside a comment is never part of a separator
NoStrayToken == (IsSep(s) /\ \E i \in 1..Len(s) : s[i] = "a") => HasComment(s)

Emit == (phase = "done" /\ IsSep(s) /\ HasComment(s)) =>
            PrintT(ToJson([s |-> s, blank |-> HasBlank(s)]))
=============================================================================
