------------------------------- MODULE HexLex -------------------------------
(***************************************************************************)
(* Hexadecimal colour lexemes (C02, C01, C06): a quoted string "#..." is a *)
(* hex colour iff what follows the # are 3 or 6 hex digits, optionally     *)
(* followed by 2 more (alpha channel): 3, 5, 6 or 8 digits.  A hex colour  *)
(* is stored lower-cased; any other "#..." string is stored verbatim.      *)
(* Digits are drawn from an alphabet with a decimal digit, a lower- and an *)
(* upper-case hex letter and a letter that is no hex digit.                *)
(***************************************************************************)
EXTENDS Naturals, Sequences, FiniteSets, TLC, Json

CONSTANTS MaxLen,     \* every sequence over Sym up to this length
          LongLen     \* ... and, up to this length, the sequences over {0, F} alone and those ending in the non-hex letter
Sym == {"0", "a", "F", "g"}
Hex == {"0", "a", "F", "f"}      \* ("f" only arises as the stored form of "F")
SeqsUpTo(S, n) == UNION {[1..k -> S] : k \in 0..n}

AllHex(s) == \A i \in 1..Len(s) : s[i] \in Hex
IsHexColour(s) == AllHex(s) /\ Len(s) \in {3, 5, 6, 8}
Lower(x) == IF x = "F" THEN "f" ELSE x
Stored(s) == IF IsHexColour(s) THEN [i \in 1..Len(s) |-> Lower(s[i])] ELSE s

VARIABLES s, phase
Long == UNION {[1..k -> {"0", "F"}] : k \in (MaxLen + 1)..LongLen}
LongG == {Append(x, "g") : x \in UNION {[1..k -> {"0", "F"}] : k \in MaxLen..(LongLen - 1)}}
Init == s \in (SeqsUpTo(Sym, MaxLen) \cup Long \cup LongG) /\ phase = "new"
Next == phase = "new" /\ phase' = "done" /\ UNCHANGED s

\* laws: storing is idempotent; a colour stays a colour; a non-hex letter never makes a colour
StoredIdem    == Stored(Stored(s)) = Stored(s)
ColourStays   == IsHexColour(s) => IsHexColour(Stored(s))
NonHexNever   == (\E i \in 1..Len(s) : s[i] = "g") => ~IsHexColour(s)
Emit == phase = "done" => PrintT(ToJson([s |-> s, hex |-> IsHexColour(s), stored |-> Stored(s)]))
=============================================================================
