-------------------------------- MODULE Expr --------------------------------
(***************************************************************************)
(* Property C10: the string mappyfile stores for a parenthesised           *)
(* expression denotes the same expression as the source.                   *)
(*                                                                         *)
(*  - expression trees and their source token sequences (Src)              *)
(*  - Denote: the semantic function - a precedence-climbing parser over    *)
(*    token sequences with MapServer's ladder                              *)
(*        OR < AND < NOT < comparisons < + - < * / ^ < unary minus         *)
(*    in which parentheses only group (Paren nodes are erased) and         *)
(*    && || ! are the same operators as AND OR NOT                         *)
(*  - the builder machine: the reductions mapfile.lark performs on the     *)
(*    source (GParse, ladder of the grammar), one step per reduction, each *)
(*    pushing the string - as a token sequence - that the corresponding    *)
(*    rule of transformer.py builds (Rule)                                 *)
(*  - invariants NoRegroup / Flat / Wrapped / Stable                       *)
(*  - generators used by the harness (shapes: exhaustive, walks: simulate) *)
(*                                                                         *)
(* A token is <<class, n>>.  Classes: LP RP COMMA, OR AND NOT (n = 1 word  *)
(* AND/OR/NOT, 2 symbol && || !, 3 any other letter case), CMP (n =        *)
(* operator spelling id), ADD SUB MUL DIV POW NEG, ATOM (n = interned text *)
(* id; bindings, numbers, strings, lists, regular expressions are opaque), *)
(* FUNC (n = interned function name id).                                   *)
(* A tree is <<kind, n, child...>> with kind = the token class of its      *)
(* operator, or PAREN / ATOM / FUNC.                                       *)
(***************************************************************************)
EXTENDS Naturals, Sequences, FiniteSets, TLC, Json

CONSTANTS
    MaxOps,        \* trees with at most MaxOps operator nodes below the outer parentheses
    KindsM,        \* operator kinds enumerated (a subset of Unary \cup Binary)
    CmpOpsM,       \* comparison spelling ids enumerated
    LogSpM,        \* AND/OR/NOT spelling variants enumerated
    WithFunc,      \* leaves: an atom, and a function call when TRUE
    WithList,      \* leaves: also a list expression and a function call with a list argument
    TypedM,        \* FALSE: every tree over KindsM; TRUE: only the well-typed ones (see TypeOf)
    \* ---- the mechanism model (what mapfile.lark + transformer.py do) ----
    Ladder,        \* "lark": or_test < and_test < comparison < sum < product; "swapped": or/and exchanged
    AndOrParens,   \* and_test / or_test build "( a AND b )"
    CmpParens,     \* comparison builds "( a op b )"
    OuterRule,     \* expression: "startsends" = quoter.in_parenthesis (text starts with "(" and ends with ")")
                   \*             "matched"    = the opening parenthesis closes at the end (the contract)
    \* ---- the semantic function ----
    DenoteLadder,  \* "ms": % is a comparison operator (as in the grammar); "ms-pctmul": % binds like * /
    \* ---- emission pools (harness) ----
    AllCmpOps, RootCmpOps, AllLogSp, AtomIds, FuncIds, ListIds, MaxWalkOps,
    TrickyMaxOps,                   \* leaf modes 3 4 5 for the shapes up to this size
    WideNums,                       \* numeric literals with many digits / extreme magnitudes / exponents (leaf mode 6)
    TrickySq, TrickyDq, TrickyBq,   \* string operands holding quotes / parentheses / brackets, by quote character
    RootKindsS     \* shapes emitted in one run: those whose root kind is in this set

VARIABLES tree, todo, stack, forest, ops, aux, phase
vars == <<tree, todo, stack, forest, ops, aux, phase>>

-----------------------------------------------------------------------------
(* Tokens and trees                                                        *)

LP    == <<"LP", 0>>
RP    == <<"RP", 0>>
COMMA == <<"COMMA", 0>>
LB    == <<"LB", 0>>                     \* { and } of a list expression; its elements are ELEM tokens
RB    == <<"RB", 0>>
Word  == 1                               \* AND OR NOT as the builders spell them
PctOp == 10                              \* spelling id of "%" (harness table)

Unary  == {"NOT", "NEG", "PAREN"}
Arith  == {"ADD", "SUB", "MUL", "DIV", "POW"}
Logic  == {"OR", "AND"}
Binary == Logic \cup {"CMP"} \cup Arith

ErrT == <<"ERR", 0>>

\* function calls: the arguments are opaque atoms; name id f has FuncArity(f) arguments with ids 100f+j
FuncArity(f) == IF f % 2 = 0 THEN 2 ELSE 1
FuncArgs(f)  == [j \in 1..FuncArity(f) |-> 100 * f + j]

RECURSIVE Commas(_, _)
Commas(c, ids) == IF Len(ids) = 0 THEN <<>>
                  ELSE IF Len(ids) = 1 THEN << <<c, ids[1]>> >>
                  ELSE << <<c, ids[1]>>, COMMA >> \o Commas(c, Tail(ids))

\* list expressions {e1,e2,...}: the elements are kept verbatim, one ELEM token each (n = interned
\* element text: names, phrases, quoted strings, numbers in any spelling - 01, 1.50, +4, 1e3).
\* List l of the harness table has ListLen(l) elements with ids 600+10l+j.
ListLen(l)   == 1 + (l % 3)
ListElems(l) == [j \in 1..ListLen(l) |-> 600 + 10 * l + j]
ListToks(ids) == <<LB>> \o Commas("ELEM", ids) \o <<RB>>

\* the argument tokens of function f: atoms; functions 5 and 6 take a list
FuncArgToks(f) == CASE f = 5 -> ListToks(ListElems(4))
                    [] f = 6 -> << <<"ATOM", 601>>, COMMA >> \o ListToks(ListElems(5))
                    [] OTHER -> Commas("ATOM", FuncArgs(f))

\* Src: the source token sequence of a tree (leaves <<"FUNC", f>> / <<"LIST", l>> use the tables above;
\* a parsed call <<"FUNC", f, toks>> / list <<"LIST", 0, ids>> carries what it was written with)
RECURSIVE Src(_)
Src(t) ==
    LET k == t[1] IN
    CASE k = "ATOM"  -> << <<"ATOM", t[2]>> >>
      [] k = "FUNC"  -> << <<"FUNC", t[2]>>, LP >> \o (IF Len(t) = 3 THEN t[3] ELSE FuncArgToks(t[2])) \o <<RP>>
      [] k = "LIST"  -> ListToks(IF Len(t) = 3 THEN t[3] ELSE ListElems(t[2]))
      [] k = "PAREN" -> <<LP>> \o Src(t[3]) \o <<RP>>
      [] k = "NOT"   -> << <<"NOT", t[2]>> >> \o Src(t[3])
      [] k = "NEG"   -> << <<"NEG", 0>> >> \o Src(t[3])
      [] OTHER       -> Src(t[3]) \o << <<k, t[2]>> >> \o Src(t[4])

-----------------------------------------------------------------------------
(* The precedence-climbing parser.  lad selects the ladder, sem = TRUE     *)
(* gives the semantic reading (parentheses and the three keyword spellings *)
(* erased), sem = FALSE keeps PAREN nodes and spellings (= the reductions  *)
(* of the grammar).                                                        *)

Level(tok, lad) ==
    LET c == tok[1] IN
    CASE c = "OR"  -> IF lad = "swapped" THEN 2 ELSE 1
      [] c = "AND" -> IF lad = "swapped" THEN 1 ELSE 2
      [] c = "CMP" -> IF lad = "ms-pctmul" /\ tok[2] = PctOp THEN 6 ELSE 4
      [] c \in {"ADD", "SUB"} -> 5
      [] c \in {"MUL", "DIV", "POW"} -> 6
      [] OTHER -> 0                      \* not a binary operator
NotOperandLevel == 4                     \* NOT takes a comparison (everything that binds tighter than NOT)

Fail == [t |-> ErrT, n |-> 0]

RECURSIVE PExpr(_, _, _, _, _), PLoop(_, _, _, _, _, _), PPrefix(_, _, _, _), PArgs(_, _, _), PElems(_, _, _)

\* the arguments of a call, verbatim up to its closing parenthesis (atoms, lists, commas)
PArgs(ts, i, acc) ==
    IF i > Len(ts) THEN Fail
    ELSE IF ts[i][1] = "RP" THEN (IF acc = <<>> THEN Fail ELSE [t |-> acc, n |-> i + 1])
    ELSE IF ts[i][1] \in {"ATOM", "COMMA", "LB", "RB", "ELEM"} THEN PArgs(ts, i + 1, Append(acc, ts[i]))
    ELSE Fail

\* the elements of a list, after the opening brace
PElems(ts, i, acc) ==
    IF i + 1 > Len(ts) \/ ts[i][1] # "ELEM" THEN Fail
    ELSE LET acc2 == Append(acc, ts[i][2]) IN
         IF ts[i + 1][1] = "RB" THEN [t |-> acc2, n |-> i + 2]
         ELSE IF ts[i + 1][1] = "COMMA" THEN PElems(ts, i + 2, acc2)
         ELSE Fail

PPrefix(ts, i, lad, sem) ==
    IF i > Len(ts) THEN Fail
    ELSE
    LET c == ts[i][1] IN
    CASE c = "ATOM" -> [t |-> <<"ATOM", ts[i][2]>>, n |-> i + 1]
      [] c = "FUNC" -> IF i + 1 <= Len(ts) /\ ts[i + 1][1] = "LP"
                       THEN LET a == PArgs(ts, i + 2, <<>>) IN
                            IF a.n = 0 THEN Fail ELSE [t |-> <<"FUNC", ts[i][2], a.t>>, n |-> a.n]
                       ELSE Fail
      [] c = "LB"   -> LET a == PElems(ts, i + 1, <<>>) IN
                       IF a.n = 0 THEN Fail ELSE [t |-> <<"LIST", 0, a.t>>, n |-> a.n]
      [] c = "LP"   -> LET x == PExpr(ts, i + 1, 1, lad, sem) IN
                       IF x.n = 0 \/ x.n > Len(ts) THEN Fail
                       ELSE IF ts[x.n][1] # "RP" THEN Fail
                       ELSE [t |-> IF sem THEN x.t ELSE <<"PAREN", 0, x.t>>, n |-> x.n + 1]
      [] c = "NOT"  -> LET x == PExpr(ts, i + 1, NotOperandLevel, lad, sem) IN
                       IF x.n = 0 THEN Fail
                       ELSE [t |-> <<"NOT", IF sem THEN 0 ELSE ts[i][2], x.t>>, n |-> x.n]
      [] c = "NEG"  -> LET x == PPrefix(ts, i + 1, lad, sem) IN
                       IF x.n = 0 THEN Fail ELSE [t |-> <<"NEG", 0, x.t>>, n |-> x.n]
      [] OTHER -> Fail

PLoop(ts, left, i, min, lad, sem) ==
    IF i > Len(ts) THEN [t |-> left, n |-> i]
    ELSE LET lv == Level(ts[i], lad) IN
         IF lv = 0 \/ lv < min THEN [t |-> left, n |-> i]
         ELSE LET r == PExpr(ts, i + 1, lv + 1, lad, sem) IN       \* every binary operator associates to the left
              IF r.n = 0 THEN Fail
              ELSE PLoop(ts, <<ts[i][1], IF sem /\ ts[i][1] \in Logic THEN 0 ELSE ts[i][2], left, r.t>>,
                         r.n, min, lad, sem)

PExpr(ts, i, min, lad, sem) ==
    LET l == PPrefix(ts, i, lad, sem) IN
    IF l.n = 0 THEN Fail ELSE PLoop(ts, l.t, l.n, min, lad, sem)

Parse(ts, lad, sem) ==
    LET r == PExpr(ts, 1, 1, lad, sem) IN
    IF r.n = Len(ts) + 1 THEN r.t ELSE ErrT

Denote(ts) == Parse(ts, DenoteLadder, TRUE)      \* the semantic function
GParse(ts) == Parse(ts, Ladder, FALSE)           \* the reductions the grammar performs

-----------------------------------------------------------------------------
(* Token-sequence helpers                                                  *)

RECURSIVE Scan(_, _, _)
Scan(ts, i, d) ==                        \* index at which the parenthesis opened at position i closes (0: never)
    IF i > Len(ts) THEN 0
    ELSE LET d2 == IF ts[i][1] = "LP" THEN d + 1 ELSE IF ts[i][1] = "RP" THEN d - 1 ELSE d IN
         IF d2 = 0 THEN i ELSE Scan(ts, i + 1, d2)

Matched(ts)    == Len(ts) >= 2 /\ ts[1][1] = "LP" /\ Scan(ts, 1, 0) = Len(ts)
StartsEnds(ts) == Len(ts) >= 1 /\ ts[1][1] = "LP" /\ ts[Len(ts)][1] = "RP"

IsParen(tok) == tok[1] \in {"LP", "RP"}
\* operands and operators in order, without parentheses, keyword spellings normalised
NormTok(tok) == IF tok[1] \in {"OR", "AND", "NOT"} THEN <<tok[1], Word>> ELSE tok
Flat(ts)     == SelectSeq(ts, LAMBDA x : ~IsParen(x))
NormFlat(ts) == LET f == Flat(ts) IN [i \in 1..Len(f) |-> NormTok(f[i])]

-----------------------------------------------------------------------------
(* The builders of transformer.py, on token sequences.  ks: the strings    *)
(* already built for the children.                                         *)

InParen(x) == IF OuterRule = "startsends" THEN StartsEnds(x) ELSE Matched(x)
Wrap(x)    == <<LP>> \o x \o <<RP>>

Rule(t, ks) ==
    LET k == t[1] IN
    CASE k = "ATOM"  -> Src(t)                                       \* string / int / float / attr_bind / regexp
      [] k = "LIST"  -> Src(t)                                       \* list: "{e1,e2}" with the elements as written
      [] k = "FUNC"  -> Wrap(Src(t))                                 \* func_call: "(name(params))"
      [] k = "NEG"   -> << <<"NEG", 0>> >> \o ks[1]                  \* neg: "-x"
      [] k = "NOT"   -> << <<"NOT", Word>> >> \o ks[1]               \* not_expression: "NOT x"
      [] k \in Arith -> ks[1] \o << <<k, 0>> >> \o ks[2]             \* add sub mul div power: "a op b"
      [] k = "CMP"   -> LET s == ks[1] \o << <<k, t[2]>> >> \o ks[2] IN IF CmpParens THEN Wrap(s) ELSE s
      [] k \in Logic -> LET s == ks[1] \o << <<k, Word>> >> \o ks[2] IN IF AndOrParens THEN Wrap(s) ELSE s
      [] k = "PAREN" -> IF InParen(ks[1]) THEN ks[1] ELSE Wrap(ks[1])  \* expression

Arity(t) == IF t[1] \in {"ATOM", "FUNC", "LIST"} THEN 0 ELSE IF t[1] \in Unary THEN 1 ELSE 2

RECURSIVE Build(_), PostOrder(_)
Build(t) == Rule(t, [i \in 1..Arity(t) |-> Build(t[2 + i])])
PostOrder(t) == IF Arity(t) = 0 THEN <<t>>
                ELSE IF Arity(t) = 1 THEN Append(PostOrder(t[3]), t)
                ELSE Append(PostOrder(t[3]) \o PostOrder(t[4]), t)

\* what loads stores for the source ts; <<>> when ts is not a parenthesised expression or a list expression
Normal(ts) == LET g == GParse(ts) IN IF g = ErrT THEN <<>> ELSE IF g[1] \notin {"PAREN", "LIST"} THEN <<>> ELSE Build(g)

-----------------------------------------------------------------------------
(* Tree sets                                                               *)

\* Types (MapServer's expression grammar is typed): "A" a value - number, string, binding, function
\* call, arithmetic; "L" a logical value.  Arithmetic operators, unary minus and comparisons take
\* values; AND OR NOT take logical values or values; % (a comparison operator in mapfile.lark)
\* yields a value.  P = [kinds, cmps, sps, leaves, typed]; typed = FALSE: every tree over the kinds.
RECURSIVE TypeOf(_)
TypeOf(x) == CASE x[1] \in {"ATOM", "FUNC", "LIST", "NEG"} \cup Arith -> "A"
               [] x[1] = "CMP" -> IF x[2] = PctOp THEN "A" ELSE "L"
               [] x[1] = "PAREN" -> TypeOf(x[3])
               [] OTHER -> "L"

PctCmps(P) == IF "CMP" \in P.kinds THEN P.cmps \cap {PctOp} ELSE {}
RelCmps(P) == IF "CMP" \in P.kinds THEN P.cmps \ {PctOp} ELSE {}
OpsA2(P)   == {<<k, 0>> : k \in P.kinds \cap Arith} \cup {<<"CMP", c>> : c \in PctCmps(P)}

\* the trees with exactly k operator nodes, by type, from those with fewer (tab[i + 1] = level i).
\* (built bottom-up as a table: a plain recursive definition is re-evaluated exponentially often)
LevelOf(k, tab, P) ==
    LET A(i)  == tab[i + 1].a
        L(i)  == tab[i + 1].l
        SA(i) == IF P.typed THEN A(i) ELSE A(i) \cup L(i)      \* where a value is wanted
        SL(i) == A(i) \cup L(i)                                \* where a logical value or a value is wanted
    IN  IF k = 0 THEN [a |-> P.leaves, l |-> {}]
        ELSE [a |-> {<<"NEG", 0, x>> : x \in IF "NEG" \in P.kinds THEN SA(k - 1) ELSE {}}
                    \cup {<<"PAREN", 0, x>> : x \in IF "PAREN" \in P.kinds THEN A(k - 1) ELSE {}}
                    \cup UNION {{<<o[1], o[2], x, y>> : o \in OpsA2(P), x \in SA(i), y \in SA(k - 1 - i)}
                                   : i \in 0..(k - 1)},
              l |-> {<<"NOT", s, x>> : s \in IF "NOT" \in P.kinds THEN P.sps ELSE {}, x \in SL(k - 1)}
                    \cup {<<"PAREN", 0, x>> : x \in IF "PAREN" \in P.kinds THEN L(k - 1) ELSE {}}
                    \cup UNION {{<<o, s, x, y>> : o \in P.kinds \cap Logic, s \in P.sps, x \in SL(i), y \in SL(k - 1 - i)}
                                   : i \in 0..(k - 1)}
                    \cup UNION {{<<"CMP", c, x, y>> : c \in RelCmps(P), x \in SA(i), y \in SA(k - 1 - i)}
                                   : i \in 0..(k - 1)}]

RECURSIVE BuildTab(_, _, _)
BuildTab(n, tab, P) ==                   \* (a bound variable holds a value: every level is computed once)
    IF Len(tab) > n THEN tab
    ELSE CHOOSE r \in {BuildTab(n, Append(tab, lv), P) : lv \in {LevelOf(Len(tab), tab, P)}} : TRUE

TreesUpTo(n, P) == UNION {UNION {t[i].a \cup t[i].l : i \in 1..(n + 1)} : t \in {BuildTab(n, <<>>, P)}}

LeavesM == {<<"ATOM", 1>>} \cup (IF WithFunc THEN {<<"FUNC", 1>>} ELSE {})
           \cup (IF WithList THEN {<<"LIST", 4>>, <<"FUNC", 5>>} ELSE {})
ParamsM == [kinds |-> KindsM, cmps |-> CmpOpsM, sps |-> LogSpM, leaves |-> LeavesM, typed |-> TypedM]

-----------------------------------------------------------------------------
(* (M) the builder machine                                                 *)

MInit ==
    /\ tree \in {<<"PAREN", 0, x>> : x \in TreesUpTo(MaxOps, ParamsM)}
    /\ todo = PostOrder(GParse(Src(tree)))
    /\ stack = <<>>
    /\ forest = <<>> /\ ops = 0 /\ aux = 0 /\ phase = "build"

\* one grammar reduction: the rule's callback receives the strings built for its children
Reduce ==
    /\ phase = "build"
    /\ todo # <<>>
    /\ LET node == Head(todo)
           n    == Arity(node)
           m    == Len(stack)
           ks   == [i \in 1..n |-> stack[m - n + i].b]
       IN  stack' = Append(SubSeq(stack, 1, m - n), [b |-> Rule(node, ks), s |-> Src(node)])
    /\ todo' = Tail(todo)
    /\ UNCHANGED <<tree, forest, ops, aux, phase>>

MNext == Reduce

Top  == stack[Len(stack)]
Done == phase = "build" /\ todo = <<>> /\ stack # <<>>

\* the grammar reading of a rendered tree is total and loses nothing
RoundTrip == phase = "build" => (GParse(Src(tree)) # ErrT /\ Src(GParse(Src(tree))) = Src(tree))

\* the string just built denotes what the source of the reduced node denotes
NoRegroup == (phase = "build" /\ stack # <<>>) =>
                 (Denote(Top.s) # ErrT /\ Denote(Top.b) = Denote(Top.s))

\* operands and operator spellings unchanged and in order; AND OR NOT spelled as words
FlatKept == (phase = "build" /\ stack # <<>>) => Flat(Top.b) = NormFlat(Top.s)

\* the stored value is a parenthesised expression
Wrapped == Done => Matched(Top.b)

\* loading the stored text again stores the same text
Stable == Done => Normal(Top.b) = Top.b

\* the same four, printing the case before failing (leads for the harness)
Lead(name) == PrintT(ToJson([lead |-> name, src |-> Src(tree), built |-> Top.b, node |-> Top.s,
                              norm |-> Normal(Src(tree))]))
NoRegroupLead == NoRegroup \/ (Lead("regroup") /\ FALSE)
WrappedLead   == Wrapped \/ (Lead("outer") /\ FALSE)
StableLead    == Stable \/ (Lead("stable") /\ FALSE)

-----------------------------------------------------------------------------
(* (G) emission: shapes (exhaustive) and walks (simulation)                *)

RECURSIVE CountOps(_)
CountOps(t) == IF Arity(t) = 0 THEN 0 ELSE IF Arity(t) = 1 THEN 1 + CountOps(t[3]) ELSE 1 + CountOps(t[3]) + CountOps(t[4])

\* well-typed shapes; spellings and operands still open (0), except % which is typed on its own
Shapes == IF RootKindsS = {} THEN {}       \* (not a shape run: nothing to compute)
          ELSE TreesUpTo(MaxOps, [kinds |-> Unary \cup Binary, cmps |-> {0, PctOp}, sps |-> {0},
                                  leaves |-> {<<"ATOM", 0>>}, typed |-> TRUE])
RelOps(S) == S \ {PctOp}

\* every spelling of the operator at the root
RootSp(s) ==
    CASE s[1] = "CMP"            -> IF s[2] = PctOp THEN {s} ELSE {[s EXCEPT ![2] = o] : o \in RelOps(RootCmpOps)}
      [] s[1] \in {"OR", "AND", "NOT"} -> {[s EXCEPT ![2] = v] : v \in AllLogSp}
      [] OTHER -> {s}

LeafOf(d) == IF d <= 2 THEN <<"FUNC", RandomElement(FuncIds)>>
             ELSE IF d <= 4 THEN <<"LIST", RandomElement(ListIds)>>
             ELSE <<"ATOM", RandomElement(AtomIds)>>

\* leaf modes: 0 mixed; 1 every leaf a function call; 3 4 5 every leaf a string whose content could be
\* mistaken for structure (quotes, parentheses, brackets), single- / double- / back-quoted;
\* 6 every leaf a numeric literal from WideNums
Leaf(mode) == CASE mode = 1 -> <<"FUNC", RandomElement(FuncIds)>>
                [] mode = 3 -> <<"ATOM", RandomElement(TrickySq)>>
                [] mode = 4 -> <<"ATOM", RandomElement(TrickyDq)>>
                [] mode = 5 -> <<"ATOM", RandomElement(TrickyBq)>>
                [] mode = 6 -> <<"ATOM", RandomElement(WideNums)>>
                [] OTHER -> CHOOSE x \in {LeafOf(d) : d \in {RandomElement(1..16)}} : TRUE   \* (d is drawn once)

\* fill the open spellings and leaves of a shape at random (keep: the attribute is already chosen)
RECURSIVE Deco(_, _, _)
Deco(t, keep, mode) ==
    LET k == t[1] IN
    CASE k = "ATOM" -> Leaf(mode)
      [] k = "NOT"  -> <<k, IF keep THEN t[2] ELSE RandomElement(AllLogSp), Deco(t[3], FALSE, mode)>>
      [] k \in {"NEG", "PAREN"} -> <<k, 0, Deco(t[3], FALSE, mode)>>
      [] k \in Logic -> <<k, IF keep THEN t[2] ELSE RandomElement(AllLogSp), Deco(t[3], FALSE, mode), Deco(t[4], FALSE, mode)>>
      [] k = "CMP"  -> <<k, IF keep \/ t[2] = PctOp THEN t[2] ELSE RandomElement(RelOps(AllCmpOps)),
                         Deco(t[3], FALSE, mode), Deco(t[4], FALSE, mode)>>
      [] OTHER -> <<k, 0, Deco(t[3], FALSE, mode), Deco(t[4], FALSE, mode)>>

\* aux: leaf mode (0 mixed leaves and every root spelling; 1 3 4 5 see Leaf; 2 a bare list expression)
SInit ==
    /\ \/ \E s \in {x \in Shapes : x[1] \in RootKindsS} :
            \/ (tree \in RootSp(s) /\ aux = 0)
            \/ (tree = s /\ aux = 1)
            \/ (tree = s /\ aux \in {3, 4, 5, 6} /\ CountOps(s) <= TrickyMaxOps)
       \/ ("ATOM" \in RootKindsS /\ tree \in {<<"LIST", l>> : l \in ListIds} /\ aux = 2)
    /\ phase = "shape"
    /\ todo = <<>> /\ stack = <<>> /\ forest = <<>> /\ ops = 0

Decorate ==
    /\ phase = "shape"
    /\ tree' = IF aux = 2 THEN tree ELSE <<"PAREN", 0, Deco(tree, aux = 0, aux)>>
    /\ phase' = "done"
    /\ UNCHANGED <<todo, stack, forest, ops, aux>>

SNext == Decorate

\* walks: a random well-typed tree in reverse Polish order; aux = number of operator nodes aimed at
UnaryPool(ty) == IF ty = "A" THEN <<"NOT", "NEG", "NEG", "PAREN", "PAREN", "PAREN">> ELSE <<"NOT", "PAREN", "PAREN">>
BinPool(tl, tr) == IF tl = "A" /\ tr = "A"
                   THEN <<"OR", "AND", "CMP", "CMP", "CMP", "PCT", "ADD", "SUB", "MUL", "DIV", "POW">>
                   ELSE <<"OR", "AND">>

WInit ==
    /\ aux \in 1..MaxWalkOps
    /\ forest = <<>> /\ ops = 0 /\ phase = "grow"
    /\ tree = <<"ATOM", 0>> /\ todo = <<>> /\ stack = <<>>

PushLeaf ==
    /\ Len(forest) < 5
    /\ Len(forest) <= aux - ops                  \* enough binary operators left to join everything
    /\ forest' = Append(forest, Leaf(0))
    /\ UNCHANGED <<ops>>

\* (a bound variable is evaluated once; a LET definition containing RandomElement is drawn again at every use)
ApplyUnary ==
    /\ Len(forest) >= 1
    /\ aux - ops - 1 >= Len(forest) - 1
    /\ LET n == Len(forest)
           pool == UnaryPool(TypeOf(forest[n]))
       IN  \E k \in {pool[RandomElement(1..Len(pool))]} :
             \E a \in {IF k = "NOT" THEN RandomElement(AllLogSp) ELSE 0} :
               forest' = [forest EXCEPT ![n] = <<k, a, forest[n]>>]
    /\ ops' = ops + 1

ApplyBinary ==
    /\ Len(forest) >= 2
    /\ ops < aux
    /\ LET n == Len(forest)
           pool == BinPool(TypeOf(forest[n - 1]), TypeOf(forest[n]))
       IN  \E k0 \in {pool[RandomElement(1..Len(pool))]} :
             \E a \in {IF k0 \in Logic THEN RandomElement(AllLogSp)
                        ELSE IF k0 = "CMP" THEN RandomElement(RelOps(AllCmpOps))
                        ELSE IF k0 = "PCT" THEN PctOp ELSE 0} :
               forest' = Append(SubSeq(forest, 1, n - 2),
                                <<IF k0 = "PCT" THEN "CMP" ELSE k0, a, forest[n - 1], forest[n]>>)
    /\ ops' = ops + 1

FinishWalk ==
    /\ phase = "grow" /\ Len(forest) = 1 /\ ops = aux
    /\ tree' = <<"PAREN", 0, forest[1]>>
    /\ phase' = "done"
    /\ UNCHANGED <<forest, ops, aux, todo, stack>>

WNext == \/ (phase = "grow" /\ (PushLeaf \/ ApplyUnary \/ ApplyBinary) /\ UNCHANGED <<tree, todo, stack, aux, phase>>)
         \/ FinishWalk

\* one line per generated tree: its source tokens and what the mechanism model says is stored
Emit == phase = "done" =>
            PrintT(ToJson([src |-> Src(tree), norm |-> Normal(Src(tree)),
                           ops |-> IF tree[1] = "PAREN" THEN CountOps(tree) - 1 ELSE 0, lm |-> aux]))
=============================================================================
