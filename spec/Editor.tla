------------------------------- MODULE Editor -------------------------------
(***************************************************************************)
(* Edit histories over a Mapfile dictionary through the dict API (C03):    *)
(* after a document has been built and loaded, the caller sets / replaces  *)
(* / deletes keywords, appends, removes and reorders child objects,        *)
(* assigns objects parsed from snippets and reads missing keys (which      *)
(* auto-creates an empty list for object-list keys and an empty dict       *)
(* otherwise).  After every edit the spec states what dumps must do:       *)
(* write exactly the line events of the edited dict, or refuse.            *)
(***************************************************************************)
EXTENDS Writer

CONSTANT MaxEdits

VARIABLES cur, nedits

evars == <<stack, hist, done, target, cur, nedits>>

-----------------------------------------------------------------------------
(* paths to block dicts: Seq(<<key, index>>), index 0 = singleton child    *)

RECURSIVE BlockPaths(_)
BlockPaths(d) ==
    {<<>>} \cup UNION {
        LET k == d.items[i][1]  v == d.items[i][2] IN
        IF IsBlockDict(v) THEN {<<<<k, 0>>>> \o p : p \in BlockPaths(v)}
        ELSE IF IsBlockList(v) THEN UNION {{<<<<k, e>>>> \o p : p \in BlockPaths(v.elems[e])} : e \in 1..Len(v.elems)}
        ELSE {} : i \in 1..Len(d.items)}

RECURSIVE GetAt(_, _)
GetAt(d, p) ==
    IF Len(p) = 0 THEN d
    ELSE LET v == Get(d.items, p[1][1]) IN
         GetAt(IF p[1][2] = 0 THEN v ELSE v.elems[p[1][2]], Tail(p))

RECURSIVE SetAt(_, _, _)
SetAt(d, p, nd) ==
    IF Len(p) = 0 THEN nd
    ELSE LET k == p[1][1]  e == p[1][2]  i == Idx(d.items, k)  v == d.items[i][2] IN
         IF e = 0 THEN [d EXCEPT !.items[i] = <<k, SetAt(v, Tail(p), nd)>>]
         ELSE [d EXCEPT !.items[i] = <<k, [v EXCEPT !.elems[e] = SetAt(v.elems[e], Tail(p), nd)]>>]

WithItems(b, items) == [b EXCEPT !.items = items]

DelKeyOf(items, k) == SelectSeq(items, LAMBDA kv : kv[1] # k)

RECURSIVE Reverse(_)
Reverse(s) == IF Len(s) = 0 THEN <<>> ELSE Append(Reverse(Tail(s)), Head(s))

RemoveAt(s, i) == SubSeq(s, 1, i - 1) \o SubSeq(s, i + 1, Len(s))

-----------------------------------------------------------------------------
Outcome(d) == IF Unprintable(d) THEN [refuse |-> TRUE, events |-> <<>>]
              ELSE [refuse |-> FALSE, events |-> Events(d, 0, FALSE)]

Commit(op, nd) ==
    /\ cur' = nd
    /\ nedits' = nedits + 1
    /\ hist' = Append(hist, [a |-> "edit", op |-> op, out |-> Outcome(nd), post |-> nd])
    /\ UNCHANGED <<stack, done, target>>

\* d[p][key] = value      (replace keeps the position, new key goes last)
SetAttr ==
    \E p \in Pick(BlockPaths(cur)) :
      LET b == GetAt(cur, p) IN
      /\ AttrSlots(b.type) # {}
      /\ \E s \in Pick(AttrSlots(b.type)) : \E v \in Pick(ValuesOf(s)), kc \in Pick(Cases) :
           Commit([k |-> "set", path |-> p, key |-> s[2], kc |-> kc, val |-> v, pv |-> ValOf(v)],
                  SetAt(cur, p, WithItems(b, SetKeepPos(b.items, s[2], ValOf(v)))))

\* del d[p][key]     any existing key: keyword, child object(s), key-value block
DelKey ==
    \E p \in Pick(BlockPaths(cur)) :
      LET b == GetAt(cur, p) IN
      /\ Len(b.items) > 0
      /\ \E i \in Pick(1..Len(b.items)), kc \in Pick(Cases) :
           Commit([k |-> "del", path |-> p, key |-> b.items[i][1], kc |-> kc],
                  SetAt(cur, p, WithItems(b, DelKeyOf(b.items, b.items[i][1]))))

\* d[p][plural].append(loads(snippet))  /  d[p][type] = loads(snippet)
\* reading d[p][plural] when it is missing auto-creates the list (ordereddict.py)
Snippet(type, s, v) == [py |-> "dict", type |-> type, items |-> <<<<s[2], ValOf(v)>>>>]
AddChild ==
    \E p \in Pick(BlockPaths(cur)) :
      LET b == GetAt(cur, p) IN
      /\ Len(p) < MaxDepth
      /\ BlockSlots(b.type) # {}
      /\ \E bs \in Pick(BlockSlots(b.type)) :
           /\ ~(bs[2] = "symbol" /\ bs[4] = "symbol")
           /\ AttrSlots(bs[4]) # {}
           /\ \E s \in Pick(AttrSlots(bs[4])) : \E v \in Pick(ValuesOf(s)) :
                Commit([k |-> "addchild", path |-> p, type |-> bs[4], single |-> bs[4] \in Singletons,
                        key |-> s[2], val |-> v, pv |-> ValOf(v)],
                       SetAt(cur, p, WithItems(b, PutBlock(b.items, bs[4], Snippet(bs[4], s, v).items))))

ListKeys(b) == {i \in 1..Len(b.items) : IsBlockList(b.items[i][2])}

\* del d[p][listkey][i]
RemoveChild ==
    \E p \in Pick(BlockPaths(cur)) :
      LET b == GetAt(cur, p) IN
      /\ ListKeys(b) # {}
      /\ \E i \in Pick(ListKeys(b)) :
          LET k == b.items[i][1]  v == b.items[i][2] IN
          \E e \in Pick(1..Len(v.elems)) :
            Commit([k |-> "removechild", path |-> p, key |-> k, index |-> e],
                   SetAt(cur, p, WithItems(b, [b.items EXCEPT ![i] = <<k, List(RemoveAt(v.elems, e))>>])))

\* d[p][listkey].append(d[p][listkey][e]) : the SAME object a second time (no copy).  What the dictionary says is two
\* objects; only as the last edit of a history (a later edit through one path would show through the other)
AliasChild ==
    /\ nedits = MaxEdits - 1
    /\ \E p \in Pick(BlockPaths(cur)) :
      LET b == GetAt(cur, p) IN
      /\ ListKeys(b) # {}
      /\ \E i \in Pick(ListKeys(b)) :
          LET k == b.items[i][1]  v == b.items[i][2] IN
          \E e \in Pick(1..Len(v.elems)) :
            Commit([k |-> "aliaschild", path |-> p, key |-> k, index |-> e],
                   SetAt(cur, p, WithItems(b, [b.items EXCEPT ![i] = <<k, List(Append(v.elems, v.elems[e]))>>])))

\* d[p][listkey].reverse()
ReorderChildren ==
    \E p \in Pick(BlockPaths(cur)) :
      LET b == GetAt(cur, p) IN
      /\ ListKeys(b) # {}
      /\ \E i \in Pick(ListKeys(b)) :
          LET k == b.items[i][1]  v == b.items[i][2] IN
          /\ Len(v.elems) > 1
          /\ Commit([k |-> "reverse", path |-> p, key |-> k],
                    SetAt(cur, p, WithItems(b, [b.items EXCEPT ![i] = <<k, List(Reverse(v.elems))>>])))

\* x = d[p][key] for a key that is absent: the dict stores [] for an object-list key, {} otherwise
MissingKeys(b) == {s[2] : s \in {x \in SlotsBy[b.type] : ~HasKey(b.items, x[2])
                                                   /\ x[3] \notin {"projection", "points", "pointslist", "config"}}}
ReadMissing ==
    \E p \in Pick(BlockPaths(cur)) :
      LET b == GetAt(cur, p) IN
      /\ MissingKeys(b) # {}
      /\ \E k \in Pick(MissingKeys(b)), kc \in Pick(Cases) :
           Commit([k |-> "readmissing", path |-> p, key |-> k, kc |-> kc],
                  SetAt(cur, p, WithItems(b, Append(b.items,
                        <<k, IF k \in ObjectListKeys \cup RepeatedKeys THEN List(<<>>)   \* nothing to write
                             ELSE IF k \in KVTypes THEN [py |-> "dict", type |-> k, items |-> <<>>]   \* empty METADATA ... END
                             ELSE [py |-> "dict", type |-> "", items |-> <<>>]>>))))

\* d[p]["__verif__"] = value : keys of the form __name__ are never printed
HiddenNames == {"__verif__", "__layer_id__", "__rule2__", "__X__", "__a.b__"}
SetHidden ==
    \E p \in Pick(BlockPaths(cur)), n \in Pick(HiddenNames) :
      Commit([k |-> "sethidden", path |-> p, key |-> n], cur)
\* ... also inside a key-value block: d[p]["metadata"]["__origin_file__"] = value
KVKeysOf(b) == {i \in 1..Len(b.items) : b.items[i][2].py = "dict" /\ b.items[i][2].type \in KVTypes}
SetHiddenKV ==
    \E p \in Pick(BlockPaths(cur)) :
      LET b == GetAt(cur, p) IN
      /\ KVKeysOf(b) # {}
      /\ \E i \in Pick(KVKeysOf(b)), n \in Pick(HiddenNames) :
           Commit([k |-> "sethiddenkv", path |-> p, kv |-> b.items[i][1], key |-> n], cur)

\* mappyfile.update(d, patch) with a patch that reaches the block at path p (None placeholders skip the
\* earlier list items), sets / replaces one keyword there and deletes another one with the '__delete__' marker.
\* Contract (C18): replace keeps the position, a new key goes last, the marked key disappears, all else untouched.
UpdatePatch ==
    \E p \in Pick(BlockPaths(cur)) :
      LET b == GetAt(cur, p) IN
      /\ AttrSlots(b.type) # {}
      /\ \E s \in Pick(AttrSlots(b.type)) : \E v \in Pick(ValuesOf(s)), kc \in Pick(Cases) :
          \E di \in Pick(0..Len(b.items)) :
           LET delkey == IF di = 0 \/ b.items[di][1] = s[2] THEN "" ELSE b.items[di][1]
               after  == SetKeepPos(IF delkey = "" THEN b.items ELSE DelKeyOf(b.items, delkey), s[2], ValOf(v))
           IN  /\ v.sh \notin {"bool"} \/ TRUE
               /\ Commit([k |-> "update", path |-> p, key |-> s[2], kc |-> kc, val |-> v, pv |-> ValOf(v), delkey |-> delkey],
                         SetAt(cur, p, WithItems(b, after)))

\* d = loads(dumps(d)): the printed text is read back and editing continues on the re-loaded dictionary.
\* By C01 the only change is the letter case of bare enumerated words (the printer writes them in upper case).
RECURSIVE Reloaded(_)
RECURSIVE ReloadedVal(_, _, _)
ReloadedVal(t, k, v) ==
    IF v.py = "dict" THEN (IF v.type = "" \/ v.type \in KVTypes THEN v ELSE Reloaded(v))
    ELSE IF v.py = "list" THEN [v EXCEPT !.elems = [i \in 1..Len(v.elems) |-> ReloadedVal(t, k, v.elems[i])]]
    ELSE IF v.py = "str" /\ v.of.sh \in {"enum", "auto"} /\ Lex(t, k, v) = "B" THEN [v EXCEPT !.of.cs = "U"]
    ELSE v
\* values that are written as nothing (an empty list of objects / repeated keywords, an empty CONFIG) do not come back
WritesNothing(v) == (v.py = "list" /\ Len(v.elems) = 0) \/ (v.py = "dict" /\ v.type = "" /\ Len(v.items) = 0)
Reloaded(d) ==
    LET kept == SelectSeq(d.items, LAMBDA kv : ~WritesNothing(kv[2]))
    IN  [d EXCEPT !.items = [i \in 1..Len(kept) |-> <<kept[i][1], ReloadedVal(d.type, kept[i][1], kept[i][2])>>]]

Reload ==
    /\ ~Unprintable(cur)
    /\ Commit([k |-> "reload"], Reloaded(cur))

Edit == done /\ nedits < MaxEdits /\ (Reload \/ UpdatePatch \/ SetHidden \/ SetHiddenKV \/ SetAttr \/ DelKey \/ AddChild \/ RemoveChild \/ ReorderChildren \/ AliasChild \/ ReadMissing)

EFinish ==
    /\ ~done
    /\ Steps >= target
    /\ done' = TRUE
    /\ LET d == CloseAll(stack) IN
       /\ hist' = Append(hist, [a |-> "finish", post |-> d, events |-> Events(d, 0, FALSE)])
       /\ cur' = d
    /\ UNCHANGED <<stack, target, nedits>>

EInit == Init /\ cur = <<>> /\ nedits = 0

ENext == (Build /\ UNCHANGED <<cur, nedits>>) \/ EFinish \/ Edit

\* emitted when the edit budget is used up
EEmit == (done /\ nedits = MaxEdits) => PrintT(ToJson(hist))

-----------------------------------------------------------------------------
(* model-level properties of the contract under edits                      *)

\* whatever the history, a printable dict is written as a balanced sequence of lines
EditBalanced == (done /\ ~Unprintable(cur)) => Balanced(Events(cur, 0, FALSE), <<>>)
\* an unprintable value can only come from reading a missing key
RefusalOnlyAfterReadMissing ==
    (done /\ Unprintable(cur)) => \E i \in 1..Len(hist) : hist[i].a = "edit" /\ hist[i].op.k = "readmissing"
=============================================================================
