------------------------------ MODULE Frontend ------------------------------
(***************************************************************************)
(* File, stream and command-line front ends of mappyfile (property C20).   *)
(*                                                                         *)
(* State: a file system  fs : path -> content,  the in-memory dictionary   *)
(* mem, the result res of the last read, the text buffers buf written by   *)
(* dumps / dump(StringIO), and the observation obs of the last command.    *)
(*                                                                         *)
(* Content is abstract.  A Mapfile text is                                 *)
(*   [k |-> "map", doc, units, inc, com, lay, nerr]                        *)
(* doc   : the document id                                                 *)
(* units : for every string value of the document the encoded form of its  *)
(*         characters; a string value is the sequence of the classes of    *)
(*         its maximal runs of characters (ASCII, control, Latin-1, BMP,   *)
(*         astral, LF, CR), an encoded unit is [c |-> class, w |-> bytes]  *)
(* inc   : "na" | "directive" | "inlined"     (INCLUDE handling)           *)
(* com   : "absent" | "present"               (comments)                   *)
(* lay   : the layout the text was printed with (or "source")              *)
(* nerr  : version -> number of validation messages the document gets      *)
(* Other contents: [k |-> "garbage"] (does not parse), [k |-> "json", v]   *)
(* (exported schema), [k |-> "junk"] (some older file), [k |-> "none"].    *)
(*                                                                         *)
(* Scenarios (one per behaviour, chosen in Init):                          *)
(*   "validate" Env writes 1..MaxFiles files; CliValidate(files, v, how)   *)
(*   "format"   Env writes a document; CliFormat(args) with OUT another    *)
(*              file, IN itself or a symbolic link to IN; the same through *)
(*              the API (Open, Save) on a copy                             *)
(*   "schema"   CliSchema(v); the same through the API                     *)
(*   "api"      Gen writes a generated document T; Loads(T); Open / Load / *)
(*              LoadRaw of T; Dumps / Save / Dump(StringIO) / Dump(file);  *)
(*              Loads / Open / Load / LoadRaw of what was written; then    *)
(*              Rewrites times: the values change (same encoded length, or *)
(*              other kinds), Save to the SAME path, Open / Load / LoadRaw *)
(*                                                                         *)
(* The constants SaveCodec, Newlines, ExitRule, RootSchema, DumpOptions,    *)
(* FormatOrder and OpenCache select the contract ("utf8", "verbatim",      *)
(* "contract", "own", "same", "read-first", "none") or a deliberately      *)
(* broken variant that                                                     *)
(* the invariants must reject (non-vacuity; two of them are the behaviour  *)
(* of the unchanged implementation).                                       *)
(***************************************************************************)
EXTENDS Naturals, Sequences, FiniteSets, TLC, Json

CONSTANTS
    Scenarios,     \* subset of {"validate", "format", "schema", "api"}
    Mode,          \* "all": every choice enumerated | "walk": choices drawn at random (simulation)
    ErrCounts,     \* message counts of the invalid files, e.g. {1, 2, 255, 256, 257, 300}
    MaxFiles,      \* a validate call names 1..MaxFiles files
    StrIds,        \* 1..N: the string values of a generated document
    Layouts,       \* "one" | "some" | "all": how many print layouts the api scenario enumerates
    SaveCodec,     \* "utf8" (contract) | "latin1" (broken variant of save)
    Newlines,      \* "verbatim" (contract) | "universal" (open()/text-mode file objects translate CR, CRLF -> LF)
    ExitRule,      \* "contract" | "raw" (sys.exit(problems)) | "skip-unparsed" (parse failures not counted)
    RootSchema,    \* "own" (contract: every root object against the schema of its type) | "map" (always the MAP schema)
    DumpOptions,   \* "same" (contract) | "sc-from-av" (dump mixes up two of its formatting options)
    FormatOrder,   \* "read-first" (contract: format reads IN, then writes OUT) | "truncate-first" (OUT opened for writing first)
    OpenCache,     \* "none" (contract: open reads the file as it is now) | "by-size" (text remembered per path and size)
    Rewrites       \* how often the api scenario changes the values and saves to the same path again

VARIABLES scen, pc, fs, env, mem, res, buf, pend, obs, hist

vars == <<scen, pc, fs, env, mem, res, buf, pend, obs, hist>>

Nothing == [k |-> "nothing"]
NoFile  == [k |-> "none"]
Junk    == [k |-> "junk"]
Garbage == [k |-> "garbage"]
Empty   == [k |-> "empty"]                         \* a file opened for writing and not written yet
Paths   == {"t", "s", "d", "in", "apiin", "out", "api", "f1", "f2", "f3"}

Pick(S) == IF Mode = "walk" THEN {RandomElement(S)} ELSE S

-----------------------------------------------------------------------------
(* Characters                                                              *)

Classes == {"ascii", "ctl", "latin1", "bmp", "astral", "lf", "cr"}

\* the kinds of string values the generator draws from, and their character classes (run by run)
StrKinds == {"ascii", "latin1", "latin1-lead", "cjk", "astral", "astral-trail", "nbsp", "rtl",
             "combining", "nfc-unstable", "bom", "u2028", "nel", "ff", "vt", "tab", "lf-ml", "lone-cr", "crlf-ml", "mixed"}

Chars(kind) ==
    CASE kind = "ascii"        -> <<"ascii">>
      [] kind = "latin1"       -> <<"ascii", "latin1", "ascii">>
      [] kind = "latin1-lead"  -> <<"latin1", "ascii">>
      [] kind = "cjk"          -> <<"ascii", "bmp", "ascii">>
      [] kind = "astral"       -> <<"ascii", "astral", "ascii">>
      [] kind = "astral-trail" -> <<"ascii", "astral">>
      [] kind = "nbsp"         -> <<"ascii", "latin1", "ascii">>          \* U+00A0
      [] kind = "rtl"          -> <<"ascii", "bmp", "ascii", "bmp", "ascii">>
      [] kind = "combining"    -> <<"ascii", "bmp", "ascii", "bmp", "ascii">>
      [] kind = "nfc-unstable" -> <<"ascii", "bmp", "ascii">>             \* changed by Unicode normalisation: U+212B, jamo, U+F900
      [] kind = "bom"          -> <<"ascii", "bmp", "ascii">>             \* U+FEFF inside the value
      [] kind = "u2028"        -> <<"ascii", "bmp", "ascii">>             \* LINE / PARAGRAPH SEPARATOR
      [] kind = "nel"          -> <<"ascii", "latin1", "ascii">>          \* U+0085
      [] kind = "ff"           -> <<"ascii", "ctl", "ascii">>
      [] kind = "vt"           -> <<"ascii", "ctl", "ascii">>
      [] kind = "tab"          -> <<"ascii", "ctl", "ascii">>
      [] kind = "lf-ml"        -> <<"ascii", "lf", "ascii">>
      [] kind = "lone-cr"      -> <<"ascii", "cr", "ascii">>
      [] kind = "crlf-ml"      -> <<"ascii", "cr", "lf", "ascii">>
      [] kind = "mixed"        -> <<"latin1", "bmp", "astral", "ascii">>

Utf8Width(c) == CASE c = "latin1" -> 2 [] c = "bmp" -> 3 [] c = "astral" -> 4 [] OTHER -> 1
\* bytes per character of class c under a codec; 0: the codec cannot encode it
CodecWidth(c, codec) == IF codec = "utf8" THEN Utf8Width(c)
                        ELSE IF c \in {"bmp", "astral"} THEN 0 ELSE 1
Encode(s, codec) == [i \in 1..Len(s) |-> [c |-> s[i], w |-> CodecWidth(s[i], codec)]]
Encodable(s, codec) == \A i \in 1..Len(s) : CodecWidth(s[i], codec) > 0
Utf8OK(u) == \A i \in 1..Len(u) : u[i].w = Utf8Width(u[i].c)     \* the readers decode UTF-8
Decode(u) == [i \in 1..Len(u) |-> u[i].c]

\* Python's universal-newline translation of a text-mode stream
RECURSIVE Univ(_)
Univ(s) == IF s = <<>> THEN <<>>
           ELSE IF Head(s) = "cr"
                THEN IF Len(s) > 1 /\ s[2] = "lf" THEN Univ(Tail(s)) ELSE <<"lf">> \o Univ(Tail(s))
                ELSE <<Head(s)>> \o Univ(Tail(s))

\* which read paths translate line breaks: none under the contract
Translates(op) == Newlines = "universal" /\ op \in {"open", "load"}

-----------------------------------------------------------------------------
(* Documents, texts, files                                                 *)

Versions       == {"7.6", "8.0", "8.2"}
DefaultVersion == "8.2"                              \* of `mappyfile validate`
ResolveVersion(a) == IF a = "default" THEN DefaultVersion ELSE a
ZeroErr == [v \in Versions |-> 0]

\* rev: revision of the values (a later revision may have the same classes and lengths, other characters)
Dict(doc, strs, inc, com, nerr, rev) == [k |-> "dict", doc |-> doc, strs |-> strs, inc |-> inc, com |-> com, nerr |-> nerr, rev |-> rev]

\* the characters PrettyPrinter produces for dictionary d with layout lay (string values verbatim)
StrText(d, lay) == [k |-> "str", doc |-> d.doc, strs |-> d.strs, inc |-> d.inc, com |-> d.com, lay |-> lay, nerr |-> d.nerr,
                    rev |-> d.rev]

\* writing characters through a codec
FileOf(t, codec) ==
    IF \E i \in DOMAIN t.strs : ~Encodable(t.strs[i], codec) THEN [k |-> "partial"]     \* the codec raised
    ELSE [k |-> "map", doc |-> t.doc, units |-> [i \in DOMAIN t.strs |-> Encode(t.strs[i], codec)],
          inc |-> t.inc, com |-> t.com, lay |-> t.lay, nerr |-> t.nerr, rev |-> t.rev]

\* text -> dictionary (string values verbatim; INCLUDE and comment handling by option)
Parse(t, expand, comments) ==
    Dict(t.doc, t.strs,
         IF t.inc = "directive" /\ expand THEN "inlined" ELSE t.inc,
         IF t.com = "present" /\ comments THEN "present" ELSE "absent",
         t.nerr, t.rev)

\* file -> text: UTF-8 decoding, then the line-break handling of the read path (F: the file system read)
ReadFileIn(F, p, op) ==
    LET f == F[p] IN
    IF f.k = "none" THEN [k |-> "error", e |-> "io"]
    ELSE IF f.k # "map" THEN [k |-> "error", e |-> "parse"]
    ELSE IF \E i \in DOMAIN f.units : ~Utf8OK(f.units[i]) THEN [k |-> "error", e |-> "decode"]
    ELSE [k |-> "str", doc |-> f.doc,
          strs |-> [i \in DOMAIN f.units |-> IF Translates(op) THEN Univ(Decode(f.units[i])) ELSE Decode(f.units[i])],
          inc |-> f.inc, com |-> f.com, lay |-> f.lay, nerr |-> f.nerr, rev |-> f.rev]
ReadFile(p, op) == ReadFileIn(fs, p, op)

\* open(path) / load(file object on path): the API functions reading a file
ReadViaIn(F, op, p, expand, comments) ==
    LET t == ReadFileIn(F, p, op) IN IF t.k = "error" THEN t ELSE Parse(t, expand, comments)
ReadVia(op, p, expand, comments) == ReadViaIn(fs, op, p, expand, comments)

\* save(d, path, lay): dumps through the save codec
SaveTo(d, lay) == FileOf(StrText(d, lay), SaveCodec)

PostOf(r) == IF r.k = "dict" THEN [ok |-> TRUE, strs |-> r.strs, inc |-> r.inc, com |-> r.com, rev |-> r.rev]
             ELSE [ok |-> FALSE, strs |-> <<>>, inc |-> "na", com |-> "absent", rev |-> 0]
Describe(f) == IF f.k = "map" THEN [written |-> TRUE,
                                    enc |-> IF \A i \in DOMAIN f.units : Utf8OK(f.units[i]) THEN "utf8" ELSE "other",
                                    strs |-> [i \in DOMAIN f.units |-> Decode(f.units[i])], lay |-> f.lay, rev |-> f.rev]
               ELSE [written |-> FALSE, enc |-> "none", strs |-> <<>>, lay |-> "none", rev |-> 0]
DescribeText(t) == [written |-> TRUE, enc |-> "chars", strs |-> t.strs, lay |-> t.lay, rev |-> t.rev]

-----------------------------------------------------------------------------
(* Scenario "validate"                                                     *)

\* files rooted at MAP ...
MapKinds == {[k |-> "valid", n |-> 0], [k |-> "unparseable", n |-> 0], [k |-> "versioned", n |-> 1]}
            \cup {[k |-> "invalid", n |-> c] : c \in ErrCounts}
\* ... and partial Mapfiles: one root object that is not a MAP (n messages under the schema of its own
\* type), or two root LAYERs (the dictionary is a list; n messages in all)
PartialRoots == {"layer", "class", "web", "style"}
PartialKinds == {[k |-> "partial", root |-> r, n |-> c] : r \in PartialRoots, c \in {0, 1}}
                \cup {[k |-> "multiroot", n |-> c] : c \in {0, 2}}
FileKinds == MapKinds \cup PartialKinds
IsPartial(kind) == kind.k \in {"partial", "multiroot"}
\* number of root objects that are not MAPs
ForeignRoots(kind) == CASE kind.k = "partial" -> 1 [] kind.k = "multiroot" -> 2 [] OTHER -> 0

\* messages of a file kind under a version: "versioned" uses a LAYER keyword removed after 7.6
KindErr(kind, v) == CASE kind.k \in {"invalid", "partial", "multiroot"} -> kind.n
                      [] kind.k = "versioned" -> IF v = "7.6" THEN 0 ELSE kind.n
                      [] OTHER -> 0
ContentOf(kind) == IF kind.k = "unparseable" THEN Garbage
                   ELSE [k |-> "map", doc |-> kind.k, units |-> << Encode(<<"ascii">>, "utf8") >>, inc |-> "na",
                         com |-> "absent", lay |-> "source", nerr |-> [v \in Versions |-> KindErr(kind, v)],
                         foreign |-> ForeignRoots(kind)]

FilePaths == <<"f1", "f2", "f3">>

ValEnv ==
    /\ pc = "env" /\ scen = "validate"
    /\ \E n \in 1..MaxFiles : \E kinds \in [1..n -> FileKinds] :
         /\ ((\E i \in 1..n : IsPartial(kinds[i])) => n <= 2)         \* (bound: partial files in sets of one or two)
         /\ fs' = [p \in Paths |-> IF \E i \in 1..n : FilePaths[i] = p
                                   THEN ContentOf(kinds[CHOOSE i \in 1..n : FilePaths[i] = p]) ELSE fs[p]]
         /\ env' = [files |-> [i \in 1..n |-> FilePaths[i]], kinds |-> kinds]
         /\ hist' = Append(hist, [a |-> "files", kinds |-> kinds,          \* nerr: what the fixtures must satisfy
                                  nerr |-> [i \in 1..n |-> [v \in Versions |-> KindErr(kinds[i], v)]]])
    /\ pc' = "cli"
    /\ UNCHANGED <<scen, mem, res, buf, pend, obs>>

RECURSIVE SumSeq(_)
SumSeq(s) == IF s = <<>> THEN 0 ELSE Head(s) + SumSeq(Tail(s))

Parses(f) == f.k = "map"
\* mappyfile.validate(d, v): the messages of every root object under the schema of its own type
ApiMessages(f, v) == f.nerr[v]
\* the messages the command prints are the API's; under the broken variant every root that is not a MAP
\* is held against the MAP schema and collects messages of its own (unknown keyword, missing ones)
CliMessages(f, v) == IF RootSchema = "own" \/ ~("foreign" \in DOMAIN f) THEN ApiMessages(f, v)
                     ELSE ApiMessages(f, v) + 2 * f.foreign
\* what `validate` prints for one file: one line per message, or one line saying it is fine / did not parse
FileReport(f, v) == IF ~Parses(f) THEN [r |-> "parsefail", n |-> 1]
                    ELSE IF ApiMessages(f, v) = 0 THEN [r |-> "ok", n |-> 1]
                    ELSE [r |-> "messages", n |-> ApiMessages(f, v)]
FileProblems(f, v) == IF ~Parses(f) THEN (IF ExitRule = "skip-unparsed" THEN 0 ELSE 1) ELSE CliMessages(f, v)

AllGood(files, v)  == \A i \in 1..Len(files) : Parses(fs[files[i]]) /\ fs[files[i]].nerr[v] = 0
Problems(files, v) == SumSeq([i \in 1..Len(files) |-> FileProblems(fs[files[i]], v)])

\* the value the command hands to exit(), and what the operating system makes of it
ExitArg(p)  == IF ExitRule = "contract" THEN (IF p <= 255 THEN p ELSE 255) ELSE p
OSStatus(a) == a % 256

\* the exit rule of the property (the expectation sent to the replayer):
\* 0 iff all good; otherwise non-zero, and exactly the number of problems when 1 <= problems <= 255
ExitExpect(files, v) ==
    LET p == SumSeq([i \in 1..Len(files) |-> IF Parses(fs[files[i]]) THEN fs[files[i]].nerr[v] ELSE 1])
    IN  [zero |-> AllGood(files, v), exact |-> IF p >= 1 /\ p <= 255 THEN p ELSE 0, problems |-> p]

CliValidate(files, varg, how) ==
    LET v   == ResolveVersion(varg)
        per == [i \in 1..Len(files) |-> FileReport(fs[files[i]], v)]
        msgs == SumSeq([i \in 1..Len(files) |-> IF per[i].r = "messages" THEN per[i].n ELSE 0])
        lines == SumSeq([i \in 1..Len(files) |-> per[i].n]) + 1                 \* + the summary line
        okc  == Cardinality({i \in 1..Len(files) : per[i].r = "ok"})
        ex   == ExitExpect(files, v)
    IN  /\ obs' = [k |-> "validate", status |-> OSStatus(ExitArg(Problems(files, v))), allgood |-> AllGood(files, v),
                   problems |-> ex.problems, lines |-> lines, msgs |-> msgs, files |-> Len(files), expect |-> ex]
        /\ hist' = Append(hist, [a |-> "validate", version |-> varg, how |-> how,
                                 post |-> [zero |-> ex.zero, exact |-> ex.exact, problems |-> ex.problems, perfile |-> per,
                                           msgs |-> msgs, lines |-> lines, total |-> Len(files), okcount |-> okc]])

VersionArgs == Versions \cup {"default"}

ValCli ==
    /\ pc = "cli" /\ scen = "validate"
    /\ \E varg \in VersionArgs, how \in {"list", "glob"} :
         /\ (how = "glob" => varg = "default")
         /\ CliValidate(env.files, varg, how)
    /\ pc' = "done"
    /\ UNCHANGED <<scen, fs, env, mem, res, buf, pend>>

-----------------------------------------------------------------------------
(* Scenario "format"                                                       *)

FmtDocs == {"plain", "unicode", "include", "comments"}
DocStrs(d) == IF d = "unicode" THEN <<Chars("mixed"), Chars("cjk"), Chars("astral"), Chars("lf-ml")>> ELSE <<Chars("ascii")>>
SourceText(d) == [k |-> "str", doc |-> d, strs |-> DocStrs(d),
                  inc |-> IF d = "include" THEN "directive" ELSE "na",
                  com |-> IF d = "comments" THEN "present" ELSE "absent", lay |-> "source", nerr |-> ZeroErr, rev |-> 1]

IndentArgs  == {"default", "0", "1", "2", "8"}
SpacerArgs  == {"default", "space", "tab-escaped", "tab-literal"}
QuoteArgs   == {"default", "double", "single"}
NlArgs      == {"default", "lf-escaped", "crlf-escaped"}
ExpandArgs  == {"default", "expand", "no-expand"}
CommentArgs == {"default", "comments", "no-comments"}

\* the API call a command line stands for
ApiIndent(a) == CASE a = "default" -> 4 [] a = "0" -> 0 [] a = "1" -> 1 [] a = "2" -> 2 [] a = "8" -> 8
ApiLay(args) == [indent |-> ApiIndent(args.indent),
                 spacer |-> IF args.spacer \in {"default", "space"} THEN "space" ELSE "tab",
                 quote  |-> IF args.quote = "single" THEN "single" ELSE "double",
                 nl     |-> IF args.nl = "crlf-escaped" THEN "crlf" ELSE "lf",
                 ec |-> FALSE, av |-> FALSE, sc |-> FALSE]     \* the command has no switch for these: API defaults
ApiExpand(a)   == a # "no-expand"
ApiComments(a) == a = "comments"

\* what OUT names: another file, IN itself, or a symbolic link to IN (formatting in place)
Targets == {"other", "same", "symlink"}
OutFile(tg)    == IF tg = "other" THEN "out" ELSE "in"         \* the file the command writes
ApiOutFile(tg) == IF tg = "other" THEN "api" ELSE "apiin"      \* the file the API call on the copy writes

FmtEnv ==
    /\ pc = "env" /\ scen = "format"
    /\ \E d \in FmtDocs, pre \in BOOLEAN, tg \in Targets :
         /\ (pre => d = "plain" /\ tg = "other")              \* an existing output file is replaced
         /\ fs' = [fs EXCEPT !["in"] = FileOf(SourceText(d), "utf8"), !["apiin"] = FileOf(SourceText(d), "utf8"),
                             !["out"] = IF pre THEN Junk ELSE NoFile, !["api"] = IF pre THEN Junk ELSE NoFile]
         /\ env' = [doc |-> d, pre |-> pre, target |-> tg]
         /\ hist' = Append(hist, [a |-> "doc", doc |-> d, pre |-> pre, target |-> tg])
    /\ pc' = "cli"
    /\ UNCHANGED <<scen, mem, res, buf, pend, obs>>

\* `mappyfile format IN OUT args` is save(open(IN, expand, comments), OUT, layout): IN is read completely
\* before OUT is opened for writing (the broken variant opens - and thereby empties - OUT first)
CliFormat(args) ==
    LET o   == OutFile(env.target)
        fs0 == IF FormatOrder = "truncate-first" THEN [fs EXCEPT ![o] = Empty] ELSE fs
        d   == ReadViaIn(fs0, "open", "in", ApiExpand(args.expand), ApiComments(args.comments)) IN
    /\ fs' = [fs0 EXCEPT ![o] = IF d.k = "dict" THEN SaveTo(d, ApiLay(args)) ELSE @]
    /\ mem' = d
    /\ obs' = [k |-> "format", status |-> IF d.k = "dict" THEN 0 ELSE 1]
    /\ hist' = Append(hist, [a |-> "format", args |-> args,
                             post |-> [api |-> [expand |-> ApiExpand(args.expand), comments |-> ApiComments(args.comments),
                                                lay |-> ApiLay(args)],
                                       inc |-> PostOf(d).inc, com |-> PostOf(d).com, strs |-> PostOf(d).strs,
                                       status |-> IF d.k = "dict" THEN 0 ELSE 1]])

FmtCli ==
    /\ pc = "cli" /\ scen = "format"
    /\ \E i \in IndentArgs, s \in SpacerArgs, q \in QuoteArgs, n \in NlArgs, e \in ExpandArgs, c \in CommentArgs :
         /\ (env.doc # "include" => e = "default")             \* the options only matter where there is something to act on
         /\ (env.doc # "comments" => c = "default")
         /\ (env.target # "other" => /\ i \in {"default", "2"} /\ s = "default"       \* (bound: a sub-grid of the layouts in place)
                                     /\ q \in {"default", "single"} /\ n \in {"default", "crlf-escaped"})
         /\ CliFormat([indent |-> i, spacer |-> s, quote |-> q, nl |-> n, expand |-> e, comments |-> c])
    /\ pc' = "api"
    /\ UNCHANGED <<scen, env, res, buf, pend>>

\* the same through the API, with the options the command line stands for
FmtApi ==
    /\ pc = "api" /\ scen = "format"
    /\ LET call == hist[Len(hist)].post.api
           d    == ReadVia("open", "apiin", call.expand, call.comments)
       IN  /\ fs' = [fs EXCEPT ![ApiOutFile(env.target)] = IF d.k = "dict" THEN SaveTo(d, call.lay) ELSE @]
           /\ res' = d
    /\ pc' = "done"
    /\ UNCHANGED <<scen, env, mem, buf, pend, obs, hist>>

-----------------------------------------------------------------------------
(* Scenario "schema"                                                       *)

SchemaArgs == Versions \cup {"none"}

SchEnv ==
    /\ pc = "env" /\ scen = "schema"
    /\ \E pre \in BOOLEAN :
         /\ fs' = [fs EXCEPT !["out"] = IF pre THEN Junk ELSE NoFile]
         /\ env' = [pre |-> pre]
         /\ hist' = Append(hist, [a |-> "schema-env", pre |-> pre])
    /\ pc' = "cli"
    /\ UNCHANGED <<scen, mem, res, buf, pend, obs>>

\* `mappyfile schema OUT --version V` writes the JSON text of get_versioned_schema(V)
SchCli ==
    /\ pc = "cli" /\ scen = "schema"
    /\ \E v \in SchemaArgs :
         /\ fs' = [fs EXCEPT !["out"] = [k |-> "json", v |-> v]]
         /\ obs' = [k |-> "schema", status |-> 0]
         /\ hist' = Append(hist, [a |-> "schema", version |-> v, post |-> [api |-> v, status |-> 0]])
    /\ pc' = "api"
    /\ UNCHANGED <<scen, env, mem, res, buf, pend>>

SchApi ==
    /\ pc = "api" /\ scen = "schema"
    /\ fs' = [fs EXCEPT !["api"] = [k |-> "json", v |-> hist[Len(hist)].post.api]]
    /\ pc' = "done"
    /\ UNCHANGED <<scen, env, mem, res, buf, pend, obs, hist>>

-----------------------------------------------------------------------------
(* Scenario "api"                                                          *)

\* ec: end_comment, av: align_values, sc: separate_complex_types (blocks printed after the simple keywords)
LayAll  == [indent : {0, 1, 2, 4, 8}, spacer : {"space", "tab"}, quote : {"double", "single"}, nl : {"lf", "crlf"},
            ec : BOOLEAN, av : BOOLEAN, sc : BOOLEAN]
LayDefault == [indent |-> 4, spacer |-> "space", quote |-> "double", nl |-> "lf", ec |-> FALSE, av |-> FALSE, sc |-> FALSE]
\* (operators with an argument: TLC evaluates constant-level definitions once, and a draw must be fresh per behaviour)
LayChoices(h) == IF Mode = "walk"
              THEN {[indent |-> RandomElement({0, 1, 2, 4, 8}), spacer |-> RandomElement({"space", "tab"}),
                     quote |-> RandomElement({"double", "single"}), nl |-> RandomElement({"lf", "crlf"}),
                     ec |-> RandomElement(BOOLEAN), av |-> RandomElement(BOOLEAN), sc |-> RandomElement(BOOLEAN)]}
              ELSE IF Layouts = "one" THEN {LayDefault}
              ELSE IF Layouts = "some" THEN {l \in LayAll : l.indent = 4 /\ l.spacer = "space"}
              ELSE LayAll
KindChoices(h) == IF Mode = "walk" THEN {[i \in StrIds |-> RandomElement(StrKinds)]} ELSE [StrIds -> StrKinds]

Readers == {"open", "load", "loadraw"}            \* on a path; "loads" reads a string

\* open(path) reads the file as it is at the time of the call.  The broken variant remembers the text it
\* read per path and serves it again while the size of the file is the same.
RECURSIVE Bytes(_)
Bytes(u) == IF u = <<>> THEN 0 ELSE Head(u).w + Bytes(Tail(u))
RECURSIVE SumOver(_)
SumOver(us) == IF us = <<>> THEN 0 ELSE Bytes(Head(us)) + SumOver(Tail(us))
SizeOf(f) == IF f.k = "map" THEN SumOver(f.units) ELSE 0
CacheHit(p) == OpenCache = "by-size" /\ buf.cache.k = "entry" /\ buf.cache.path = p /\ buf.cache.size = SizeOf(fs[p])
ReadOp(op, p) == IF op = "open" /\ CacheHit(p) THEN Parse(buf.cache.text, FALSE, FALSE) ELSE ReadVia(op, p, FALSE, FALSE)
CacheAfter(op, p) == IF op = "open" /\ OpenCache = "by-size" /\ ~CacheHit(p) /\ ReadFile(p, op).k = "str"
                     THEN [k |-> "entry", path |-> p, size |-> SizeOf(fs[p]), text |-> ReadFile(p, op)] ELSE buf.cache
Writers == {"dumps", "save", "dump-sio", "dump-file"}

\* the order of independent calls is free in a walk, fixed when everything is enumerated
NextOps(S) == IF Mode = "walk" THEN {RandomElement(S)} ELSE {CHOOSE x \in S : TRUE}

ApiGen ==
    /\ pc = "env" /\ scen = "api"
    /\ \E kinds \in KindChoices(hist), lay \in LayChoices(hist) :
         LET src == [k |-> "str", doc |-> "generated", strs |-> [i \in StrIds |-> Chars(kinds[i])],
                     inc |-> "na", com |-> "absent", lay |-> "source", nerr |-> ZeroErr, rev |-> 1]
         IN  /\ fs' = [fs EXCEPT !["t"] = FileOf(src, "utf8")]        \* the generator writes T as UTF-8 bytes
             /\ env' = [src |-> src, lay |-> lay, kinds |-> kinds]
             /\ hist' = Append(hist, [a |-> "gen", kinds |-> kinds, lay |-> lay, post |-> DescribeText(src)])
    /\ pc' = "loads-t"
    /\ UNCHANGED <<scen, mem, res, buf, pend, obs>>

\* the string API gives the dictionary everything else is compared with
LoadsT ==
    /\ pc = "loads-t"
    /\ LET d == Parse(env.src, FALSE, FALSE) IN
         /\ mem' = d /\ res' = d
         /\ hist' = Append(hist, [a |-> "loads", of |-> "t", post |-> PostOf(d)])
    /\ pc' = "read-t" /\ pend' = Readers
    /\ UNCHANGED <<scen, fs, env, buf, obs>>

ReadT ==
    /\ pc = "read-t"
    /\ \E op \in NextOps(pend) :
         LET d    == ReadOp(op, "t")
             rest == pend \ {op}
         IN  /\ res' = d
             /\ buf' = [buf EXCEPT !.cache = CacheAfter(op, "t")]
             /\ hist' = Append(hist, [a |-> op, of |-> "t", post |-> PostOf(d)])
             /\ pend' = IF rest = {} THEN Writers ELSE rest
             /\ pc' = IF rest = {} THEN "write" ELSE pc
    /\ UNCHANGED <<scen, fs, env, mem, obs>>

\* the four writers print mem with the layout of the behaviour.  Every call gets its own copy of mem
\* (mem is UNCHANGED): the printer may reorder the dictionary it is handed when sc is set.
DumpLay(lay) == IF DumpOptions = "same" THEN lay ELSE [lay EXCEPT !.sc = lay.av]
Write ==
    /\ pc = "write"
    /\ \E op \in NextOps(pend) :
         LET t    == StrText(mem, env.lay)
             td   == StrText(mem, DumpLay(env.lay))
             nbuf == IF op = "dumps" THEN [buf EXCEPT !.s = t]
                     ELSE IF op = "dump-sio" THEN [buf EXCEPT !.sio = td] ELSE buf
             nfs  == IF op = "save" THEN [fs EXCEPT !["s"] = SaveTo(mem, env.lay)]
                     ELSE IF op = "dump-file" THEN [fs EXCEPT !["d"] = FileOf(td, "utf8")]  \* the caller's UTF-8 file, newline=""
                     ELSE fs
             post == IF op = "dumps" THEN DescribeText(t) ELSE IF op = "dump-sio" THEN DescribeText(td)
                     ELSE IF op = "save" THEN Describe(nfs["s"]) ELSE Describe(nfs["d"])
             rest == pend \ {op}
         IN  /\ buf' = nbuf
             /\ fs' = nfs
             /\ hist' = Append(hist, [a |-> op, post |-> post])
             /\ pend' = IF rest = {} THEN Readers \cup {"loads"} ELSE rest
             /\ pc' = IF rest = {} THEN "read-s" ELSE pc
    /\ UNCHANGED <<scen, env, mem, res, obs>>

\* what was written is read back: loads(dumps(mem)) and the three file readers on the saved file
ReadS ==
    /\ pc = "read-s"
    /\ \E op \in NextOps(pend) :
         LET d    == IF op = "loads" THEN Parse(buf.s, FALSE, FALSE) ELSE ReadOp(op, "s")
             rest == pend \ {op}
         IN  /\ res' = d
             /\ buf' = [buf EXCEPT !.cache = IF op = "loads" THEN @ ELSE CacheAfter(op, "s")]
             /\ hist' = Append(hist, [a |-> op, of |-> "s", post |-> PostOf(d)])
             /\ pend' = rest
             /\ pc' = IF rest = {} THEN (IF Rewrites > 0 THEN "rewrite" ELSE "done") ELSE pc
    /\ UNCHANGED <<scen, fs, env, mem, obs>>

\* The program changes the values of its dictionary and saves it to the SAME path again, at once (same
\* clock second).  "same-length": every value keeps its classes and its encoded length, only the
\* characters differ (the file keeps its size); "other-kinds": the values are drawn anew.
OtherKinds(k) == IF Mode = "walk" THEN {[i \in StrIds |-> RandomElement(StrKinds)]}
                 ELSE {[i \in StrIds |-> IF k[i] = "ascii" THEN "mixed" ELSE "ascii"]}
Rewrite ==
    /\ pc = "rewrite"
    /\ \E how \in Pick({"same-length", "other-kinds"}) :
       \E kinds \in (IF how = "same-length" THEN {env.kinds} ELSE OtherKinds(env.kinds)) :
         LET d == [mem EXCEPT !.rev = @ + 1, !.strs = [i \in StrIds |-> Chars(kinds[i])]]
             f == SaveTo(d, env.lay)
         IN  /\ mem' = d
             /\ res' = Nothing
             /\ fs' = [fs EXCEPT !["s"] = f]
             /\ env' = [env EXCEPT !.kinds = kinds]
             /\ hist' = Append(hist, [a |-> "rewrite", how |-> how, kinds |-> kinds, post |-> Describe(f)])
    /\ pend' = Readers
    /\ pc' = "read-r"
    /\ UNCHANGED <<scen, buf, obs>>

\* every reader of the path now returns the new values
ReadR ==
    /\ pc = "read-r"
    /\ \E op \in NextOps(pend) :
         LET d    == ReadOp(op, "s")
             rest == pend \ {op}
         IN  /\ res' = d
             /\ buf' = [buf EXCEPT !.cache = CacheAfter(op, "s")]
             /\ hist' = Append(hist, [a |-> op, of |-> "r", post |-> PostOf(d)])
             /\ pend' = rest
             /\ pc' = IF rest = {} THEN (IF mem.rev < 1 + Rewrites THEN "rewrite" ELSE "done") ELSE pc
    /\ UNCHANGED <<scen, fs, env, mem, obs>>

-----------------------------------------------------------------------------

Init ==
    /\ scen \in Scenarios
    /\ pc = "env"
    /\ fs = [p \in Paths |-> NoFile]
    /\ env = Nothing /\ mem = Nothing /\ res = Nothing
    /\ buf = [s |-> Nothing, sio |-> Nothing, cache |-> Nothing]
    /\ pend = {}
    /\ obs = Nothing
    /\ hist = <<>>

Next == ValEnv \/ ValCli \/ FmtEnv \/ FmtCli \/ FmtApi \/ SchEnv \/ SchCli \/ SchApi
        \/ ApiGen \/ LoadsT \/ ReadT \/ Write \/ ReadS \/ Rewrite \/ ReadR

Spec == Init /\ [][Next]_vars

-----------------------------------------------------------------------------
(* Properties                                                              *)

\* validate: the exit rule is total, 0 <=> all good, exact when it fits an exit status
ExitTotal      == obs.k = "validate" => obs.status \in 0..255
ZeroIffAllGood == obs.k = "validate" => (obs.status = 0 <=> obs.allgood)
ExactWhenFits  == obs.k = "validate" => (obs.problems \in 1..255 => obs.status = obs.problems)
ExpectMatches  == obs.k = "validate" => /\ (obs.expect.zero <=> obs.status = 0)
                                        /\ (obs.expect.exact > 0 => obs.status = obs.expect.exact)
                                        /\ (obs.expect.zero <=> obs.expect.problems = 0)
\* stdout: one line per message, one line for every file without messages, one summary line
OneLinePerMessage == obs.k = "validate" => obs.lines >= obs.msgs + 1 /\ obs.lines <= obs.msgs + obs.files + 1

\* format / schema: the command writes what the API writes
FormatIsSaveOpen == (scen = "format" /\ pc = "done") =>
                        /\ fs[OutFile(env.target)] = fs[ApiOutFile(env.target)]
                        /\ fs[OutFile(env.target)].k = "map" /\ mem = res /\ obs.status = 0
FormatReplaces   == (scen = "format" /\ pc = "done") => fs["out"] # Junk
\* the input is left alone unless OUT names it
FormatKeepsInput == (scen = "format" /\ pc = "done" /\ env.target = "other") => fs["in"] = FileOf(SourceText(env.doc), "utf8")
SchemaIsApi      == (scen = "schema" /\ pc = "done") => (fs["out"] = fs["api"] /\ fs["out"].k = "json")

\* api: every reader returns what the string API returns; all writers write the same characters,
\* as UTF-8 where bytes are written; every string value survives save -> open unchanged
FrontEndsAgree == (scen = "api" /\ res # Nothing /\ mem # Nothing) => res = mem
WritersAgree   == scen = "api" =>
                    /\ (buf.s # Nothing /\ buf.sio # Nothing => buf.s = buf.sio)
                    /\ (buf.s # Nothing /\ fs["s"] # NoFile /\ mem.rev = 1 => fs["s"] = FileOf(buf.s, "utf8"))
                    /\ (buf.s # Nothing /\ fs["d"] # NoFile => fs["d"] = FileOf(buf.s, "utf8"))
                    /\ (fs["s"] # NoFile /\ fs["d"] # NoFile /\ mem.rev = 1 => fs["s"] = fs["d"])
                    /\ (fs["s"] # NoFile /\ mem.rev > 1 => fs["s"] = FileOf(StrText(mem, env.lay), "utf8"))
StringsSurvive == (scen = "api" /\ pc \in {"read-s", "rewrite", "read-r", "done"} /\ res # Nothing) =>
                    (res.k = "dict" /\ res.strs = mem.strs /\ res.rev = mem.rev
                     /\ (mem.rev = 1 => res.strs = env.src.strs))

\* emission of finished behaviours for the replayer
Emit == pc = "done" => PrintT(ToJson(hist))
=============================================================================
