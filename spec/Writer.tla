------------------------------- MODULE Writer -------------------------------
(***************************************************************************)
(* The dict -> text contract of the pretty printer (C03, and the content   *)
(* half of C01/C04/C06/C16): the sequence of *line events* that dumps must *)
(* write for an abstract dict, each value in the lexical class MapServer   *)
(* requires.  Layout (indent strings, alignment, END comments) is the      *)
(* subject of Layout.tla; here an event only carries its nesting level.    *)
(*                                                                         *)
(* event == [lvl, kind, key, vals]                                         *)
(*   kind: "open" | "end" | "attr" | "pair" | "item"                       *)
(*   vals: Seq([cls, v])  cls in  Q  quoted string                         *)
(*                                 B  bare word (enumerated keyword)       *)
(*                                 N  bare number                          *)
(*                                 V  verbatim (binding, expression, regex)*)
(***************************************************************************)
EXTENDS Reader

KVTypes == {"metadata", "validation", "values", "connectionoptions"}

\* Enumerated values that MapServer reads as strings and therefore must stay quoted
QuotedEnum(type, key, v) == key = "compop" \/ (v.of.sh = "enum" /\ v.of.w = "end")

Lex(type, key, v) ==
    CASE v.py \in {"int", "float"} -> "N"
      [] v.py = "bool" -> "B"                      \* TRUE / FALSE are bare words
      [] v.py = "str" /\ v.of.sh = "enum" -> IF QuotedEnum(type, key, v) THEN "Q" ELSE "B"
      [] v.py = "str" /\ v.of.sh \in {"bind", "expr", "regex", "listexpr", "istring", "notexpr"} -> "V"
      [] v.py = "str" /\ v.of.sh = "auto" -> "B"
      [] OTHER -> "Q"

Val(type, key, v) == [cls |-> Lex(type, key, v), v |-> v]

Ev(lvl, kind, key, vals) == [lvl |-> lvl, kind |-> kind, key |-> key, vals |-> vals]
EvT(lvl, kind, key, vals, type) == [lvl |-> lvl, kind |-> kind, key |-> key, vals |-> vals, t |-> type]

IsBlockDict(v) == v.py = "dict" /\ v.type \notin KVTypes /\ v.type # ""
IsBlockList(v) == v.py = "list" /\ Len(v.elems) > 0 /\ v.elems[1].py = "dict"

RECURSIVE Flat(_)
Flat(ss) == IF Len(ss) = 0 THEN <<>> ELSE Head(ss) \o Flat(Tail(ss))

PairLines(d, lvl) == [i \in 1..Len(d) |->
    Ev(lvl, "pair", "", <<[cls |-> "Q", v |-> [py |-> "str", of |-> d[i][1].of, f |-> d[i][1].f]],
                          [cls |-> "Q", v |-> d[i][2]]>>)]

PointLines(pairs, lvl) == [i \in 1..Len(pairs) |->
    Ev(lvl, "item", "", <<[cls |-> "N", v |-> pairs[i].elems[1]], [cls |-> "N", v |-> pairs[i].elems[2]]>>)]

PairBlock(key, pairs, lvl) == <<Ev(lvl, "open", key, <<>>)>> \o PointLines(pairs, lvl + 1) \o <<Ev(lvl, "end", key, <<>>)>>

\* stable partition used by separate_complex_types: simple keys first, block-valued keys after
IsComplexKey(k, v, lvl) ==        \* block-valued: written with an END
    \/ (v.py = "dict" /\ k # "config")
    \/ (v.py = "list" /\ k \in ObjectListKeys)
    \/ k \in {"projection", "points", "pattern"}
Order(items, sep, lvl) ==
    IF ~sep THEN items
    ELSE SelectSeq(items, LAMBDA kv : ~IsComplexKey(kv[1], kv[2], lvl))
         \o SelectSeq(items, LAMBDA kv : IsComplexKey(kv[1], kv[2], lvl))

RECURSIVE Events(_, _, _)
RECURSIVE Body(_, _, _, _)

ItemEvents(type, k, v, lvl, sep) ==
    IF v.py = "list" /\ k \in ObjectListKeys THEN
        Flat([i \in 1..Len(v.elems) |-> Events(v.elems[i], lvl, sep)])
    ELSE IF k = "pattern" THEN PairBlock("pattern", v.elems, lvl)
    ELSE IF v.py = "dict" /\ k \in KVTypes THEN
        <<Ev(lvl, "open", k, <<>>)>> \o PairLines(v.items, lvl + 1) \o <<Ev(lvl, "end", k, <<>>)>>
    ELSE IF k = "projection" THEN
        <<Ev(lvl, "open", k, <<>>)>>
        \o [i \in 1..Len(v.elems) |-> Ev(lvl + 1, "item", "", <<Val(type, k, v.elems[i])>>)]
        \o <<Ev(lvl, "end", k, <<>>)>>
    ELSE IF k \in RepeatedKeys THEN
        [i \in 1..Len(v.elems) |-> Ev(lvl, "attr", k, <<[cls |-> "Q", v |-> v.elems[i]]>>)]
    ELSE IF k = "points" THEN
        IF IsParts(v) THEN Flat([i \in 1..Len(v.elems) |-> PairBlock("points", v.elems[i].elems, lvl)])
                      ELSE PairBlock("points", v.elems, lvl)
    ELSE IF k = "config" THEN
        [i \in 1..Len(v.items) |->
            Ev(lvl, "attr", "config", <<[cls |-> "Q", v |-> [py |-> "str", of |-> v.items[i][1].of, f |-> "upper"]],
                                         [cls |-> "Q", v |-> v.items[i][2]]>>)]
    ELSE IF v.py = "dict" THEN Events(v, lvl, sep)
    ELSE IF v.py = "list" THEN <<EvT(lvl, "attr", k, [i \in 1..Len(v.elems) |-> Val(type, k, v.elems[i])], type)>>
    ELSE <<EvT(lvl, "attr", k, <<Val(type, k, v)>>, type)>>

Body(type, items, lvl, sep) ==
    IF Len(items) = 0 THEN <<>>
    ELSE ItemEvents(type, items[1][1], items[1][2], lvl, sep) \o Body(type, Tail(items), lvl, sep)

Events(d, lvl, sep) ==
    <<Ev(lvl, "open", d.type, <<>>)>> \o Body(d.type, Order(d.items, sep, lvl), lvl + 1, sep) \o <<Ev(lvl, "end", d.type, <<>>)>>

\* A value with no Mapfile representation must be refused (C03): an empty dict without a type,
\* as auto-created by reading a missing key
RECURSIVE Unprintable(_)
Unprintable(d) ==
    \E i \in 1..Len(d.items) :
        LET v == d.items[i][2] IN
          \/ (v.py = "dict" /\ v.type = "" /\ d.items[i][1] # "config")
          \/ (v.py = "dict" /\ v.type # "" /\ v.type \notin KVTypes /\ Unprintable(v))
          \/ (IsBlockList(v) /\ \E e \in 1..Len(v.elems) : Unprintable(v.elems[e]))

-----------------------------------------------------------------------------
WFinish ==
    /\ ~done
    /\ Steps >= target
    /\ done' = TRUE
    /\ LET d == CloseAll(stack) IN
       hist' = Append(hist, [a |-> "finish", post |-> d,
                             events |-> Events(d, 0, FALSE), events_sep |-> Events(d, 0, TRUE)])
    /\ UNCHANGED <<stack, target>>

WNext == Build \/ WFinish

\* Model-level properties of the contract itself ----------------------------
\* every opener is closed at its own level, and levels change by at most one between lines
RECURSIVE Balanced(_, _)
Balanced(evs, st) ==
    IF Len(evs) = 0 THEN Len(st) = 0
    ELSE LET e == Head(evs) IN
         CASE e.kind = "open" -> e.lvl = Len(st) /\ Balanced(Tail(evs), Append(st, e.key))
           [] e.kind = "end"  -> Len(st) > 0 /\ e.lvl = Len(st) - 1 /\ st[Len(st)] = e.key
                                 /\ Balanced(Tail(evs), SubSeq(st, 1, Len(st) - 1))
           [] OTHER -> e.lvl = Len(st) /\ Balanced(Tail(evs), st)

WriterBalanced == Balanced(Events(CloseAll(stack), 0, FALSE), <<>>)
                  /\ Balanced(Events(CloseAll(stack), 0, TRUE), <<>>)

\* separate_complex_types only permutes lines block-wise: same multiset of attr/pair/item events
CountKind(evs, kind) == Cardinality({i \in 1..Len(evs) : evs[i].kind = kind})
SepSameContent ==
    LET a == Events(CloseAll(stack), 0, FALSE)
        b == Events(CloseAll(stack), 0, TRUE)
    IN  /\ Len(a) = Len(b)
        /\ \A k \in {"open", "end", "attr", "pair", "item"} : CountKind(a, k) = CountKind(b, k)
=============================================================================
