----------------------------- MODULE TraceCalls -----------------------------
(***************************************************************************)
(* Trace validation for the purity clause of C12.                          *)
(*                                                                         *)
(* The harness records one NDJSON line per public call made on the real    *)
(* code:                                                                   *)
(*   {"tid": n, "call": kind, "fn": name, "pre": [digest ...],             *)
(*    "post": [digest ...], "diff": "path:kind" | ""}                      *)
(* pre/post are digests of deep snapshots of every argument (key order,    *)
(* value types, hidden keys, identities of nested containers) taken before *)
(* and after the call.  Every record gets exactly one verdict: the         *)
(* UNCHANGED-args clause of its call kind (CallKinds!ArgsClause; the two   *)
(* documented mutating kinds are exempt).  The trace is consumed record by *)
(* record by a one-variable-per-fact state machine; the report is printed  *)
(* in the state that has consumed the whole file.                          *)
(***************************************************************************)
EXTENDS Naturals, Sequences, FiniteSets, TLC, Json, IOUtils, CallKinds

Trace == ndJsonDeserialize(IOEnv.TRACE_FILE)

VARIABLES l,         \* next record
          ok,        \* records whose clause held
          bad,       \* Seq([tid, clause]) : records whose clause failed
          mutobs     \* kinds of the exempt calls that were observed changing their argument

tvars == <<l, ok, bad, mutobs>>

Clause(r) ==
    IF r.call \notin AllKinds THEN "unknown-kind"
    ELSE IF Len(r.pre) # Len(r.post) THEN "malformed"
    ELSE IF ArgsClause(r.call, r.pre, r.post) THEN "ok"
    ELSE "arg-mutated"

TInit == l = 1 /\ ok = 0 /\ bad = <<>> /\ mutobs = {}

TNext ==
    /\ l <= Len(Trace)
    /\ LET r == Trace[l]
           c == Clause(r)
       IN  /\ ok' = IF c = "ok" THEN ok + 1 ELSE ok
           /\ bad' = IF c = "ok" THEN bad ELSE Append(bad, [tid |-> r.tid, call |-> r.call, clause |-> c])
           /\ mutobs' = IF r.call \in MutatingKinds /\ r.pre # r.post THEN mutobs \cup {r.call} ELSE mutobs
    /\ l' = l + 1

\* total verdict: printed once, when every record has been judged
Report == (l = Len(Trace) + 1) =>
              PrintT(ToJson([judged |-> ok + Len(bad), ok |-> ok, bad |-> bad, mutobs |-> mutobs]))

Counted == ok + Len(bad) = l - 1
=============================================================================
