------------------------------ MODULE Quoting ------------------------------
(***************************************************************************)
(* Quoted strings: what the writer puts between the output quotes and what *)
(* the reader's string terminal takes back (C01 / C02 / C03 / C04 on the    *)
(* boundary where most printer / lexer changes bite).                      *)
(*                                                                         *)
(* Strings are sequences over a five-letter alphabet that contains every   *)
(* character class the two sides distinguish:                              *)
(*    a   an ordinary character        sp  a blank                          *)
(*    bs  a backslash                  dq / sq  the two quote characters    *)
(*                                                                         *)
(* Reader (mapfile.lark): a string token is                                 *)
(*        q ( bs q | [^q] )* q                                              *)
(* matched by a backtracking engine that prefers the escape pair `bs q`    *)
(* over ending the token whenever a later closing quote exists (Close).    *)
(* The content is stored verbatim, backslashes included.                   *)
(* Writer (pprint.py / quoter.py): the content verbatim between the output *)
(* quotes.                                                                 *)
(*                                                                         *)
(* The model-level law (RoundTripLaw, checked by TLC for every content up  *)
(* to MaxLen, both quotes and every following text up to MaxTail):         *)
(*   the reader returns exactly the written content, and stops right       *)
(*   behind the closing quote, for EVERY following text                    *)
(*        iff   Representable(content, quote)                              *)
(* which makes precise the documented limitation ("a string containing the *)
(* output quote character") and adds the case the documentation does not   *)
(* name: a content that ends with a backslash.                             *)
(***************************************************************************)
EXTENDS Naturals, Sequences, FiniteSets, TLC, Json

CONSTANTS MaxLen,      \* longest content enumerated
          MaxTail      \* longest following text enumerated (model law only)

Sym == {"a", "sp", "bs", "dq", "sq"}
Quotes == {"dq", "sq"}
SeqsUpTo(S, n) == UNION {[1..k -> S] : k \in 0..n}

-----------------------------------------------------------------------------
(* the reader's string terminal, scanning t from position i (t[1] = q is the opening quote) *)
RECURSIVE Close(_, _, _)
Close(t, i, q) ==
    IF i > Len(t) THEN 0
    ELSE IF t[i] = q THEN i
    ELSE IF t[i] = "bs" /\ i < Len(t) /\ t[i + 1] = q
         THEN LET r == Close(t, i + 2, q) IN IF r # 0 THEN r ELSE i + 1      \* the pair is preferred when the token can still end
    ELSE Close(t, i + 1, q)

TokenEnd(t, q) == IF Len(t) = 0 \/ t[1] # q THEN 0 ELSE Close(t, 2, q)
Content(t, q)  == SubSeq(t, 2, TokenEnd(t, q) - 1)

-----------------------------------------------------------------------------
(* the writer *)
Written(c, q) == <<q>> \o c \o <<q>>

(* which contents have a representation under quote q *)
HasUnescaped(c, q) == \E i \in 1..Len(c) : c[i] = q /\ (i = 1 \/ c[i - 1] # "bs")
EndsWithBs(c)      == Len(c) > 0 /\ c[Len(c)] = "bs"
Representable(c, q) == ~HasUnescaped(c, q) /\ ~EndsWithBs(c)

ReadsBack(c, q, tail) ==
    LET t == Written(c, q) \o tail IN TokenEnd(t, q) = Len(c) + 2 /\ Content(t, q) = c

-----------------------------------------------------------------------------
VARIABLES c, q, phase
vars == <<c, q, phase>>

Init == c \in SeqsUpTo(Sym, MaxLen) /\ q \in Quotes /\ phase = "new"
Next == phase = "new" /\ phase' = "done" /\ UNCHANGED <<c, q>>

\* (M) the law, over every following text
RoundTripLaw ==
    /\ Representable(c, q) => \A tail \in SeqsUpTo(Sym, MaxTail) : ReadsBack(c, q, tail)
    /\ ~Representable(c, q) => \E tail \in SeqsUpTo(Sym, MaxTail) : ~ReadsBack(c, q, tail)

\* a content that ends with a backslash (and holds no unescaped q) reads back exactly when no q follows anywhere in the
\* text: the reader accepts such a source string as the last q-quoted string of a file, the writer cannot keep it so
TailFree(cc, k) == ~HasUnescaped(cc, k) /\ EndsWithBs(cc)
TailLaw == TailFree(c, q) =>
    \A tail \in SeqsUpTo(Sym, MaxTail) : ReadsBack(c, q, tail) <=> ~(\E i \in 1..Len(tail) : tail[i] = q)

\* a content is never unrepresentable under both quotes unless it holds both unescaped, or ends with a backslash
SomeQuoteWorks == (\A k \in Quotes : ~Representable(c, k)) => (EndsWithBs(c) \/ \A k \in Quotes : HasUnescaped(c, k))

\* (G) every (content, quote) with the verdicts the harness replays into the real writer and reader
Emit == phase = "done" =>
    PrintT(ToJson([c |-> c, q |-> q, representable |-> Representable(c, q),
                   unescaped |-> HasUnescaped(c, q), endsbs |-> EndsWithBs(c), tailfree |-> TailFree(c, q),
                   other_ok |-> Representable(c, IF q = "dq" THEN "sq" ELSE "dq")]))
=============================================================================
