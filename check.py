#!/venv/bin/python
"""Entry point of the verification machinery.

  check.py <property id> [--tier quick|thorough] [--replay PATH]
  check.py setup          extract the vocabulary, parse every specification with SANY

exit 0: property held on everything explored (KNOWN-FINDING lines possible)
exit 1: at least one line  VIOLATION property=<id> replay=<path>
exit 2: machinery failure (TLC crash, vacuous coverage, generator/self-test failure)
"""
import importlib
import os
import sys
import traceback

HERE = os.path.dirname(os.path.abspath(__file__))
sys.path.insert(0, HERE)
os.environ.setdefault("PYTHONHASHSEED", "0")


def setup():
    from harness import vocab, tlc
    import glob
    v = vocab.get()
    print("vocabulary: %d types, %d slots" % (len(v["schema"]["types"]), len(vocab.slot_shapes(v))))
    d = tlc.rundir("sany")
    bad = 0
    for f in sorted(glob.glob(os.path.join(d, "*.tla"))):
        ok, out = tlc.sany(f)
        print("SANY %-24s %s" % (os.path.basename(f), "ok" if ok else "FAILED"))
        if not ok:
            print(out[-1500:])
            bad += 1
    return 2 if bad else 0


def generic_replay(mod, pid, path):
    """Re-run the check with the seed and tier recorded in the replay file and report whether the
    recorded violation (same signature) shows up again.  The file itself holds the concrete case
    (input text, printed output, expected/observed values) for inspection."""
    import json
    with open(path) as f:
        rec = json.load(f)
    print("replaying %s: %s" % (rec.get("signature"), rec.get("what")))
    case = rec.get("case") or {}
    for k in ("text", "printed"):
        if isinstance(case, dict) and isinstance(case.get(k), str):
            print("---- %s ----" % k)
            print(case[k][:2000])
    os.environ["VERIF_SEED"] = str(rec.get("seed", 0))
    from harness import common
    hits = []
    orig = common.Check.violation

    def spy(self, sig, what, replay=None):
        if sig == rec.get("signature"):
            hits.append(sig)
        return orig(self, sig, what, replay)
    common.Check.violation = spy
    try:
        mod.run(rec.get("tier", "quick"))
    finally:
        common.Check.violation = orig
    print("REPRODUCED" if hits else "not reproduced on the current tree")
    return 1 if hits else 0


def main(argv):
    if len(argv) < 2:
        print(__doc__)
        return 2
    if argv[1] == "setup":
        return setup()
    pid = argv[1].upper()
    tier = os.environ.get("VERIF_TIER", "quick")
    replay = None
    i = 2
    while i < len(argv):
        if argv[i] == "--tier":
            tier = argv[i + 1]
            i += 2
        elif argv[i] == "--replay":
            replay = argv[i + 1]
            i += 2
        else:
            i += 1
    from harness import common
    try:
        mod = importlib.import_module("harness.checks." + pid.lower())
        if replay:
            if hasattr(mod, "replay"):
                return mod.replay(replay)
            return generic_replay(mod, pid, replay)
        return mod.run(tier)
    except (common.MachineryFailure, Exception) as ex:  # noqa: BLE001
        traceback.print_exc()
        print("MACHINERY-FAILURE property=%s %s: %s" % (pid, type(ex).__name__, str(ex)[:2000]))
        return 2


if __name__ == "__main__":
    sys.exit(main(sys.argv))
