"""Exhaustive regular-expression lexeme family (spec/RegexLex.tla) replayed into the real reader and writer."""
from __future__ import annotations
from . import tlc, common

SLOTS = [("CLASS", "EXPRESSION", "expression"), ("LAYER", "FILTER", "filter")]
SEPS = [("\n  ", "\n  "), ("\t", "\r\n"), ("  \n\n ", " ")]      # (before the lexeme, after it): C05's white-space variants


def behaviours(ck, max_len, tag="regexlex"):
    cfg = tlc.cfg_text(constants={"MaxLen": max_len}, invariants=["TwoDelims", "LenLaw", "ShortNoComment", "CommentNeedsStars", "Emit"])
    r = tlc.run("RegexLex", cfg, tag=tag, workers=8, timeout=1800)
    if r.violated:
        raise common.MachineryFailure("RegexLex model law %s violated" % r.violated)
    if ck is not None:
        ck.add_tlc(tag, r)
    out = [p for p in r.prints if isinstance(p, dict) and "stored" in p]
    if len(out) < 50:
        raise common.MachineryFailure("RegexLex model emitted %d lexemes" % len(out))
    return out


def run(ck, prop, tier, loads, dumper):
    bs = behaviours(ck, 3 if tier == "quick" else 5, tag="regexlex_" + prop.lower())
    n = 0
    for j, b in enumerate(bs):
        body = "".join(b["b"])
        want = "".join(b["stored"])
        kind = ("comment" if b["comment"] else "regex") + ("%d" % len(body)) + ("i" if b["flag"] else "")
        for block, kw, key in SLOTS:
            if b["comment"]:
                if b["flag"] or prop == "C01":
                    continue        # "/*..*/i" is a comment followed by a bare word; C01 has nothing to print for a comment
                # the text is a complete C comment: a separator, wherever it stands between two tokens
                base = "%s\n  NAME 'before'\n  %s 'x'\n  GROUP 'after'\nEND\n" % (block, kw)
                ck.count()
                n += 1
                try:
                    d0 = loads(base)
                    d1 = loads(base.replace("%s 'x'" % kw, "%s /%s/ 'x' /%s/" % (kw, body, body)))
                    ok, what = d0 == d1, "changes the result"
                except Exception as ex:  # noqa: BLE001
                    ok, what = False, "is rejected (%s)" % type(ex).__name__
                if not ok:
                    ck.violation("%s|regexlex|comment|%s" % (prop, kind), "the C comment /%s/ between tokens %s" % (body, what), {"text": base, "comment": "/%s/" % body})
                continue
            lex = "/%s/%s" % (body, "i" if b["flag"] else "")
            docs = []
            for si, (pre, post) in enumerate(SEPS if prop == "C05" else SEPS[:1]):
                src = "%s\n  NAME 'before'\n  %s%s%s%sGROUP 'after'\nEND\n" % (block, kw, pre, lex, post)
                ck.count()
                n += 1
                try:
                    d = loads(src)
                except Exception as ex:  # noqa: BLE001
                    if prop in ("C02", "C05"):
                        ck.violation("%s|regexlex|rejected|%s|%s" % (prop, kind, kw), "the regular expression %s after %s is rejected (%s)" % (lex, kw, type(ex).__name__),
                                     {"text": src})
                    continue
                docs.append(d)
                got = (d.get("name"), d.get(key), d.get("group"))
                if prop == "C02" and got != ("before", want, "after"):
                    ck.violation("C02|regexlex|value|%s|%s" % (kind, kw), "%s %s is loaded as %r, the contract says %r" % (kw, lex, got, ("before", want, "after")), {"text": src})
                if prop == "C05" and d != docs[0]:
                    ck.violation("C05|regexlex|ws|%s|%s|sep%d" % (kind, kw, si), "white space around %s changes the result (%r)" % (lex, got), {"text": src})
                if prop != "C01":
                    continue
                for qo in ('"', "'"):
                    try:
                        t1 = dumper(quote=qo)(d)
                        d2 = loads(t1)
                        ok = d2 == d
                        what = "changes %r into %r" % (got, (d2.get("name"), d2.get(key), d2.get("group")))
                    except Exception as ex:  # noqa: BLE001
                        ok, what = False, "is rejected / raises (%s)" % type(ex).__name__
                    if not ok:
                        ck.violation("C01|regexlex|%s|%s|out=%s" % (kind, kw, "dq" if qo == '"' else "sq"), "round trip of %s %s under output quote %s %s" % (kw, lex, qo, what),
                                     {"text": src})
    if prop == "C01":
        # the grammar's second regex form, delimited by double backslashes (REGEXP2): same bodies, same law
        for b in bs:
            if b["comment"]:
                continue
            body = "".join(b["b"])
            lex = "\\\\%s\\\\%s" % (body, "i" if b["flag"] else "")
            kind = "regex%d%s" % (len(body), "i" if b["flag"] else "")
            for block, kw, key in SLOTS:
                src = "%s\n  NAME 'before'\n  %s %s\n  GROUP 'after'\nEND\n" % (block, kw, lex)
                try:
                    d = loads(src)
                except Exception:  # noqa: BLE001
                    continue            # not accepted: outside C01's quantifier
                ck.count()
                n += 1
                for qo in ('"', "'"):
                    try:
                        d2 = loads(dumper(quote=qo)(d))
                        ok, what = d2 == d, "changes %r into %r" % (d.get(key), d2.get(key))
                    except Exception as ex:  # noqa: BLE001
                        ok, what = False, "is rejected / raises (%s)" % type(ex).__name__
                    if not ok:
                        ck.violation("C01|regexlex|bs-delim|%s|%s|out=%s" % (kind, kw, "dq" if qo == '"' else "sq"),
                                     "round trip of %s %s under output quote %s %s" % (kw, lex, qo, what), {"text": src})
    ck.notes.append("regular-expression family (spec/RegexLex.tla): %d lexeme x slot documents replayed for %s" % (n, prop))
    return n
