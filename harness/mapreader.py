"""Independent reader for *pretty-printer output* (never imports mappyfile).

read(text) -> (lines, events)

  lines  : one record per physical line  {ws, kind, key, toks, comment, valcol, raw, lineno}
           kind in open end attr pair item comment cont blank
  events : structural line events  {lvl, kind, key, vals:[(cls, text, content)]}, comment lines and
           continuation lines of multi-line strings left out

It reads the canonical one-item-per-line form only (newlinechar containing a line break).  It is
not a Mapfile parser: structure comes from the line shapes of the printer
  WORD                -> opener           END [# ...]        -> end
  WORD value+         -> keyword line     Q Q                -> key-value pair
  Q | N N | AUTO      -> item line inside PROJECTION / POINTS / PATTERN
A line it cannot classify raises ReaderError, which the checks report as a machinery failure
unless the property under test is about that very line.
"""
from __future__ import annotations
import re

NUM_RE = re.compile(r"^[-+]?(?:\d+\.?\d*(?:[eE][-+]?\d+)?|\.\d+(?:[eE][-+]?\d+)?)$")
WORD_RE = re.compile(r"^[A-Za-z_][A-Za-z0-9_\-:.]*$")
KV_OPENERS = {"METADATA", "VALIDATION", "VALUES", "CONNECTIONOPTIONS"}
ITEM_OPENERS = {"PROJECTION", "POINTS", "PATTERN"}


class ReaderError(Exception):
    pass


class T:
    __slots__ = ("cls", "text", "content", "line", "col", "endline")

    def __init__(self, cls, text, content, line, col, endline):
        self.cls, self.text, self.content, self.line, self.col, self.endline = cls, text, content, line, col, endline

    def __repr__(self):
        return "T(%s,%r)" % (self.cls, self.text)


def tokenize(text):
    """tokens with 1-based line/col; classes Q B N V C(comment)"""
    toks = []
    i, n = 0, len(text)
    line, col = 1, 1

    def adv(j):
        nonlocal i, line, col
        while i < j:
            ch = text[i]
            if ch == "\n":
                line += 1
                col = 1
            elif ch == "\r" and i + 1 < n and text[i + 1] == "\n":
                pass
            else:
                col += 1
            i += 1

    while i < n:
        ch = text[i]
        if ch in " \t\r\n\f":
            adv(i + 1)
            continue
        l0, c0 = line, col
        start = i
        if ch == "#":
            j = text.find("\n", i)
            j = n if j < 0 else j
            s = text[i:j].rstrip("\r")
            adv(i + len(s))
            toks.append(T("C", s, s, l0, c0, line))
            continue
        if ch == "/" and text[i:i + 2] == "/*":
            j = text.find("*/", i + 2)
            if j < 0:
                raise ReaderError("unterminated C comment at line %d" % line)
            adv(j + 2)
            toks.append(T("C", text[start:j + 2], text[start:j + 2], l0, c0, line))
            continue
        if ch in "\"'":
            j = i + 1
            while j < n:
                if text[j] == "\\" and j + 1 < n and text[j + 1] == ch:
                    j += 2
                    continue
                if text[j] == ch:
                    break
                j += 1
            if j >= n:
                raise ReaderError("unterminated string at line %d" % line)
            inner = text[i + 1:j]
            j += 1
            cls = "Q"
            if j < n and text[j] == "i" and (j + 1 >= n or text[j + 1] in " \t\r\n"):
                j += 1
                cls = "V"           # case-insensitive string comparison "..."i
            adv(j)
            toks.append(T(cls, text[start:j], inner if cls == "Q" else text[start:j], l0, c0, line))
            continue
        if ch == "(":
            depth = 0
            j = i
            while j < n:
                c = text[j]
                if c in "\"'`":
                    k = text.find(c, j + 1)
                    if k < 0:
                        raise ReaderError("unterminated string in expression at line %d" % line)
                    j = k + 1
                    continue
                if c == "(":
                    depth += 1
                elif c == ")":
                    depth -= 1
                    if depth == 0:
                        break
                j += 1
            if depth != 0:
                raise ReaderError("unbalanced expression at line %d" % line)
            adv(j + 1)
            toks.append(T("V", text[start:j + 1], text[start:j + 1], l0, c0, line))
            continue
        if ch in "[{":
            close = "]" if ch == "[" else "}"
            j = text.find(close, i)
            if j < 0:
                raise ReaderError("unterminated %s at line %d" % (ch, line))
            adv(j + 1)
            toks.append(T("V", text[start:j + 1], text[start:j + 1], l0, c0, line))
            continue
        if ch == "/":
            j = text.find("/", i + 1)
            nl = text.find("\n", i + 1)
            if j > 0 and (nl < 0 or j < nl):
                j += 1
                if j < n and text[j] == "i":
                    j += 1
                adv(j)
                toks.append(T("V", text[start:j], text[start:j], l0, c0, line))
                continue
        j = i
        while j < n and text[j] not in " \t\r\n":
            j += 1
        w = text[i:j]
        adv(j)
        if NUM_RE.match(w):
            toks.append(T("N", w, w, l0, c0, line))
        else:
            toks.append(T("B", w, w, l0, c0, line))
    return toks


def read(text):
    toks = tokenize(text)
    phys = re.split(r"\r\n|\n", text)
    # logical lines: a token that starts on the physical line where the previous token ended
    # continues that token's logical line (e.g. a trailing comment after a multi-line string)
    by_line = {}
    covered = {}
    prev = None
    cur = None
    for t in toks:
        if prev is not None and t.line == prev.endline and prev.endline != prev.line:
            by_line[cur].append(t)
        elif prev is not None and t.line == prev.line == prev.endline and cur is not None and cur != t.line:
            by_line[cur].append(t)
        else:
            cur = t.line
            by_line.setdefault(cur, []).append(t)
        for ln in range(t.line + 1, t.endline + 1):
            covered[ln] = t
        prev = t
    lines = []
    events = []
    problems = []
    stack = []          # (KEY, mode) mode: block kv item
    for idx, raw in enumerate(phys):
        ln = idx + 1
        ws = raw[:len(raw) - len(raw.lstrip(" \t"))]
        ts = by_line.get(ln, [])
        rec = {"lineno": ln, "ws": ws, "raw": raw, "kind": None, "key": None, "toks": [], "comment": None,
               "valcol": None, "lvl": len(stack)}
        if ln in covered:
            # continuation of a multi-line token (tokens starting after its end on this physical line
            # were attached to the logical line above)
            rec["kind"] = "cont"
            lines.append(rec)
            continue
        if not ts:
            rec["kind"] = "blank"
            lines.append(rec)
            continue
        comments = [t for t in ts if t.cls == "C"]
        body = [t for t in ts if t.cls != "C"]
        if comments:
            rec["comment"] = [c.text for c in comments]
        if not body:
            rec["kind"] = "comment"
            lines.append(rec)
            continue
        if any(body.index(t) > 0 and c.col < t.col for c in comments for t in body[-1:]) and False:
            pass
        mode = stack[-1][1] if stack else "block"
        first = body[0]
        up = first.text.upper()
        if first.cls == "B" and up == "END" and len(body) == 1:
            if not stack:
                problems.append("END without opener on line %d" % ln)
                key = "?"
            else:
                key, _ = stack.pop()
            rec.update(kind="end", key=key, lvl=len(stack))
            events.append({"lvl": len(stack), "kind": "end", "key": key.lower(), "vals": [], "line": ln})
        elif mode == "kv":
            if len(body) != 2:
                problems.append("key-value line with %d tokens on line %d: %r" % (len(body), ln, raw))
            rec.update(kind="pair", toks=body, valcol=body[-1].col)
            events.append({"lvl": len(stack), "kind": "pair", "key": "", "vals": [(t.cls, t.text, t.content) for t in body], "line": ln})
        elif mode == "item":
            rec.update(kind="item", toks=body)
            events.append({"lvl": len(stack), "kind": "item", "key": "", "vals": [(t.cls, t.text, t.content) for t in body], "line": ln})
        elif first.cls == "B" and WORD_RE.match(first.text):
            if len(body) == 1:
                m = "kv" if up in KV_OPENERS else ("item" if up in ITEM_OPENERS else "block")
                rec.update(kind="open", key=up)
                events.append({"lvl": len(stack), "kind": "open", "key": up.lower(), "vals": [], "line": ln})
                stack.append((up, m))
            else:
                vals = body[1:]
                # NOT ( ... ) is one verbatim value
                if len(vals) == 2 and vals[0].cls == "B" and vals[0].text == "NOT" and vals[1].cls == "V":
                    merged = T("V", "NOT " + vals[1].text, "NOT " + vals[1].text, vals[0].line, vals[0].col, vals[1].endline)
                    vals = [merged]
                rec.update(kind="attr", key=up, toks=vals, valcol=vals[0].col)
                events.append({"lvl": len(stack), "kind": "attr", "key": up.lower(),
                               "vals": [(t.cls, t.text, t.content) for t in vals], "line": ln})
        else:
            problems.append("unclassifiable line %d: %r" % (ln, raw))
            rec.update(kind="unknown", toks=body)
            events.append({"lvl": len(stack), "kind": "unknown", "key": "",
                           "vals": [(t.cls, t.text, t.content) for t in body], "line": ln})
        lines.append(rec)
    if stack:
        problems.append("unclosed block(s) at end of text: %r" % [s[0] for s in stack])
    return lines, events, problems
