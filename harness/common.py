"""Shared plumbing for the per-property checks: tiers, seeds, evidence, violations, known findings."""
from __future__ import annotations
import hashlib
import json
import os
import sys
import time

HERE = os.path.dirname(os.path.abspath(__file__))
VERIF = os.path.dirname(HERE)
REPO = os.environ.get("VERIF_REPO", "/repo")
EVID = os.path.join(VERIF, "evidence")
REPLAYS = os.path.join(EVID, "replays")
KNOWN = os.path.join(VERIF, "known_findings.json")


def seed():
    try:
        return int(os.environ.get("VERIF_SEED", "0"))
    except ValueError:
        return 0


def repo_on_path():
    if REPO not in sys.path:
        sys.path.insert(0, REPO)
    os.environ.setdefault("MAPPYFILE_VERIF", "1")


def load_known():
    try:
        with open(KNOWN) as f:
            return json.load(f)
    except FileNotFoundError:
        return []


class MachineryFailure(Exception):
    """harness / TLC / generator problem: exit 2, never a VIOLATION"""


class Check:
    """Collects results for one property run and writes the evidence file."""

    def __init__(self, pid, tier, level, rule):
        self.pid = pid
        self.tier = tier
        self.level = level
        self.rule = rule
        self.seed = seed()
        self.t0 = time.time()
        self.violations = {}       # sig -> (what, replay path)
        self.known_hits = {}       # sig -> what
        self.evaluations = 0
        self.distinct = set()
        self.samples = []
        self.cov = {}
        self.notes = []
        self.tlc = []              # summaries of TLC runs
        self.drift = []
        self.known = [k for k in load_known() if k.get("property") == pid]

    # ---------------------------------------------------------------- counting
    def count(self, n=1):
        self.evaluations += n

    def nontrivial(self, key):
        if not isinstance(key, (str, bytes)):
            key = json.dumps(key, sort_keys=True, default=str)
        self.distinct.add(hashlib.sha1(key.encode() if isinstance(key, str) else key).hexdigest()[:16])

    def sample(self, obj, limit=4):
        if len(self.samples) < limit:
            self.samples.append(obj)

    def add_tlc(self, name, res):
        s = res.summary() if hasattr(res, "summary") else dict(res)
        s["run"] = name
        self.tlc.append(s)

    # ---------------------------------------------------------------- verdicts
    def violation(self, sig, what, replay=None):
        """Report a violation with a stable signature.  A signature listed as status=known in
        known_findings.json prints KNOWN-FINDING and does not fail the run."""
        for k in self.known:
            if k.get("status") == "known" and match_sig(k["signature"], sig):
                if k["signature"] not in self.known_hits:
                    self.known_hits[k["signature"]] = k.get("what", what)
                return False
        if sig in self.violations:
            return True
        path = None
        if replay is not None:
            d = os.path.join(REPLAYS, self.pid)
            os.makedirs(d, exist_ok=True)
            h = hashlib.sha1(sig.encode()).hexdigest()[:12]
            path = os.path.join(d, h + ".json")
            with open(path, "w") as f:
                json.dump({"property": self.pid, "signature": sig, "what": what, "seed": self.seed,
                           "tier": self.tier, "case": replay}, f, indent=1, default=str)
        self.violations[sig] = (what, path)
        return True

    def finish(self, coverage_extra=None, exhaustive=False):
        wall = time.time() - self.t0
        cov = {
            "evaluations": max(1, self.evaluations),
            "distinct_nontrivial": max(len(self.distinct), 0),
            "rule": self.rule,
            "samples": self.samples or ["(none)"],
            "exhaustive": bool(exhaustive),
            "tlc_runs": self.tlc,
            "violations": [{"signature": s, "what": w, "replay": p} for s, (w, p) in self.violations.items()],
            "known_findings_hit": [{"signature": s, "what": w} for s, w in self.known_hits.items()],
            "mechanism_drift": self.drift[:20],
            "notes": self.notes,
        }
        st = sum((t.get("states") or 0) for t in self.tlc)
        if self.level == "model_checking":
            cov["states"] = max(1, st)
            cov["distinct_states"] = max(1, sum((t.get("distinct") or 0) for t in self.tlc))
            cov["transitions"] = max(1, st)
            cov["traces_validated_against_impl"] = max(0, self.evaluations)
        if coverage_extra:
            cov.update(coverage_extra)
        ev = {"property_id": self.pid, "tier": self.tier, "seed": self.seed, "level": self.level,
              "coverage": cov, "wall_s": round(wall, 2),
              "result": "violation" if self.violations else "pass",
              "violations": len(self.violations), "assumptions": assumptions_of(self.pid)}
        os.makedirs(EVID, exist_ok=True)
        with open(os.path.join(EVID, self.pid + ".json"), "w") as f:
            json.dump(ev, f, indent=1, default=str)
        for s, w in self.known_hits.items():
            print("KNOWN-FINDING: property=%s %s [%s]" % (self.pid, w, s))
        for s, (w, p) in self.violations.items():
            print("VIOLATION property=%s replay=%s  # %s :: %s" % (self.pid, p or "-", s, w))
        print("%s %s tier=%s seed=%s evaluations=%d distinct=%d wall=%.1fs" % (
            self.pid, "FAIL" if self.violations else "ok", self.tier, self.seed,
            self.evaluations, len(self.distinct), wall))
        return 1 if self.violations else 0


def assumptions_of(pid):
    """the trusted base stated for this check in MANIFEST.json (level_note), repeated in the evidence"""
    try:
        with open(os.path.join(VERIF, "MANIFEST.json")) as f:
            m = json.load(f)
        for c in m.get("checks", []):
            if c.get("property_id") == pid:
                return [c.get("level_note", "")]
    except (OSError, ValueError):
        pass
    return []


def match_sig(pattern, sig):
    """known-finding signatures match exactly, or by prefix when they end with '*'"""
    if pattern.endswith("*"):
        return sig.startswith(pattern[:-1])
    return pattern == sig
