"""Independent renderer: abstract document behaviours (from spec/Reader.tla) -> Mapfile text.

Never imports mappyfile.  Draws a concrete lexeme for every abstract source value [sh, id, ...]
from pools permuted by VERIF_SEED, knows the *content* of every lexeme (what the contract says the
dict must hold) and every token's position in the text.

  c = Concretiser(seed)
  toks = c.tokens(hist)            # list of Tok (text, role, item index, depth)
  text, pos = assemble(toks, ...)  # text and (line, col) of every token
  c.expected(absval)               # abstract dict value from the spec -> typed Python value
"""
from __future__ import annotations
import random
import re

BLOCK_WORDS = {
    "class", "cluster", "composite", "feature", "grid", "join", "label", "layer", "leader", "legend",
    "map", "outputformat", "querymap", "reference", "scalebar", "scaletoken", "style", "web", "symbol",
    "symbolset", "metadata", "validation", "values", "connectionoptions", "points", "pattern",
    "projection", "config", "end", "include", "true", "false", "null",
}

# ---- pools -------------------------------------------------------------------------------------
# free string contents.  flags: q = contains ", s = contains ', m = multi-line, x = looks like an
# expression/regex/list/binding (excluded by C01/C03's quantifier in expression-capable slots),
# n = non-ASCII
STR_POOL = [
    ("roads", ""), ("Layer_1", ""), ("a-b:c", ""), ("\u00c4pfel", "n"), ("Main St 5", ""), ("a#b is not a comment", ""), ("END", ""), ("LAYER", ""),
    ("x;y,z", ""), ("\u00fcn\u00efc\u00f6d\u00e9 \u00c5", "n"), ("\u65e5\u672c\u8a9e", "n"),
    ("\U0001d518ni\U0001f600", "n"), ("c:\\data\\x.shp", ""), ("two  spaces", ""), ("it's", "s"),
    ('say "hi"', "q"), ("multi\nline", "m"), ("100%", ""), ("a/b/c.tif", ""), ("-12.5e3x", ""),
    ("TRUE", ""), ("+proj=utm +zone=30", ""), ("tab\there", ""), (" lead", ""), ("trail ", ""),
    ("", ""), ("init=epsg:4326", ""), ("wms_title", ""), ("MiXeD Case", ""), ("0", ""), ("7", ""),
    ("name with END inside", ""), ("/* not a comment */ x", ""), ("http://x.y/z?a=1&b=2", ""),
    ("Caf\u00e9 \u2013 d\u00e9j\u00e0", "n"), ("a\\\\b", ""), ("key=value", ""), ("%runtime%", ""),
    # boundary forms: content that itself starts / ends with the other quote character
    ("'quoted'", "s"), ('"dq"', "q"), ("'[type]' = 'road'", "s"), ("'", "s"), ("x'", "s"), ('"', "q"), ("''", "s"),
    # escaped occurrences of the double quote (in scope for C01: only *unescaped* output quotes are excluded)
    ('Pipe 5\\"', "qe"), ('say \\"hi\\" now', "qe"), ('\\"start', "qe"),
    # line-break-like characters inside a value (str.splitlines() splits on all of them)
    ("cr\r\nlf inside", "m"), ("lone\rcr", "m"), ("vt\x0bff\x0cnel\x85ls\u2028ps\u2029end", "mn"),
    # not in Unicode normal form C (decomposed accent, compatibility singletons)
    ("e\u0301 de\u0301compose\u0301", "n"), ("\u212b and \u2126", "n"),
    ("ends with i", ""), ("i", ""), ("#not a colour", ""), ("0x1F", ""), ("1 2 3", ""), ("a  b", ""), ("NULL", ""),
]
# contents that look like something else; only used where a check asks for them explicitly
LOOKALIKE_POOL = [("(a)", "x"), ("/re/", "x"), ("{a,b}", "x"), ("[bind]", "x"), ("#FFF", "h")]

INT_POOL = ["0", "1", "7", "42", "255", "+3", "-1", "-12", "007", "1000000", "10", "5", "123456789012", "-2147483649", "65536",
            # beyond the exact range of a double
            "9007199254740993", "-9007199254740993", "123456789012345678901234567890"]
FLOAT_POOL = ["0.5", "1.0", "-2.5", "4e2", "+3.25", "1e-3", "2.5E+3", "-0.25", "12.75", "100.0", "3.14159", "1.5e0",
              # precision and exponent boundary forms (Python prints 1e-05, 2e+16 for these)
              "-122.4194155", "37.7749295", "0.0000004", "1234567.891011", "0.00001", "-0.00002", "20000000000000000.0",
              "0.1", "5.0", "-0.0", "99999.999999"]
HEX_POOL = ["#FF00aa", "#abc", "#ABCDEF80", "#00ff00", "#F0F", "#a1B2c3", "#aabbccDD", "#00ff00C8", "#112233aB", "#FFFFFFFF",
            "#AbC", "#000000", "#fffffe", "#0A0B0C0D"]
BIND_POOL = ["name", "POP_2020", "size", "Angle", "x-y", "a:b"]
REGEX_POOL = ["/^[0-9]+$/", "/abc/", "/^a.*z$/i", "/(x|y)/", "/\\d+/"]
# expressions already in the normal form the transformer stores (C10: re-parsing is stable)
EXPR_POOL = ["( [a] = 1 )", "( ( [a] = 1 ) AND ( [b] = 2 ) )", "( ( [pop] > 100 ) OR ( [pop] < 5 ) )",
             "( \"[name]\" = \"x\" )", "([a] + 2)", "([a] * 2 - 1)", "( ( [a] >= 1.5 ) AND ( NOT ( [b] = 'y' ) ) )"]
EXPR_POOL += ['( "[note]" = "closed :-)" )', "( '[code]' ~ '^A(1' )", "(([a] + 1) * ([b] + 2))", "( ( [a] = 1 ) AND ( [b] = `(x` ) )"]
EXPR_POOL = [e for e in EXPR_POOL if "NOT" not in e]
# (expressions in the stored normal form; NOT is written the way the normal form writes it)
EXPR_POOL += ["( ( [a] = 1 ) AND NOT ( [b] = 2 ) )", "( ( [a] = 1 ) OR NOT ( [b] = 'y' ) )"]
CHAR_POOL = ["x", "D", "\u00e9", "7", "\u00df", "\ufb01", "|", " "]      # (LABEL WRAP ' ' is the form the MapServer documentation uses)
# case-insensitive string comparisons: stored and printed verbatim, quotes and trailing i included
ISTRING_POOL = ['"north"i', "'aitkin'i", '"Main St"i', "'x'i"]
# list expressions: elements are kept verbatim (zero-padded codes, trailing zeros, signs, booleans, phrases)
LIST_POOL = ["{a,b}", "{01,02,10}", "{1.50,2.00}", "{+3,-5}", "{TRUE,false}", "{A\u00e9rodrome,Base spatiale}", "{bla,d'apostrophe}", "{1e3,x_1}"]
KVKEY_POOL = ["wms_title", "OWS_Enable_Request", "Qstring", "default_BASE", "wfs_SRS", "gml_Include_Items", "key-1", "a:b",
              "wms_srs ", " Lead_Key", "two words"]
CFGKEY_POOL = ["MS_ERRORFILE", "Proj_Lib", "ms_encryption_key", "ON_MISSING_DATA", "Cgi_Context_Url"]

BARE_RE = re.compile(r"^[a-zA-Z_\xc0-\xff][a-zA-Z0-9_\xc0-\xff\-:]*$")


def mixed(word):
    out = []
    up = True
    for ch in word:
        if ch.isalpha():
            out.append(ch.upper() if up else ch.lower())
            up = not up
        else:
            out.append(ch)
    return "".join(out)


def case(word, kc):
    if kc == "U":
        return word.upper()
    if kc == "l":
        return word.lower()
    return mixed(word)


class Tok:
    __slots__ = ("text", "role", "item", "depth", "first", "extra")

    def __init__(self, text, role, item, depth, first=False, extra=None):
        self.text = text          # exact source text of the token
        self.role = role          # opener end key val kvopen kvkey kvval ...
        self.item = item          # index of the builder action that produced it
        self.depth = depth        # nesting depth of the enclosing block
        self.first = first        # first token of an item (gets its own line in the default layout)
        self.extra = extra

    def __repr__(self):
        return "Tok(%r,%s,%s)" % (self.text, self.role, self.item)


class Concretiser:
    def __init__(self, seed=0, lookalikes=False, ascii_only=False, no_multiline=False, avoid_quote=None, bare_strings=False, strings=None, exprs=None):
        self.rng = random.Random(seed)
        r = self.rng

        def perm(p):
            p = list(p)
            r.shuffle(p)
            return p
        sp = list(STR_POOL)
        if bare_strings:      # only contents that may also be written as an unquoted bare word
            sp = [("roads", ""), ("Layer_1", ""), ("a-b:c", ""), ("\u00c4pfel", "n"), ("circle", ""), ("my_font", ""), ("x1", "")]
        if strings is not None:      # a caller-chosen pool (targeted probes)
            sp = [(x, "") for x in strings]
        if ascii_only:
            sp = [x for x in sp if "n" not in x[1]]
        if no_multiline:
            sp = [x for x in sp if "m" not in x[1]]
        if avoid_quote:
            sp = [x for x in sp if not any(c in x[0] for c in avoid_quote)]
        self.strs = perm(sp)
        self.ints = perm(INT_POOL)
        self.floats = perm(FLOAT_POOL)
        self.hexes = perm(HEX_POOL)
        self.binds = perm(BIND_POOL)
        self.regexes = perm(REGEX_POOL)
        self.exprs = perm(EXPR_POOL) if exprs is None else list(exprs)
        self.chars = perm(CHAR_POOL)
        self.lists = perm(LIST_POOL)
        self.istrings = perm(ISTRING_POOL)
        self.kvkeys = perm(KVKEY_POOL)
        self.cfgkeys = perm(CFGKEY_POOL)
        self.salt = r.randrange(1 << 30)

    # ---------------------------------------------------------------- contents
    def _pick(self, pool, i):
        return pool[(i + self.salt) % len(pool)]

    def content(self, v):
        """the inner content of the source lexeme of v (what a str value must equal)"""
        sh = v["sh"]
        if sh == "str":
            return self._pick(self.strs, v["id"])[0]
        if sh == "char":
            return self._pick(self.chars, v["id"])
        if sh == "strpat":
            if v.get("w") and not v["w"].startswith("&#"):
                return v["w"]
            return "&#%d;" % (10140 + v["id"])
        if sh == "enum":
            return case(v["w"], v["cs"])
        if sh == "hex":
            return self._pick(self.hexes, v["id"])
        if sh == "bind":
            return "[" + self._pick(self.binds, v["id"]) + "]"
        if sh == "regex":
            return self._pick(self.regexes, v["id"])
        if sh == "expr":
            return self._pick(self.exprs, v["id"])
        if sh == "listexpr":
            return self._pick(self.lists, v["id"])
        if sh == "istring":
            return self._pick(self.istrings, v["id"])
        if sh == "int":
            return self._pick(self.ints, v["id"])
        if sh == "float":
            return self._pick(self.floats, v["id"])
        if sh == "kvkey":
            w = self._pick(self.kvkeys, v["id"])
            n = v.get("n", 1)
            return [w, w.upper(), w.lower(), mixed(w)][n % 4]
        if sh == "cfgkey":
            w = self._pick(self.cfgkeys, v["id"])
            return w
        if sh == "auto":
            return case("auto", v["cs"])
        if sh == "bool":
            return case("true" if v["b"] else "false", v["cs"])
        raise KeyError(sh)

    def quote(self, s, prefer):
        """wrap s in a quote character that does not occur *unescaped* in it (the grammar lets a
        backslash-escaped quote stand inside a string delimited by that quote)"""
        def usable(q):
            return re.search(r"(?<!\\)" + q, s) is None and not s.endswith("\\")
        q = prefer
        if not usable(q):
            q = "'" if q == '"' else '"'
        if not usable(q):
            raise ValueError("both quotes in %r" % s)
        return q + s + q

    def lexeme(self, v, bare_ok=False):
        """source text of a value"""
        sh = v["sh"]
        c = self.content(v)
        if sh in ("str", "char", "strpat"):
            prefer = '"' if (v.get("id", 0) + self.salt) % 3 else "'"
            return self.quote(c, prefer)
        if sh == "hex":
            prefer = '"' if (v.get("id", 0) + self.salt) % 2 else "'"
            return self.quote(c, prefer)
        if sh == "enum":
            if v["w"].lower() == "end" or not BARE_RE.match(v["w"]):     # MapServer spelling: bare word
                return '"' + c + '"'
            return c
        if sh in ("kvkey", "cfgkey"):
            if (v["id"] + v.get("n", 0) + self.salt) % 3 == 0 and BARE_RE.match(c) and c.lower() not in BLOCK_WORDS:
                return c
            return self.quote(c, '"' if (v["id"] + self.salt) % 2 else "'")
        return c            # int float bool bind regex expr auto: written as they are

    # ---------------------------------------------------------------- tokens
    def value_tokens(self, v, idx, depth):
        sh = v["sh"]
        if sh in ("numlist2", "numlist3", "numlist4", "numlist6", "hexpair", "bindpair", "mixedpair"):
            return [Tok(self.lexeme(e), "val", idx, depth, extra=e) for e in v["elems"]]
        return [Tok(self.lexeme(v), "val", idx, depth, extra=v)]

    def tokens(self, hist, close=True):
        """tokens of the document described by the builder actions (the pending ENDs are added
        when close=True, so every prefix of a behaviour is a well-formed document)"""
        toks = []
        stack = []
        root = None
        for idx, a in enumerate(hist):
            k = a["a"]
            depth = len(stack)
            if k == "open":
                toks.append(Tok(case(a["type"], a["kc"]), "opener", idx, depth, True, a["type"]))
                stack.append(a["type"])
            elif k == "end":
                stack.pop()
                toks.append(Tok(case("end", a["kc"]), "end", idx, len(stack), True))
            elif k == "attr":
                toks.append(Tok(case(a["key"], a["kc"]), "key", idx, depth, True, a["key"]))
                toks += self.value_tokens(a["val"], idx, depth)
            elif k == "repeated":
                toks.append(Tok(case(a["key"], a["kc"]), "key", idx, depth, True, a["key"]))
                toks.append(Tok(self.lexeme(a["val"]), "val", idx, depth, extra=a["val"]))
            elif k == "kv":
                toks.append(Tok(case(a["type"], a["kc"]), "kvopen", idx, depth, True, a["type"]))
                for kk, vv in a["pairs"]:
                    toks.append(Tok(self.lexeme(kk), "kvkey", idx, depth + 1, True, kk))
                    toks.append(Tok(self.lexeme(vv), "kvval", idx, depth + 1, extra=vv))
                toks.append(Tok(case("end", a["kc"]), "kvend", idx, depth, True))
            elif k == "config":
                toks.append(Tok(case("config", a["kc"]), "key", idx, depth, True, "config"))
                toks.append(Tok(self.lexeme(a["k"]), "cfgkey", idx, depth, extra=a["k"]))
                toks.append(Tok(self.lexeme(a["v"]), "cfgval", idx, depth, extra=a["v"]))
            elif k == "projection":
                toks.append(Tok(case("projection", a["kc"]), "projopen", idx, depth, True, "projection"))
                if a["auto"]:
                    toks.append(Tok(case("auto", a["cs"]), "projval", idx, depth + 1, True))
                else:
                    for s in a["strs"]:
                        toks.append(Tok(self.lexeme(s), "projval", idx, depth + 1, True, s))
                toks.append(Tok(case("end", a["kc"]), "projend", idx, depth, True))
            elif k in ("points", "pattern"):
                toks.append(Tok(case(k, a["kc"]), "ptsopen", idx, depth, True, k))
                for p in a["pairs"]:
                    toks.append(Tok(self.lexeme(p[0]), "ptsval", idx, depth + 1, True, p[0]))
                    toks.append(Tok(self.lexeme(p[1]), "ptsval", idx, depth + 1, extra=p[1]))
                toks.append(Tok(case("end", a["kc"]), "ptsend", idx, depth, True))
            elif k == "root":
                root = a
                toks.append(Tok(case(a["type"], a.get("kc", "U")), "opener", idx, 0, True, a["type"]))
                stack.append(a["type"])
            elif k == "finish":
                pass
            else:
                raise KeyError(k)
        if close:
            while stack:
                stack.pop()
                toks.append(Tok("END", "end", len(hist), len(stack), True))
        return toks

    # ---------------------------------------------------------------- expected values
    def expected(self, av):
        """abstract dict value (spec) -> typed Python value"""
        py = av["py"]
        if py == "str":
            s = self.content(av["of"])
            if av.get("f") == "lower":
                s = s.lower()
            elif av.get("f") == "upper":
                s = s.upper()
            return s
        if py == "int":
            return int(self.content(av["of"]))
        if py == "float":
            return float(self.content(av["of"]))
        if py == "bool":
            return bool(av["b"])
        if py == "list":
            return [self.expected(e) for e in av["elems"]]
        if py == "dict":
            items = []
            for k, v in av["items"]:
                if isinstance(k, dict):
                    kk = self.content(k["of"])
                    if k.get("f") == "lower":
                        kk = kk.lower()
                else:
                    kk = k
                items.append((kk, self.expected(v)))
            return ("dict", av["type"], items)
        raise KeyError(py)


def with_root(hist, root_type, kc="U"):
    """behaviours from Reader.tla start inside the root block; prepend its opener"""
    return [{"a": "root", "type": root_type, "kc": kc}] + list(hist)


def assemble(toks, indent=2, nl="\n", sep=" ", seps=None):
    """Lay tokens out.  Default: one item per line, indented by depth.  seps (optional) gives the
    exact separator string before each token.  Returns (text, positions) with positions[i] =
    (line, col) 1-based of token i, computed here and not by the code under test."""
    out = []
    pos = []
    line, col = 1, 1

    def advance(s):
        nonlocal line, col
        i = 0
        while i < len(s):
            ch = s[i]
            if ch == "\r" and i + 1 < len(s) and s[i + 1] == "\n":
                line += 1
                col = 1
                i += 2
                continue
            if ch == "\n":
                line += 1
                col = 1
            else:
                col += 1
            i += 1

    for i, t in enumerate(toks):
        if seps is not None:
            s = seps[i]
        elif i == 0:
            s = ""
        elif t.first:
            s = nl + (" " * (indent * t.depth))
        else:
            s = sep
        out.append(s)
        advance(s)
        pos.append((line, col))
        out.append(t.text)
        advance(t.text)
    return "".join(out) + (nl if seps is None else ""), pos
