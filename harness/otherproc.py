"""Run in a second interpreter (different PYTHONHASHSEED): reads JSON lines {"text", "opts"} and
prints the sha1 of dumps(loads(text), **opts) per line ("ERR" when it raises)."""
import hashlib
import json
import os
import sys

# run as a script: the script's own directory (harness/) must not shadow standard-library modules
sys.path[:] = [x for x in sys.path if os.path.abspath(x or ".") != os.path.dirname(os.path.abspath(__file__))]
sys.path.insert(0, os.environ.get("VERIF_REPO", "/repo"))
from mappyfile.parser import Parser  # noqa: E402
from mappyfile.transformer import MapfileToDict  # noqa: E402
from mappyfile.pprint import PrettyPrinter  # noqa: E402

p = Parser(expand_includes=False)
m = MapfileToDict()
for line in sys.stdin:
    c = json.loads(line)
    try:
        d = m.transform(p.parse(c["text"]))
        t = PrettyPrinter(**c["opts"]).pprint(d)
        print(hashlib.sha1(t.encode("utf-8")).hexdigest())
    except Exception as ex:  # noqa: BLE001
        print("ERR " + type(ex).__name__)
