"""Small additions around harness/tlc.py used by C17 / C18 (kept out of the shared runner).

run(...)        like tlc.run, but a violated *implied action of an instantiated module* (TLC words it
                "Action property line N, col ... of module M is violated", which tlc.run takes for a
                crash) comes back as a result with .violated = "<name given by the caller>".
parallel(jobs)  several TLC runs side by side (each single-worker so that PrintT lines do not
                interleave); jobs = [(key, kwargs for run)], returns {key: result}.
"""
from __future__ import annotations
import re
from concurrent.futures import ThreadPoolExecutor
from . import tlc


class Rejected:
    """what is left of a TLC run that ended in an unnamed action-property violation"""

    def __init__(self, violated, text):
        self.violated = violated
        self.out = text
        self.prints = []
        self.states = self.distinct = self.depth = None
        self.wall = 0.0
        self.rc = 13

    def summary(self):
        return {"rc": self.rc, "states": None, "distinct": None, "depth": None, "violated": self.violated,
                "wall_s": self.wall}


def run(module, cfg, unnamed_action_property="Refines", **kw):
    try:
        return tlc.run(module, cfg, **kw)
    except tlc.TLCFailure as ex:
        m = re.search(r"Action property line \d+, col \d+ to line \d+, col \d+ of module (\w+) is violated", str(ex))
        if m:
            return Rejected("%s(%s)" % (unnamed_action_property, m.group(1)), str(ex))
        raise


def parallel(jobs, max_parallel=8):
    out = {}
    with ThreadPoolExecutor(max_workers=max_parallel) as ex:
        futs = {k: ex.submit(run, **kw) for k, kw in jobs}
        for k, f in futs.items():
            out[k] = f.result()
    return out
