"""Schema-valid documents, fault injection and the reference schema evaluation for C07 / C08.

The behaviours (document + faults + variant + expected message names) come from spec/Faults.tla;
this module renders a *valid* document for a behaviour (slot-aware values), loads it with the real
code, applies the faults through the dict API and evaluates the published schema with an own
registry (the property defines the verdict as schema conformance).
"""
from __future__ import annotations
import copy
import json
import os
import random
from collections import OrderedDict

import jsonschema
from referencing import Registry, Resource
from referencing.jsonschema import DRAFT4

from . import common, concretise, vocab, tlc, docs


# ------------------------------------------------------------------ reference evaluation
class Reference:
    def __init__(self):
        self.dir = os.path.join(common.REPO, "mappyfile", "schemas")
        self.cache = {}
        self.registry = Registry(retrieve=self._retrieve)
        self.validators = {}

    def _load(self, name):
        if not name.endswith(".json"):
            name += ".json"
        if name not in self.cache:
            with open(os.path.join(self.dir, name), encoding="utf-8") as f:
                self.cache[name] = json.load(f)
        return self.cache[name]

    def _retrieve(self, uri):
        return Resource.from_contents(self._load(uri.split("/")[-1]), default_specification=DRAFT4)

    def errors(self, d, root):
        if root not in self.validators:
            self.validators[root] = jsonschema.Draft4Validator(self._load(root), registry=self.registry)
        return list(self.validators[root].iter_errors(lower_json(d)))


def lower_json(x):
    if isinstance(x, (list, tuple)):
        return [lower_json(v) for v in x]
    if isinstance(x, dict):
        return {str(k).lower(): lower_json(v) for k, v in x.items()}
    if isinstance(x, str):
        return x.lower()
    return x


# ------------------------------------------------------------------ slot-aware valid rendering
class ValidRenderer(concretise.Concretiser):
    """like Concretiser, but numbers respect the bounds the schema declares for their slot"""

    def __init__(self, seed=0, **kw):
        super().__init__(seed, **kw)
        self.v = vocab.get()
        self.ctx = None
        self.r2 = random.Random(seed + 77)

    def bounds(self, elem_index=None):
        if not self.ctx:
            return {}
        t, k = self.ctx
        e = self.v["schema"]["types"].get(t, {}).get("props", {}).get(k)
        if not e:
            return {}
        b = {}
        for a in e["alts"]:
            src = a
            if a["kind"] == "array" and a.get("items"):
                src = a["items"][0]
                if a.get("tuple_form") and elem_index is not None and elem_index < len(a["tuple_items"]) and a["tuple_items"][elem_index]:
                    src = a["tuple_items"][elem_index][0]
            if src.get("kind") in ("int", "num"):
                for kk in ("minimum", "maximum", "exclusiveMinimum", "exclusiveMaximum"):
                    if kk in src:
                        b[kk] = src[kk]
                    if "outer_" + kk in a:
                        b.setdefault(kk, a["outer_" + kk])
            if src.get("kind") == "enumnum":
                b["nums"] = src["nums"]
        return b

    def number(self, sh, elem_index=None):
        b = self.bounds(elem_index)
        if "nums" in b and sh == "int":
            return str(self.r2.choice([n for n in b["nums"] if isinstance(n, int)]))
        lo = b.get("minimum")
        if "exclusiveMinimum" in b and not isinstance(b["exclusiveMinimum"], bool):
            lo = max(lo, b["exclusiveMinimum"] + 1) if lo is not None else b["exclusiveMinimum"] + 1
        hi = b.get("maximum")
        if lo is None:
            lo = 2
        if hi is None:
            hi = max(lo + 40, 50)
        lo, hi = max(lo, -360), min(hi, 100000)
        if lo > hi:
            lo = hi
        if sh == "int":
            import math
            return str(self.r2.randint(math.ceil(lo), math.floor(hi)))
        x = self.r2.uniform(lo, hi)
        x = min(max(round(x, 2), lo), hi)
        s = repr(float(x))
        return s

    def content(self, v):
        if v["sh"] in ("int", "float") and self.ctx is not None:
            key = ("num", id(v))
            if not hasattr(self, "_numcache"):
                self._numcache = {}
            if key not in self._numcache:
                self._numcache[key] = self.number(v["sh"], v.get("_i"))
            return self._numcache[key]
        return super().content(v)

    def value_tokens(self, v, idx, depth):
        if "elems" in v:
            for i, e in enumerate(v["elems"]):
                e["_i"] = i
        return super().value_tokens(v, idx, depth)

    def tokens(self, hist, close=True):
        # set the (type, keyword) context for every attr before its lexemes are drawn
        stack = []
        for a in hist:
            if a["a"] in ("root", "open"):
                stack.append(a["type"])
            elif a["a"] == "end":
                stack.pop()
            elif a["a"] == "attr":
                a["_ctx"] = (stack[-1], a["key"])
        orig = self.value_tokens

        def vt(v, idx, depth, _orig=orig, _hist=hist):
            self.ctx = _hist[idx].get("_ctx")
            try:
                return _orig(v, idx, depth)
            finally:
                self.ctx = None
        self.value_tokens = vt
        try:
            return super().tokens(hist, close)
        finally:
            self.value_tokens = orig


# ------------------------------------------------------------------ behaviours
def behaviours(n, seed, ck, max_faults=2, max_steps=14, tag="faults", blocks_only=False):
    vocab.get()
    cfg = tlc.cfg_text(init="FInit", next_="FNext",
                       constants={"MaxDepth": 5, "MaxSteps": max_steps, "Ids": {1, 2, 3, 4}, "StepPosts": False,
                                  "Mode": "nodup", "MaxFaults": max_faults, "BlocksOnly": blocks_only},
                       invariants=["FEmit", "VerdictIgnoresVariant"])
    r = tlc.run("Faults", cfg, tag=tag, mode="simulate", simulate="num=%d" % n, depth=max_steps + 12, seed=seed, timeout=1800)
    if r.violated:
        raise common.MachineryFailure("Faults model property %s violated" % r.violated)
    if ck is not None:
        ck.add_tlc(tag, r)
    return [p for p in r.prints if isinstance(p, dict) and "faults" in p]


def nested_object_behaviours(ck, max_steps=3, tag="faults_nested"):
    """exhaustive: every document of <= max_steps block openers / ENDs (all root types, upper-case keywords), one
    object-level fault on any block, variant none"""
    vocab.get()
    cfg = tlc.cfg_text(init="FInit", next_="FNext",
                       constants={"MaxDepth": 5, "MaxSteps": max_steps, "Ids": {1}, "StepPosts": False,
                                  "Mode": "nodupall", "MaxFaults": 1, "BlocksOnly": True},
                       invariants=["FEmit", "VerdictIgnoresVariant"]) + "CONSTANT Cases <- CasesOne\nCONSTANT Variants <- VariantsNone\n"
    r = tlc.run("Faults", cfg, tag=tag, workers=1, timeout=1800)
    if r.violated:
        raise common.MachineryFailure("Faults model property %s violated" % r.violated)
    if ck is not None:
        ck.add_tlc(tag, r)
    return [p for p in r.prints if isinstance(p, dict) and "faults" in p]


def plural(t):
    return t + "es" if t.endswith("s") else t + "s"


def chains(hist, singletons):
    """item index -> path [(key, index|None)] of the block *containing* the item (for attrs) and of the
    block itself (for open items, key "own")"""
    acts = [a for a in hist if a["a"] != "finish"]
    chain, counts = [], [{}]
    enclosing, own = {}, {0: []}
    for i, a in enumerate(acts, start=1):
        enclosing[i] = list(chain)
        if a["a"] == "open":
            t = a["type"]
            if t in singletons:
                chain.append((t, None))
            else:
                c = counts[-1]
                c[t] = c.get(t, 0) + 1
                chain.append((plural(t), c[t] - 1))
            counts.append({})
            own[i] = list(chain)
        elif a["a"] == "end":
            chain.pop()
            counts.pop()
    return enclosing, own


def nav(d, chain):
    for key, idx in chain:
        d = d[key]
        if idx is not None:
            d = d[idx]
    return d


def slot_bound(v, t, k, which):
    e = v["schema"]["types"][t]["props"][k]["alts"][0]
    return e[which]


def apply_fault(v, d, hist, f, singletons):
    """mutate the loaded dict through the dict API; returns the block the fault sits in"""
    acts = [a for a in hist if a["a"] != "finish"]
    enclosing, own = chains(hist, singletons)
    i, kind = f["item"], f["kind"]
    if kind == "objlist-item-not-object":
        chain = own[i]
        parent = nav(d, chain[:-1])
        key, idx = chain[-1]
        lst = list(parent[key])
        lst[idx] = "oops"
        parent[key] = lst
        return parent
    if kind in ("unknown-keyword", "missing-required"):
        blk = nav(d, own[i])
        if kind == "unknown-keyword":
            # names near the hidden-key pattern ^__[a-z]+__$ (only exact matches are hidden keys)
            names = ["zzz_unknown_keyword", "__foo", "__foo_bar__", "__x1__", "___", "name2", "foo__", "__Foo"]
            blk[names[(i + len(hist)) % len(names)]] = "x"
        else:
            req = v["schema"]["types"][blk["__type__"]]["required"]
            for r in req:
                if r in blk:
                    del blk[r]
        return blk
    a = acts[i - 1]
    blk = nav(d, enclosing[i])
    if kind == "pair-elem-wrong-type":
        key = a["a"]
        pairs = [list(p) for p in blk[key]]
        pairs[-1][-1] = "five"
        blk[key] = pairs
        return blk
    key = a["key"]
    if kind == "repeated-wrong-type":
        # the n-th occurrence of this repeated keyword in its block
        n = sum(1 for j2, b in enumerate(acts[:i - 1], start=1)
                if b["a"] == "repeated" and b["key"] == key and enclosing[j2] == enclosing[i])
        lst = list(blk[key])
        lst[n] = 12345
        blk[key] = lst
        return blk
    t = blk["__type__"]
    if kind == "enum-outside":
        blk[key] = "zzz_not_in_enum"
    elif kind == "below-min":
        blk[key] = slot_bound(v, t, key, "minimum") - 1
    elif kind == "above-max":
        blk[key] = slot_bound(v, t, key, "maximum") + 1
    elif kind == "wrong-arity":
        blk[key] = list(blk[key])[:-1]
    elif kind == "elem-wrong-type":
        lst = list(blk[key])
        lst[0] = "not-a-number"
        blk[key] = lst
    elif kind == "int-as-float":
        blk[key] = float(blk[key])
    elif kind == "wrong-type":
        blk[key] = 12345 if a["val"]["sh"] == "str" else "maybe"
    else:
        raise KeyError(kind)
    return blk


def variant_of(d, variant):
    """a copy of d under a verdict-preserving variant"""
    if variant in ("none", "aslist"):
        return d

    def up_values(x):
        if isinstance(x, dict):
            for k in list(x.keys()):
                if isinstance(k, str) and k.startswith("__") and k.endswith("__"):
                    continue
                x[k] = up_values(x[k])
            return x
        if isinstance(x, list):
            return [up_values(e) for e in x]
        if isinstance(x, tuple):
            return tuple(up_values(e) for e in x)
        if isinstance(x, str):
            u = x.upper()
            # only a letter-case variant of the same string (the upper case of sharp s or of ligatures is another string)
            return u if u.lower() == x.lower() else x
        return x

    def up_keys(x):
        if isinstance(x, dict):
            out = OrderedDict()
            for k, val in x.items():
                hidden = isinstance(k, str) and k.startswith("__") and k.endswith("__")
                container = isinstance(val, dict) or (isinstance(val, list) and val and isinstance(val[0], dict))
                nk = k if (hidden or container) else k.upper()
                out[nk] = up_keys(val) if not hidden else val
            return out
        if isinstance(x, list):
            return [up_keys(e) for e in x]
        return x

    def hidden(x, depth=0):
        if isinstance(x, dict):
            x["__verif__"] = {"any": ["thing", 1]}
            x["__note__"] = "hidden"
            for k in list(x.keys()):
                if not (isinstance(k, str) and k.startswith("__")):
                    hidden(x[k], depth + 1)
        elif isinstance(x, list):
            for e in x:
                hidden(e, depth + 1)
        return x
    c = copy.deepcopy(d)
    if variant == "upper-values":
        return up_values(c)
    if variant == "upper-keys":
        return up_keys(c)
    if variant == "hidden":
        return hidden(c)
    raise KeyError(variant)
