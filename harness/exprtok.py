"""Independent tokenizer / renderer for MapServer expressions (property C10).  stdlib only - no
mappyfile imports.  Token format of spec/Expr.tla: [class, n] with classes LP RP COMMA, OR AND NOT
(n: 1 = AND/OR/NOT, 2 = && || !, 3 = any other letter case), CMP (n = spelling id), ADD SUB MUL DIV
POW NEG, ATOM (n = interned text id: bindings, numbers, strings, lists and regular expressions are
opaque), FUNC (n = interned function name id).  Texts are interned to small ids because TLC strings
are atoms; ids below 1000 are the tables below (the ids TLC generates), unknown texts get ids from
1000 upwards."""
from __future__ import annotations

CMP_OPS = {1: "=", 2: "==", 3: "!=", 4: "<", 5: "<=", 6: ">", 7: ">=", 8: "~", 9: "~*", 10: "%", 11: "=*",
           12: "IN", 13: "EQ", 14: "NE", 15: "LT", 16: "LE", 17: "GT", 18: "GE", 19: "LIKE",
           20: "in", 21: "eq", 22: "ne", 23: "lt", 24: "le", 25: "gt", 26: "ge", 27: "like"}
PCT_OP = 10            # = PctOp in spec/Expr.tla
LOGIC = {"OR": {1: "OR", 2: "||", 3: "or"}, "AND": {1: "AND", 2: "&&", 3: "and"}, "NOT": {1: "NOT", 2: "!", 3: "not"}}
ARITH = {"ADD": "+", "SUB": "-", "MUL": "*", "DIV": "/", "POW": "^"}

# operands TLC draws from (AtomIds); all texts distinct; numbers in Python's canonical spelling
ATOMS = {
    1: "[a]", 2: "[b]", 3: "[name]", 4: "[pop_2020]", 5: "[x]", 6: "[AREA]",
    7: "1", 8: "2", 9: "10", 10: "255",
    11: "2.5", 12: "0.75",
    13: "'single'", 14: "'it s'", 15: "'A-1'",
    16: '"double"', 17: '"two words"', 18: '"%d-%m"',
    19: "`2020-01-01`", 20: "`backquoted`",
    21: "`12:30`", 22: "100",
    23: "/^[a-z]+$/", 24: "/road/i",
    25: '"a (b) AND c"', 26: "'[z]'",
    # strings whose content could be mistaken for structure, by quote character (TrickySq / Dq / Bq)
    30: "'o\"clock'", 31: "'('", 32: "')'", 33: "'a (b'", 34: "'x`y'",
    35: '"it\'s"', 36: '"("', 37: '")"', 38: '"5` ("', 39: '"[x] + (1"',
    40: "`o'clock`", 41: "`(`", 42: '`5"`', 43: "`a)b`", 44: "`it's (`",
    # runs of blanks / a tab inside operands (operand text is compared exactly), every quote kind and a regex
    # numeric literals with many significant digits, very small / large magnitudes, exponent forms (WideNums);
    # all in the spelling Python gives back (str(float(x)) == x), so "unchanged" means character for character
    50: "122.4194155", 51: "1.1234567", 52: "0.000123456789", 53: "1234567890.125", 54: "3.141592653589793",
    55: "1e-05", 56: "2.5e-08", 57: "1e+16", 58: "12345678901234567890",
    45: "'New  York'", 46: '"Area:   "', 47: "`a \t b`", 48: "/^a  b+/", 49: '"tab\there  "',
}
PLAIN_ATOMS = set(range(1, 27))
WIDE_NUMS = set(range(50, 59))
assert all(str(float(ATOMS[i])) == ATOMS[i] or str(int(ATOMS[i])) == ATOMS[i] for i in WIDE_NUMS)
TRICKY = {"TrickySq": {30, 31, 32, 33, 34, 45}, "TrickyDq": {35, 36, 37, 38, 39, 46, 49},
          "TrickyBq": {40, 41, 42, 43, 44, 47}}
FUNCS = {1: "length", 2: "tostring", 3: "upper", 4: "round", 5: "lookup", 6: "inlist", 7: "initcap"}
# arguments of function f: ids 100f+j (FuncArity(f) = 1 for odd f, 2 for even f in spec/Expr.tla)
FUNC_ARGS = {101: "[n]", 201: "[x1]", 202: '"%.2f"', 301: "[label]", 401: "[y]", 402: "3", 601: "[code]", 701: '"two  blanks\t"'}
# list expressions: list l has 1 + l % 3 elements with ids 600+10l+j (ListElems in spec/Expr.tla); elements are
# interned in a namespace of their own (an element "1" is not the operand "1"); functions 5 and 6 take lists 4 / 5
LISTS = {1: ["a", "b c"], 2: ["1", "2", "3"], 3: ["007"], 4: ["01", "02"], 5: ["1.50", "2.0", "x"], 6: ["1e3"],
         7: ['"a"', "'b'"], 8: ["-2", "5", "+4"], 9: ["motorway"], 10: ["2_Klass", "Rte2etr"],
         11: ["x  y", '"q  r"', "z"]}
LIST_ELEMS = {600 + 10 * l + j + 1: t for l, ts in LISTS.items() for j, t in enumerate(ts)}
assert all(len(ts) == 1 + l % 3 for l, ts in LISTS.items())

CMP_WORDS = {"IN", "EQ", "NE", "LT", "LE", "GT", "GE", "LIKE"}
SYMBOLS = ["&&", "||", "!=", "==", "=*", "<=", ">=", "~*", "=", "<", ">", "~", "%", "!", "+", "-", "*", "/", "^"]
BINARY = {"OR", "AND", "CMP", "ADD", "SUB", "MUL", "DIV", "POW"}
OPERAND_AFTER = BINARY | {"LP", "COMMA", "NOT", "NEG", "POS"}
ELEM0 = 2000           # unknown list elements are interned from here


class Interner:
    def __init__(self):
        self.atom = {v: k for k, v in ATOMS.items()}
        self.atom.update({v: k for k, v in FUNC_ARGS.items()})
        assert len(self.atom) == len(ATOMS) + len(FUNC_ARGS)
        self.func = {v: k for k, v in FUNCS.items()}
        self.cmp = {v: k for k, v in CMP_OPS.items()}
        self.elem = {v: k for k, v in LIST_ELEMS.items()}
        assert len(self.elem) == len(LIST_ELEMS)
        self.text = {}
        self.next = 1000

    def _get(self, table, kind, text):
        if text not in table:
            table[text] = self.next
            self.text[self.next] = (kind, text)
            self.next += 1
        return table[text]

    def atom_id(self, text):
        return self._get(self.atom, "atom", text)

    def func_id(self, text):
        return self._get(self.func, "func", text)

    def cmp_id(self, text):
        return self._get(self.cmp, "cmp", text)

    def elem_id(self, text):
        return self._get(self.elem, "elem", text)


def atom_text(i):
    return ATOMS.get(i) or FUNC_ARGS[i]


def render(tokens, rng):
    """tokens (from TLC) -> expression text; spacing is free, so it is drawn from rng."""
    out = []
    n = len(tokens)
    for j, (c, i) in enumerate(tokens):
        nxt = tokens[j + 1][0] if j + 1 < n else None
        if c == "COMMA" and inlist(tokens, j):
            out.append(",")                    # (no free spacing inside a list: elements may contain spaces)
        elif c == "LP":
            out.append("( " if rng.random() < 0.25 else "(")
        elif c == "RP":
            out.append(" )" if rng.random() < 0.25 else ")")
        elif c == "COMMA":
            out.append(", " if rng.random() < 0.3 else ",")
        elif c == "ATOM":
            out.append(atom_text(i))
        elif c == "LB":
            out.append("{")
        elif c == "RB":
            out.append("}")
        elif c == "ELEM":
            out.append(LIST_ELEMS[i])
        elif c == "FUNC":
            out.append(FUNCS[i])
        elif c in ("OR", "AND"):
            s = LOGIC[c][i]
            tight = i == 2 and nxt not in ("NEG", "NOT") and rng.random() < 0.15
            out.append(s if tight else " %s " % s)
        elif c == "NOT":
            s = LOGIC[c][i]
            out.append(s if (i == 2 and rng.random() < 0.5) else s + " ")
        elif c == "CMP":
            s = CMP_OPS[i]
            tight = not s[0].isalpha() and nxt != "NEG" and rng.random() < 0.15
            out.append(s if tight else " %s " % s)
        elif c in ARITH:
            out.append(" %s " % ARITH[c])
        elif c == "NEG":
            # "--" and "-NOT" / "-name" are single words for the lexer under test: a unary minus in front of
            # another minus or NOT is written apart (in front of a function name: either way)
            apart = nxt in ("NEG", "NOT") or (nxt == "FUNC" and rng.random() < 0.5)
            out.append("- " if apart else "-")
        else:
            raise ValueError("unknown token class %r" % (c,))
    return "".join(out)


def inlist(tokens, j):
    for k in range(j, -1, -1):
        if tokens[k][0] == "LB":
            return True
        if tokens[k][0] in ("RB", "LP", "RP"):
            return False
    return False


def _split_list(inner):
    """elements of a list body, split at the commas outside quotes; spacing next to the punctuation is free"""
    parts, cur, q = [], "", None
    for ch in inner:
        if q:
            cur += ch
            if ch == q:
                q = None
        elif ch in "'\"`":
            q = ch
            cur += ch
        elif ch == ",":
            parts.append(cur)
            cur = ""
        else:
            cur += ch
    parts.append(cur)
    return [p.strip() for p in parts]


def tokenize(s, it):
    """expression text -> [[class, id], ...].  Anything unexpected becomes a BAD token (never raises)."""
    toks = []
    i = 0
    n = len(s)

    def operand_pos():
        return not toks or toks[-1][0] in OPERAND_AFTER

    while i < n:
        ch = s[i]
        if ch in " \t\r\n\f":
            i += 1
        elif ch == "(":
            toks.append(["LP", 0])
            i += 1
        elif ch == ")":
            toks.append(["RP", 0])
            i += 1
        elif ch == ",":
            toks.append(["COMMA", 0])
            i += 1
        elif ch == "[":
            j = s.find("]", i)
            j = n - 1 if j < 0 else j
            toks.append(["ATOM", it.atom_id(s[i:j + 1])])
            i = j + 1
        elif ch in "'\"`":
            j = i + 1
            while j < n and s[j] != ch:
                j += 2 if (s[j] == "\\" and ch != "`" and j + 1 < n and s[j + 1] == ch) else 1
            j = min(j, n - 1)
            toks.append(["ATOM", it.atom_id(s[i:j + 1])])
            i = j + 1
        elif ch == "{":
            j = s.find("}", i)
            if j < 0:
                toks.append(["BAD", it.atom_id(s[i:])])
                break
            toks.append(["LB", 0])
            for k, el in enumerate(_split_list(s[i + 1:j])):
                if k:
                    toks.append(["COMMA", 0])
                toks.append(["ELEM", it.elem_id(el)])
            toks.append(["RB", 0])
            i = j + 1
        elif ch == "/" and operand_pos():
            j = s.find("/", i + 1)
            j = n - 1 if j < 0 else j
            if j + 1 < n and s[j + 1] == "i":
                j += 1
            toks.append(["ATOM", it.atom_id(s[i:j + 1])])
            i = j + 1
        elif ch.isdigit():
            j = i
            while j < n and s[j].isdigit():
                j += 1
            if j + 1 < n and s[j] == "." and s[j + 1].isdigit():
                j += 1
                while j < n and s[j].isdigit():
                    j += 1
            if j < n and s[j] in "eE" and (s[j + 1:j + 2].isdigit() or (s[j + 1:j + 2] in ("+", "-") and s[j + 2:j + 3].isdigit())):
                j += 2
                while j < n and s[j].isdigit():
                    j += 1
            toks.append(["ATOM", it.atom_id(s[i:j])])
            i = j
        elif ch.isalpha() or ch == "_":
            j = i
            while j < n and (s[j].isalnum() or s[j] == "_"):
                j += 1
            w = s[i:j]
            u = w.upper()
            k = j
            while k < n and s[k] in " \t":
                k += 1
            if u in ("AND", "OR", "NOT"):
                toks.append([u, 1 if w == u else 3])
            elif u in CMP_WORDS:
                toks.append(["CMP", it.cmp_id(w)])
            elif k < n and s[k] == "(":
                toks.append(["FUNC", it.func_id(w)])
            else:
                toks.append(["ATOM", it.atom_id(w)])
            i = j
        else:
            for sym in SYMBOLS:
                if s.startswith(sym, i):
                    break
            else:
                toks.append(["BAD", it.atom_id(ch)])
                i += 1
                continue
            i += len(sym)
            if sym == "&&":
                toks.append(["AND", 2])
            elif sym == "||":
                toks.append(["OR", 2])
            elif sym == "!":
                toks.append(["NOT", 2])
            elif sym == "-":
                toks.append(["NEG", 0] if operand_pos() else ["SUB", 0])
            elif sym == "+":
                toks.append(["POS", 0] if operand_pos() else ["ADD", 0])
            elif sym == "*":
                toks.append(["MUL", 0])
            elif sym == "/":
                toks.append(["DIV", 0])
            elif sym == "^":
                toks.append(["POW", 0])
            else:
                toks.append(["CMP", it.cmp_id(sym)])
    return toks
