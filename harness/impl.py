"""Access to the implementation under test (/repo working tree).  Worker objects are reused in
harness loops (mappyfile.loads builds the Lark grammar on every call: 165 ms); the public per-call
API is sampled at a lower rate by the checks, and C12 separately establishes reuse == fresh."""
from __future__ import annotations
import logging
import os
import sys
from . import common

common.repo_on_path()
import mappyfile  # noqa: E402
from mappyfile.parser import Parser  # noqa: E402
from mappyfile.transformer import MapfileToDict  # noqa: E402
from mappyfile.pprint import PrettyPrinter  # noqa: E402
from mappyfile.validator import Validator  # noqa: E402
import lark  # noqa: E402
from mappyfile.ordereddict import CaseInsensitiveOrderedDict, DefaultOrderedDict  # noqa: E402
from mappyfile import dictutils  # noqa: E402

logging.getLogger("mappyfile").setLevel(logging.CRITICAL)
logging.getLogger("mappyfile").propagate = False

assert os.path.realpath(mappyfile.__file__).startswith(os.path.realpath(common.REPO)), mappyfile.__file__

_workers = {}


def loader(include_position=False, include_comments=False, expand_includes=True):
    key = (include_position, include_comments, expand_includes)
    if key not in _workers:
        p = Parser(expand_includes=expand_includes, include_comments=include_comments)
        m = MapfileToDict(include_position=include_position, include_comments=include_comments)
        _workers[key] = (p, m)
    p, m = _workers[key]

    def loads(text):
        return m.transform(p.parse(text))
    return loads


_printers = {}


def dumper(**opts):
    key = tuple(sorted(opts.items()))
    if key not in _printers:
        _printers[key] = PrettyPrinter(**opts)
    return _printers[key].pprint


_validator = None


def validator():
    global _validator
    if _validator is None:
        _validator = Validator()
    return _validator


LarkError = lark.exceptions.LarkError
