"""Access to the implementation under test (/repo working tree).  Worker objects are reused in
harness loops (mappyfile.loads builds the Lark grammar on every call: 165 ms); the public per-call
API is sampled at a lower rate by the checks, and C12 separately establishes reuse == fresh."""
from __future__ import annotations
import logging
import os
import sys
from . import common

common.repo_on_path()
import mappyfile  # noqa: E402
from mappyfile.parser import Parser  # noqa: E402
from mappyfile.transformer import MapfileToDict  # noqa: E402
from mappyfile.pprint import PrettyPrinter  # noqa: E402
from mappyfile.validator import Validator  # noqa: E402
import lark  # noqa: E402
from mappyfile.ordereddict import CaseInsensitiveOrderedDict, DefaultOrderedDict  # noqa: E402
from mappyfile import dictutils  # noqa: E402

logging.getLogger("mappyfile").setLevel(logging.CRITICAL)
logging.getLogger("mappyfile").propagate = False

assert os.path.realpath(mappyfile.__file__).startswith(os.path.realpath(common.REPO)), mappyfile.__file__

_workers = {}
_counts = {}


def loader(include_position=False, include_comments=False, expand_includes=True):
    key = (include_position, include_comments, expand_includes)
    if key not in _workers:
        p = Parser(expand_includes=expand_includes, include_comments=include_comments)
        m = MapfileToDict(include_position=include_position, include_comments=include_comments)
        _workers[key] = (p, m)
    p, m = _workers[key]
    n = _counts.setdefault(("loads", key), [0])

    def loads(text):
        # one call in PUBLIC_LOADS_EVERY goes through the public function (which builds its own workers)
        n[0] += 1
        if n[0] % PUBLIC_LOADS_EVERY == 0:
            return mappyfile.loads(text, expand_includes=expand_includes, include_position=include_position,
                                   include_comments=include_comments)
        return m.transform(p.parse(text))
    return loads


PUBLIC_LOADS_EVERY = 250
PUBLIC_DUMPS_EVERY = 5


_printers = {}


def dumper(**opts):
    key = tuple(sorted(opts.items()))
    if key not in _printers:
        _printers[key] = PrettyPrinter(**opts)
    pp = _printers[key]
    n = _counts.setdefault(("dumps", key), [0])

    def dumps(d):
        # one call in PUBLIC_DUMPS_EVERY goes through the public function
        n[0] += 1
        if n[0] % PUBLIC_DUMPS_EVERY == 0:
            return mappyfile.dumps(d, **opts)
        return pp.pprint(d)
    return dumps


def fresh_dumps(d, **opts):
    """print with a printer built for this call: alternately the public mappyfile.dumps and a new PrettyPrinter"""
    n = _counts.setdefault(("fresh",), [0])
    n[0] += 1
    if n[0] % 2:
        return mappyfile.dumps(d, **opts)
    return PrettyPrinter(**opts).pprint(d)


_validator = None


def validator():
    global _validator
    if _validator is None:
        _validator = Validator()
    return _validator


LarkError = lark.exceptions.LarkError
