"""Batch trace validation by TLC (use (T) of DESIGN.md).

Records (one JSON object per observed execution, each with a unique "tid") are written as NDJSON;
a Trace*.tla module reads them with ndJsonDeserialize(IOEnv.TRACE_FILE), steps through them one
state per record and prints exactly one verdict per record:
     PrintT(ToJson([tid |-> ..., verdict |-> "ok" | <name of the first violated clause>, ...]))
validate() returns {tid: verdict record}.  A record without verdict, or TLC failing, is a machinery
failure - verdicts are total.

Interner: TLC strings are atoms and its integers 32-bit, so text and numbers never cross into
TLA+ as such; they are interned to small ids, and the primitive relations the contracts need are
shipped as arrays indexed by id (lower[i], upper[i], numstr[n]).
"""
from __future__ import annotations
import json
import os
from . import tlc
from .common import MachineryFailure

BUILD = tlc.BUILD


class Interner:
    def __init__(self):
        self.sid = {}
        self.strs = []
        self.nid = {}
        self.nums = []

    def s(self, text):
        if text not in self.sid:
            self.strs.append(text)
            self.sid[text] = len(self.strs)
        return self.sid[text]

    def n(self, num):
        key = (type(num).__name__, repr(num))
        if key not in self.nid:
            self.nums.append(num)
            self.nid[key] = len(self.nums)
        return self.nid[key]

    def tables(self):
        """relations over ids; computed to a fixpoint because lower()/str() create new strings"""
        i = 0
        lower, upper = [], []
        while i < len(self.strs):
            s = self.strs[i]
            lower.append(self.s(s.lower()))
            upper.append(self.s(s.upper()))
            i += 1
        numstr = [self.s(str(x)) for x in self.nums]
        while len(lower) < len(self.strs):
            s = self.strs[len(lower)]
            lower.append(self.s(s.lower()))
            upper.append(self.s(s.upper()))
        return {"lower": lower, "upper": upper, "numstr": numstr}

    def value(self, v):
        """typed projection of a Python value (harness.project.project output) -> JSON for TLA+"""
        if isinstance(v, tuple) and v and v[0] == "dict":
            return {"t": "dict", "type": v[1], "items": [{"k": k if isinstance(k, str) else str(k), "v": self.value(x)} for k, x in v[2]]}
        if isinstance(v, list):
            return {"t": "list", "elems": [self.value(x) for x in v]}
        if isinstance(v, bool):
            return {"t": "bool", "b": v}
        if isinstance(v, int):
            return {"t": "int", "id": self.n(v)}
        if isinstance(v, float):
            return {"t": "float", "id": self.n(v)}
        if isinstance(v, str):
            return {"t": "str", "id": self.s(v)}
        if v is None:
            return {"t": "none"}
        return {"t": "other", "id": self.s(repr(v))}


PARALLEL = max(1, int(os.environ.get("VERIF_TLC_PARALLEL", "6")))


def validate(module, records, tag, chunk=1500, timeout=1800, constants=None, ck=None, canary=None):
    """Run TLC over the records in chunks; return {tid: verdict-dict}.

    canary(record) -> corrupted copy (or None): binding demonstration on every run - one real record is
    corrupted in one field and appended; the specification must reject it, otherwise the trace spec constrains
    nothing (MachineryFailure)."""
    verdicts = {}
    canaries = []
    if canary is not None:
        import copy
        for r in records:
            c = canary(copy.deepcopy(r))
            if c is not None:
                c["tid"] = "canary:%d" % len(canaries)
                canaries.append(c)
                if len(canaries) >= 3:
                    break
        if not canaries:
            raise MachineryFailure("no record could be corrupted for the canary of %s" % module)
        records = list(records) + canaries
    d = os.path.join(BUILD, "traces")
    os.makedirs(d, exist_ok=True)
    cfg = tlc.cfg_text(constants=constants, init="TInit", next_="TNext")

    def one(c):
        part = records[c:c + chunk]
        path = os.path.join(d, "%s_%d.%d.ndjson" % (tag, c, os.getpid()))
        with open(path, "w") as f:
            for r in part:
                f.write(json.dumps(r, separators=(",", ":")) + "\n")
        r = tlc.run(module, cfg, tag="%s_%d" % (tag, c), workers=1, timeout=timeout,
                    env={"TRACE_FILE": path}, heap="6g" if PARALLEL == 1 else "3g")
        got = {}
        for p in r.prints:
            if isinstance(p, dict) and "tid" in p and "verdict" in p:
                got[p["tid"]] = p
        missing = [x["tid"] for x in part if x["tid"] not in got]
        if missing:
            raise MachineryFailure("TLC returned no verdict for %d of %d traces (first %r) in %s\n%s" % (
                len(missing), len(part), missing[0], module, r.out[-1500:]))
        os.remove(path)
        return c, r, got

    offsets = list(range(0, len(records), chunk))
    # each chunk is one TLC process (one JVM start): several at a time when there are many
    if len(offsets) > 2 and PARALLEL > 1:
        from concurrent.futures import ThreadPoolExecutor
        with ThreadPoolExecutor(max_workers=PARALLEL) as ex:
            results = list(ex.map(one, offsets))
    else:
        results = [one(c) for c in offsets]
    for c, r, got in results:
        if ck is not None:
            ck.add_tlc("%s_%d" % (tag, c), r)
        verdicts.update(got)
    for c in canaries:
        v = verdicts.pop(c["tid"])
        if v["verdict"] in ("ok", "skipped-excluded"):
            raise MachineryFailure("%s accepted a deliberately corrupted record (canary): the trace specification is vacuous" % module)
    return verdicts
