"""Exhaustive quoting family: every string over the alphabet of spec/Quoting.tla up to a length bound, both quote
characters, replayed into the real reader and writer in every kind of string-valued slot.

spec/Quoting.tla states (and TLC checks, for every following text) when a content has a representation under a quote
character; the behaviours it emits carry that verdict.  Here the contents become real strings placed
  * in source text (reader side, C02): loads must return the content verbatim, whatever follows the token;
  * through the text -> dict -> text -> dict chain (C01, and the second pass of C04);
  * into a loaded dictionary through the dict API and printed (writer side, C03).
"""
from __future__ import annotations
from . import tlc, common

CH = {"a": "a", "sp": " ", "bs": "\\", "dq": '"', "sq": "'"}
QCH = {"dq": '"', "sq": "'"}

# the slots: (name, path in the loaded dict).  The template places the probed lexeme in every kind of string-valued
# slot, each followed by further quoted strings of both kinds (the "following text" of the model law).
SLOTS = [
    ("map.name", ("name",)),
    ("web.metadata.value", ("web", "metadata", "k1")),
    ("layer.processing", ("layers", 0, "processing", 0)),
    ("layer.data", ("layers", 0, "data")),
    ("class.text", ("layers", 0, "classes", 0, "text")),
    ("style.symbol", ("layers", 0, "classes", 0, "styles", 0, "symbol")),
    ("layer.projection", ("layers", 0, "projection", 0)),
    ("map.config", ("config", "ms_errorfile")),
]


def template(lex):
    # the neighbours hold escaped quotes of both kinds (representable under either output quote themselves)
    return ("MAP\n  NAME %(s)s\n  CONFIG \"MS_ERRORFILE\" %(s)s\n  WEB\n    METADATA\n      \"k1\" %(s)s\n      'k2' 'plain \\\"dq\\\" inside'\n    END\n  END\n"
            "  LAYER\n    NAME \"it\\'s\"\n    TYPE POINT\n    DATA %(s)s\n    PROCESSING %(s)s\n    PROCESSING 'x=\\\"y\\\"'\n"
            "    PROJECTION\n      %(s)s\n      \"b=\\'c\\'\"\n    END\n"
            "    CLASS\n      TEXT %(s)s\n      NAME 'q\\\"q'\n      STYLE\n        SYMBOL %(s)s\n        COLOR \"#ff0000\"\n      END\n    END\n  END\nEND\n") % {"s": lex}


def get(d, path):
    for k in path:
        d = d[k]
    return d


def put(d, path, v):
    for k in path[:-1]:
        d = d[k]
    if isinstance(d[path[-1]] if not isinstance(path[-1], int) else None, (list,)) and False:
        pass
    if isinstance(d, (list, tuple)):
        d[path[-1]] = v
    else:
        d[path[-1]] = v


def text_of(c):
    return "".join(CH[x] for x in c)


def behaviours(ck, max_len, tag="quoting"):
    cfg = tlc.cfg_text(constants={"MaxLen": max_len, "MaxTail": 3}, invariants=["RoundTripLaw", "TailLaw", "SomeQuoteWorks", "Emit"])
    r = tlc.run("Quoting", cfg, tag=tag, workers=1, timeout=1800)
    if r.violated:
        raise common.MachineryFailure("Quoting model law %s violated" % r.violated)
    if ck is not None:
        ck.add_tlc(tag, r)
    out = [p for p in r.prints if isinstance(p, dict) and "representable" in p]
    if len(out) < 10:
        raise common.MachineryFailure("Quoting model emitted %d behaviours" % len(out))
    return out


def source_quote(b):
    """a quote character under which the content can be written in source text (None: under neither)"""
    if b["representable"]:
        return b["q"]
    if b["other_ok"]:
        return "sq" if b["q"] == "dq" else "dq"
    return None


def describe(c):
    return "".join({"a": "a", "sp": "_", "bs": "\\", "dq": '"', "sq": "'"}[x] for x in c)


def shape(c):
    """coarse class of a content for signatures: which special characters it has and where"""
    s = set(c)
    parts = []
    for k in ("bs", "dq", "sq"):
        if k in s:
            parts.append(k)
    if c and c[-1] == "bs":
        parts.append("ends-bs")
    if c and c[0] in ("dq", "sq"):
        parts.append("starts-quote")
    if c and c[-1] in ("dq", "sq"):
        parts.append("ends-quote")
    return "+".join(parts) or "plain"


def template_last(lex, q):
    """the probed lexeme (quote q) is the last q-quoted string of the text: everything behind it uses the other quote"""
    o = "'" if q == "dq" else '"'
    return ("MAP\n  SHAPEPATH %(s)s\n  LAYER\n    NAME %(o)sy%(o)s\n    TYPE POINT\n    DATA %(o)sd a%(o)s\n  END\nEND\n") % {"s": lex, "o": o}


def set_path(d, path, v):
    for k in path[:-1]:
        d = d[k]
    d[path[-1]] = v


def run(ck, prop, tier, loads, dumper):
    """the clauses of property `prop` (C01 / C02 / C03) over the whole family; violations are reported on ck"""
    bs = behaviours(ck, 4 if tier == "quick" else 5, tag="quoting_" + prop.lower())
    n = 0
    for b in bs:
        c, q = b["c"], b["q"]
        s = text_of(c)
        sh = shape(c)
        sq = source_quote(b)
        qo = QCH[q]
        if prop in ("C01", "C02") and sq:
            lex = QCH[sq] + s + QCH[sq]
            src = template(lex)
            ck.count()
            n += 1
            try:
                d = loads(src)
            except Exception as ex:  # noqa: BLE001
                if prop == "C02":
                    ck.violation("C02|quoting|rejected|%s" % sh, "a quoted string the grammar's string terminal covers is rejected (%s): %r" % (type(ex).__name__, lex),
                                 {"text": src, "content": s})
                continue
            if prop == "C02":
                for name, path in SLOTS:
                    v = get(d, path)
                    if v != s or type(v) is not str:
                        ck.violation("C02|quoting|value|%s|%s" % (name, sh), "the string %r is loaded as %r" % (lex, v), {"text": src, "content": s, "slot": name})
                continue
            if not b["representable"]:
                continue
            try:
                t1 = dumper(quote=qo)(d)
            except Exception as ex:  # noqa: BLE001
                ck.violation("C01|quoting|dumps-raised|%s" % sh, "dumps raised %s for a loaded document holding %r" % (type(ex).__name__, s), {"text": src, "content": s})
                continue
            try:
                d2 = loads(t1)
            except Exception as ex:  # noqa: BLE001
                ck.violation("C01|quoting|rejected|%s" % sh, "the written text is not accepted by loads (%s); content %r, output quote %s" % (type(ex).__name__, s, qo),
                             {"text": src, "printed": t1, "content": s})
                continue
            for name, path in SLOTS:
                v = get(d2, path)
                if v != s:
                    ck.violation("C01|quoting|value|%s|%s" % (name, sh), "round trip changes %r into %r (output quote %s)" % (s, v, qo),
                                 {"text": src, "printed": t1, "content": s, "slot": name})
            if dumper(quote=qo)(d2) != t1:
                ck.violation("C01|quoting|second-pass|%s" % sh, "formatting the written text again changes it (content %r, output quote %s)" % (s, qo),
                             {"text": src, "printed": t1, "content": s})
        if prop in ("C01", "C02") and sq:
            # the content as the KEY of a key-value pair
            lex = QCH[sq] + s + QCH[sq]
            src = "MAP\n  WEB\n    METADATA\n      %s 'kv'\n      'zz' 'it\\'s \\\"plain\\\"'\n    END\n  END\nEND\n" % lex
            ck.count()
            try:
                d = loads(src)
                md = d["web"]["metadata"]
                ks = [k for k in md.keys() if not (isinstance(k, str) and k.startswith("__"))]
            except Exception as ex:  # noqa: BLE001
                ks = None
                if prop == "C02":
                    ck.violation("C02|quoting|kvkey|rejected|%s" % sh, "a quoted key %r of a key-value block is rejected (%s)" % (lex, type(ex).__name__), {"text": src, "content": s})
            if ks is not None and prop == "C02" and (ks[:1] != [s] or md[s] != "kv"):
                ck.violation("C02|quoting|kvkey|value|%s" % sh, "the key %r is loaded as %r" % (lex, ks[:1]), {"text": src, "content": s})
            if ks is not None and prop == "C01" and b["representable"]:
                try:
                    t1 = dumper(quote=qo)(d)
                    md2 = loads(t1)["web"]["metadata"]
                    ks2 = [k for k in md2.keys() if not (isinstance(k, str) and k.startswith("__"))]
                    ok = ks2 == ks and md2[s] == "kv"
                except Exception as ex:  # noqa: BLE001
                    ok = False
                if not ok:
                    ck.violation("C01|quoting|kvkey|%s" % sh, "round trip does not keep the key %r of a key-value block (output quote %s)" % (s, qo), {"text": src, "content": s})
        if prop in ("C01", "C02") and b["tailfree"]:
            # accepted by the reader as the last q-quoted string of a text (TailLaw)
            lex = qo + s + qo
            src = template_last(lex, q)
            ck.count()
            try:
                d = loads(src)
                v = d["shapepath"]
            except Exception as ex:  # noqa: BLE001
                continue          # not accepted: outside both quantifiers
            if prop == "C02":
                if v != s:
                    ck.violation("C02|quoting|value|last-string|%s" % sh, "the string %r is loaded as %r" % (lex, v), {"text": src, "content": s})
                continue
            try:
                t1 = dumper(quote=qo)(d)
                d2 = loads(t1)
                ok = d2["shapepath"] == s and d2["layers"][0]["name"] == "y"
                what = "round trip changes the content"
            except Exception as ex:  # noqa: BLE001
                ok, what = False, "the written text is not accepted by loads (%s)" % type(ex).__name__
            if not ok:
                ck.violation("C01|quoting|ends-bs|%s" % sh, "%s: a string ending with a backslash, accepted by loads as the last %s-quoted string of the text (%r)"
                             % (what, qo, lex), {"text": src, "content": s})
        if prop == "C03" and not b["unescaped"]:
            # through the dict API: any content without an unescaped output quote is inside the guarantee
            ck.count()
            n += 1
            d = loads(template('"X"'))
            for name, path in SLOTS:
                set_path(d, path, s)
            lex = qo + s + qo
            try:
                out = dumper(quote=qo)(d)
            except Exception as ex:  # noqa: BLE001
                if b["representable"]:
                    ck.violation("C03|quoting|dumps-raised|%s" % sh, "dumps raised %s for the string %r" % (type(ex).__name__, s), {"content": s, "quote": qo})
                continue                      # refusing a content without representation is what the property asks for
            if b["endsbs"]:
                ck.violation("C03|quoting|ends-bs|not-refused", "a string ending with a backslash has no Mapfile representation (the closing quote reads as escaped "
                             "whenever another quote follows) but is written instead of refused: %r" % s, {"content": s, "quote": qo, "printed": out})
                continue
            lines = out.split("\n")
            found = sum(1 for ln in lines if ln.endswith(" " + lex) or ln.strip() == lex)
            if found < len(SLOTS):
                ck.violation("C03|quoting|lexeme|%s" % sh, "the string %r is not written as %s in every slot (%d of %d)" % (s, lex, found, len(SLOTS)),
                             {"content": s, "quote": qo, "printed": out})
                continue
            try:
                d2 = loads(out)
                bad = [name for name, path in SLOTS if get(d2, path) != s]
            except Exception as ex:  # noqa: BLE001
                bad = ["rejected:" + type(ex).__name__]
            if bad:
                ck.violation("C03|quoting|readback|%s|%s" % (bad[0], sh), "the written text does not say %r (%s)" % (s, bad[0]), {"content": s, "quote": qo, "printed": out})
    ck.notes.append("quoting family (spec/Quoting.tla): %d (content, quote) behaviours, %d replayed for %s" % (len(bs), n, prop))
    return len(bs)
