"""C11 plumbing: lexeme pools for the token classes of spec/ParseLoop.tla, the iter_parse seam,
the outcome classifier, the worker-pool entry points, a tokeniser for corpus files and the long
repetitive inputs of the timing clause.

Nothing here decides what the parser should do: texts are produced from class sequences /
mutation behaviours that TLC emitted, the real code is run, and what it did is put into the
abstract outcome record {kind, syntax, haspos, line, col, nlines, isdict} that the contract of
spec/ParseLoop.tla (OutcomeOK) judges.
"""
from __future__ import annotations
import os
import random
import re
import signal
import time
import traceback

from . import common

# ------------------------------------------------------------------------------------- classes
GENERIC_BLOCKS = ["class", "cluster", "composite", "join", "label", "layer", "leader",
                  "legend", "map", "outputformat", "querymap", "reference", "scalebar", "scaletoken", "web"]
KV_BLOCKS = ["metadata", "validation", "values", "connectionoptions"]


def _cases(w):
    return [w.upper(), w.lower(), w.capitalize()]


def pools(symbol_attributes):
    """class -> list of lexemes.  SAT comes from the extracted vocabulary (lower(w) in
    SymbolAttributes, w != "NAME", and not a word the grammar gives its own terminal)."""
    symbol_attributes = {w.lower() for w in symbol_attributes}
    sat = []
    for w in sorted(symbol_attributes):
        if w in ("points", "include"):
            continue
        sat += [w.upper(), w.lower()] if w != "name" else ["name", "Name"]
    P = {
        "OPN": [c for w in GENERIC_BLOCKS for c in _cases(w)],
        "SYM": _cases("symbol"), "STY": _cases("style"), "GRD": _cases("grid"), "FEA": _cases("feature"),
        "IMG": _cases("imagemode"),
        "END": ["END", "END", "end", "End"],
        "WRD": ["STATUS", "COLOR", "foo", "circle", "EXPRESSION", "x1", "size", "\xdcn\xef", "a-b", "a:b",
                "tostring", "length", "ON", "data", "TEXT", "symbols", "NAMES", "normalx", "_u", "9lives"],
        "SAT": sat,
        "NAM": ["NAME"],
        "NRM": _cases("normal"),
        "STR": ['"abc"', "'x y'", '""', '"END"', '"a#b"', '"multi\nline"', "'it\"s'", '"tab\there"', '"\xfc\xf1\xed 日本"',
                '"esc \\" q"', "'LAYER'", '"[item]"', '"/not/a/regex"i', '"(a)"', "`back tick`", '"{a,b}"'],
        "INT": ["0", "1", "-5", "+3", "007", "255", "2147483648"],
        "FLT": ["0.5", "-1.5", "1e3", ".5", "2.", "+0.25", "1E-2"],
        "HEX": ['"#ff0000"', "'#ABC'", '"#ff000080"', '"#aBc123"'],
        "REX": ["/abc/", "/^a.*$/i", "%var%", "path/to.x", "../x/y.shp", "\\\\abc\\\\", "/*star/", "//"],
        "BOO": ["TRUE", "false", "NULL", "True", "null"],
        "LSQ": ["["], "RSQ": ["]"], "LPA": ["("], "RPA": [")"], "LBR": ["{"], "RBR": ["}"], "COM": [","],
        "OP": ["=", "==", "!=", ">", "<", ">=", "<=", "~", "~*", "=*", "%", "+", "-", "*", "/", "^", "AND", "OR", "&&", "||",
               "IN", "eq", "NE", "lt", "LE", "GT", "ge", "LIKE", "and", "or"],
        "NOT": ["NOT", "!", "not"],
        "KVO": [c for w in KV_BLOCKS for c in (w.upper(), w.lower())],
        "PRJ": _cases("projection"), "PTS": ["POINTS", "points", "PATTERN", "pattern"], "CFG": _cases("config"),
        "SET": _cases("symbolset"),
        "AUT": ["AUTO", "auto", "HILITE", "SELECTED", "Selected"],
        "CMT": ["# comment", "#", "/* c */", "/* multi\nline */", "# END \"x", "/**/"],
        "JNK": ["@", "$", ";", "\x00", "?", "&", "|", "\\", "\ufffd", "\u20ac", "\u65e5\u672c", "\x7f", "<>", "=>"],
        "USTR": ['"abc', "'abc", '"a\\"', "`abc", '"', "'", '"#ff0000'],
        "UREX": ["/abc", "\\\\abc", "/", "%var"],
        "UCMT": ["/* abc", "/*", "/* a * / b"],
    }
    P["WRD"] = [w for w in P["WRD"] if w.lower() not in symbol_attributes and w.lower() not in ("normal", "imagemode")]
    return P


SEPS = [" ", " ", " ", "\n", "\n", "\n  ", "\t", "  ", "\r\n", ""]


class SoupText:
    """class sequences -> text (seeded).  A '#' comment is always followed by a line break (else
    it would just swallow the rest of the soup)."""

    def __init__(self, symbol_attributes):
        self.pools = pools(symbol_attributes)

    def lexemes(self, soup, rng, root=None):
        out = []
        for i, c in enumerate(soup):
            if i == 0 and root is not None:
                out.append(root)
            else:
                p = self.pools[c]
                out.append(p[rng.randrange(len(p))])
        return out

    def text(self, soup, rng, root=None, plain=False):
        lex = self.lexemes(soup, rng, root)
        parts = []
        for i, w in enumerate(lex):
            if i:
                if lex[i - 1].startswith("#"):
                    parts.append("\n")
                elif plain:
                    parts.append(" ")
                else:
                    s = SEPS[rng.randrange(len(SEPS))]
                    if s == "" and (re.match(r"[\w\xc0-\xff:\-.+]", w[0]) and re.match(r"[\w\xc0-\xff:\-.+]", lex[i - 1][-1])):
                        s = " "       # gluing two words would just make one word
                    parts.append(s)
            parts.append(w)
        tail = "" if (plain or rng.randrange(3)) else "\n"
        return "".join(parts) + tail


# ------------------------------------------------------------------------------------- layout with positions
RICH_SEPS = [" ", " ", "\n", "\n  ", " /* c */ ", "\n/* multi\n   line */\n", " # c\n", "\n\n", "\t", " /* a\n b */ ",
             "\n  /*\n   * licence\n   */\n  "]
SURE_JUNK = ["@", "$", ";", "\x00", "\u20ac"]        # no terminal matches these anywhere outside strings / comments


class Layout:
    """joins tokens and knows where each one starts (line, column as lark counts them: lines are
    separated by LF, columns are 1-based characters) - computed here, never by the code under test"""

    def __init__(self):
        self.parts = []
        self.line = 1
        self.col = 1
        self.pos = []
        self.ml_comment = False
        self.ml_string = False
        self.feat = []

    def _adv(self, t):
        n = t.count("\n")
        if n:
            self.line += n
            self.col = len(t) - t.rfind("\n")
        else:
            self.col += len(t)
        self.parts.append(t)

    def sep(self, t):
        if "/*" in t and "\n" in t:
            self.ml_comment = True
        self._adv(t)

    def tok(self, t):
        self.pos.append((self.line, self.col))
        self.feat.append("after-multiline-ccomment" if self.ml_comment else
                         "after-multiline-string" if self.ml_string else "plain")
        if "\n" in t:
            if t.startswith("/*"):
                self.ml_comment = True
            else:
                self.ml_string = True
        self._adv(t)

    def text(self):
        return "".join(self.parts)


def rich_text(lexemes, rng, skip=None):
    """-> (text, positions, features); skip = index of a token left out (the well-formed base)"""
    lay = Layout()
    prev = None
    for i, w in enumerate(lexemes):
        if i == skip:
            lay.pos.append(None)
            lay.feat.append(None)
            rng.randrange(len(RICH_SEPS))
            continue
        s = RICH_SEPS[rng.randrange(len(RICH_SEPS))]
        if prev is None:
            s = s if s.strip() else ""
        elif prev.startswith("#") and "\n" not in s:
            s = "\n"
        lay.sep(s)
        lay.tok(w)
        prev = w
    return lay.text(), lay.pos, lay.feat


def doc_text(lexs, seps, rng, skip=None):
    """like rich_text, with the document's own separators; now and then a block comment spanning
    lines is put between two tokens"""
    lay = Layout()
    prev = None
    for i, w in enumerate(lexs):
        inject = rng.randrange(12) == 0
        if i == skip:
            lay.pos.append(None)
            lay.feat.append(None)
            continue
        sp = seps[i]
        if prev is not None and not sp:
            sp = " "
        if prev is not None and prev.startswith("#") and "\n" not in sp:
            sp = "\n"
        if inject:
            sp = sp + "/* note\n   continued */" + (sp if sp.strip() == "" and sp else " ")
        lay.sep(sp)
        lay.tok(w)
        prev = w
    return lay.text(), lay.pos, lay.feat


# ------------------------------------------------------------------------------------- the seam
_rec = None          # list collecting token events while a recorded parse runs
_seam_installed = False
_seam_calls = 0

WORD_RE = re.compile(r"^[A-Za-z0-9_:\-]{1,40}$")


def _word(v):
    v = str(v)
    return v if WORD_RE.match(v) else "~"


def install_seam():
    """wrap lark's InteractiveParser.iter_parse (the generator Parser.parse iterates over): before
    handing a token to the loop body note its terminal and the value-stack top, after the body note
    the terminal again.  Delegates to the original generator, so feeding is untouched."""
    global _seam_installed
    if _seam_installed:
        return True
    try:
        from lark.parsers.lalr_interactive_parser import InteractiveParser
        orig = InteractiveParser.iter_parse
    except Exception:  # noqa: BLE001
        return False

    def iter_parse(self):
        global _seam_calls
        rec = _rec
        if rec is None:
            yield from orig(self)
            return
        _seam_calls += 1
        for token in orig(self):
            try:
                vs = self.parser_state.value_stack
                top = vs[-1] if vs else None
                if top is None:
                    t = {"k": "none", "ty": "", "v": "", "lv": ""}
                elif hasattr(top, "type") and isinstance(top, str):
                    t = {"k": "tok", "ty": str(top.type), "v": _word(top), "lv": _word(top).lower()}
                else:
                    t = {"k": "tree", "ty": type(top).__name__, "v": "", "lv": ""}
                v = _word(token)
                ev = {"ev": "tok", "before": str(token.type), "after": "~aborted", "v": v, "lv": v.lower(), "top": t}
            except Exception:  # noqa: BLE001  (seam must never change behaviour)
                ev = None
            if ev is not None:
                rec.append(ev)
            yield token
            if ev is not None:
                ev["after"] = str(token.type)

    InteractiveParser.iter_parse = iter_parse
    _seam_installed = True
    return True


# ------------------------------------------------------------------------------------- running
class Hang(BaseException):
    pass


def _alarm(signum, frame):
    raise Hang()


_W = {}


def worker_init():
    """one Parser / MapfileToDict per worker process (and per option set), seam installed"""
    from . import impl
    import lark
    _W["impl"] = impl
    _W["LarkError"] = lark.exceptions.LarkError
    _W["UnexpectedInput"] = lark.exceptions.UnexpectedInput
    _W["VisitError"] = lark.exceptions.VisitError
    _W["seam"] = install_seam()
    _W["loaders"] = {}
    signal.signal(signal.SIGALRM, _alarm)
    signal.signal(signal.SIGVTALRM, _alarm)


def _loader(opt):
    """opt: "" default | "c" include_comments | "p" include_position | "cp" both | "public".
    -> (parse, transform) - transform is None for the public one-call API"""
    ld = _W["loaders"].get(opt)
    if ld is None:
        impl = _W["impl"]
        if opt == "public":
            def pub(text):
                return impl.mappyfile.loads(text, expand_includes=False)
            ld = (pub, None)
        else:
            p = impl.Parser(expand_includes=False, include_comments="c" in opt)
            m = impl.MapfileToDict(include_position="p" in opt, include_comments="c" in opt)
            ld = (p.parse, m.transform)
        _W["loaders"][opt] = ld
    return ld


def nlines(text):
    return max(text.count("\n") + 1, len(text.splitlines()))


def where_of(tb):
    """innermost frame inside the package under test (file:function), else innermost lark frame"""
    frames = traceback.extract_tb(tb)
    best = None
    for f in frames:
        fn = f.filename.replace("\\", "/")
        if "/mappyfile/" in fn:
            best = "%s:%s" % (os.path.basename(fn), f.name)
    if best is None and frames:
        f = frames[-1]
        best = "%s:%s" % (os.path.basename(f.filename), f.name)
    return best or "?"


def run_text(text, opt="", record=False, limit=20.0, cpu=True):
    """run the real code on text; returns the outcome record (dict) and the token events (or None).
    limit: seconds of process CPU time (cpu=True; the default - the machine is shared and a call
    that does not terminate burns CPU) or of wall time (cpu=False) before the call is abandoned
    (kind "other", exc "Hang")."""
    global _rec
    parse, transform = _loader(opt)
    ev = [] if (record and _W.get("seam")) else None
    stage = "parse"
    out = {"ev": "out", "kind": "ok", "exc": "", "stage": "none", "syntax": False, "haspos": False, "line": 0, "col": 0,
           "nlines": nlines(text), "isdict": False, "where": "", "msg": "", "hasexp": False, "eline": 0, "ecol": 0}
    _rec = ev
    timer = signal.ITIMER_VIRTUAL if cpu else signal.ITIMER_REAL
    signal.setitimer(timer, limit)
    t0 = time.perf_counter()
    c0 = time.process_time()
    try:
        try:
            r = parse(text)
            if transform is not None:
                stage = "transform"
                r = transform(r)
            out["isdict"] = isinstance(r, dict) or (isinstance(r, list) and len(r) > 0 and all(isinstance(x, dict) for x in r))
            if not out["isdict"]:
                out["msg"] = "returned %s" % type(r).__name__
        except _W["LarkError"] as ex:
            out["kind"] = "larkerror"
            out["exc"] = type(ex).__name__
            # a Lark-family exception out of Parser.parse is a syntax error whatever its class; the
            # one-call API does not show the stage: VisitError is what the transformer stage raises
            if transform is None:
                stage = "transform" if isinstance(ex, _W["VisitError"]) else "parse"
            out["stage"] = stage
            out["syntax"] = stage == "parse"
            ln, co = getattr(ex, "line", None), getattr(ex, "column", None)
            if isinstance(ln, int) and isinstance(co, int) and not isinstance(ln, bool):
                out["haspos"] = True
                out["line"], out["col"] = max(ln, -1) + 0, max(co, -1) + 0
                if ln < 0 or co < 0:       # TLC naturals: keep the record well-typed, position unusable
                    out["haspos"] = False
                    out["line"] = out["col"] = 0
        except Hang:
            out["kind"] = "other"
            out["exc"] = "Hang"
            out["where"] = "no-termination-within-%ds-cpu" % int(limit)
        except Exception as ex:  # noqa: BLE001
            out["kind"] = "other"
            out["exc"] = type(ex).__name__
            out["where"] = where_of(ex.__traceback__)
            out["msg"] = str(ex)[:160]
    finally:
        signal.setitimer(timer, 0)
        _rec = None
    out["t"] = time.perf_counter() - t0
    out["cpu"] = time.process_time() - c0
    return out, ev


def loop_context(ev):
    """the class context of a failure inside the token loop, from the last (aborted) token event"""
    if not ev:
        return None
    last = ev[-1]
    if last.get("after") != "~aborted":
        return None
    if last["top"]["k"] == "none":
        return "first-token=%s" % last["before"]
    return "prev=%s" % (last["top"]["ty"] or last["top"]["k"])


def classify(text, opt="", record=False, limit=20.0, exp=None):
    """-> (outcome record, events or None).  A non-Lark exception is re-run with the seam recording
    so that its signature can name the token context.  exp = (line, col, context) of the first token
    that cannot be shifted, when the behaviour determines it."""
    out, ev = _classify(text, opt, record, limit)
    if exp is not None:
        out["hasexp"], out["eline"], out["ecol"], out["posctx"] = True, exp[0], exp[1], exp[2]
    return out, ev


def _classify(text, opt, record, limit):
    out, ev = run_text(text, opt, record, limit)
    if out["exc"] == "Hang":                      # confirm before calling it non-termination
        out, ev = run_text(text, opt, record, 3 * limit)
    if out["kind"] == "other" and out["exc"] != "Hang" and not record and _W.get("seam"):
        out2, ev2 = run_text(text, opt, True, limit)
        ctx = loop_context(ev2)
        if ctx and out2["exc"] == out["exc"]:
            out["ctx"] = ctx
    elif out["kind"] == "other" and record:
        ctx = loop_context(ev)
        if ctx:
            out["ctx"] = ctx
    return out, ev


def batch(job):
    """pool entry: job = (kind, [(id, text, opt, record)], limit) -> list of (id, outcome, events)"""
    if not _W:
        worker_init()
    kind, items, limit = job
    res = []
    for (i, text, opt, record) in items:
        out, ev = classify(text, opt, record, limit)
        res.append((i, out, ev))
    return res


# ------------------------------------------------------------------------------------- tokeniser
TOKEN_RE = re.compile(r"""
    (?P<cmt>/\*.*?\*/|\#[^\n]*)
  | (?P<str>"(?:\\"|[^"])*"i?|'(?:\\'|[^'])*'i?|`[^`]*`)
  | (?P<rex>/[^/\s]*/i?)
  | (?P<br>[\[\](){},])
  | (?P<w>[^\s\[\](){},"'`]+)
""", re.X | re.S)


def tokenise(text):
    """-> list of (separator before, token text, kind).  A simple splitter: it only produces inputs."""
    out = []
    pos = 0
    for m in TOKEN_RE.finditer(text):
        sep = text[pos:m.start()]
        out.append((sep, m.group(0), m.lastgroup))
        pos = m.end()
    return out, text[pos:]


def break_token(tok, kind):
    """the unterminated spelling of a token"""
    if kind == "str" or kind == "rex":
        t = tok[:-2] if tok[-1] in "iI" and len(tok) > 2 and tok[-2] in "\"'/" else tok[:-1]
        return t if t else tok[0]
    if kind == "cmt":
        return tok[:-2] if tok.endswith("*/") else "/* " + tok[1:]
    return tok[:-1] + '"' if len(tok) > 1 else "'"


def assemble_window(toks, start, n, donor, ids, tail_kept, trailing):
    """toks: tokenised document; the window is toks[start:start+n] (ids 1..n), donor: list of n tokens
    (ids n+1..2n); ids: the mutated id sequence from TLC.  -> text"""
    parts = []
    for (sep, t, _k) in toks[:start]:
        parts.append(sep)
        parts.append(t)
    for x in ids:
        broken = x >= 1000
        if broken:
            x -= 1000
        if x <= n:
            sep, t, k = toks[start + x - 1]
        else:
            sep, t, k = donor[x - n - 1]
        if broken:
            t = break_token(t, k)
        parts.append(sep if sep else " ")
        parts.append(t)
    if tail_kept:
        for (sep, t, _k) in toks[start + n:]:
            parts.append(sep)
            parts.append(t)
        parts.append(trailing)
    return "".join(parts)


# ------------------------------------------------------------------------------------- long inputs
def long_shapes(n0=1000):
    """name -> (function(ntokens) -> text).  Repetitive inputs whose token count scales; block
    nesting is limited by the grammar, expression nesting and operator chains stay <= 100.
    n0 = smallest size of the measured range (only used to size the string in one shape)."""
    def per(unit, k, head="", foot=""):
        return lambda n: head + unit * max(1, n // k) + foot
    chain = "(" + " AND ".join(['[a] = %d' % i for i in range(100)]) + ")"          # 99 operators
    nest = "(" * 100 + "1" + ")" * 100
    sumc = "(" + " + ".join(["[x]"] * 100) + ")"
    S = {
        "layers": per('LAYER NAME "l" TYPE POINT STATUS ON END\n', 8, "MAP\n", "END\n"),
        "attrs": per('NAME "x"\n', 2, "MAP\n", "END\n"),
        "roots": per("CLASS END\n", 2),
        "nested5": per("LAYER CLASS LABEL STYLE COLOR 1 2 3 END END END END\n", 12, "MAP\n", "END\n"),
        "metadata": per('"key" "value"\n', 2, "MAP METADATA\n", "END END\n"),
        "points": per("1 2.5\n", 2, "FEATURE POINTS\n", "END END\n"),
        "projection": per('"init=epsg:4326"\n', 1, "MAP PROJECTION\n", "END END\n"),
        "list": lambda n: "CLASS EXPRESSION {" + ",".join(["a"] * max(1, n // 2)) + "} END\n",
        "chain100": per("CLASS EXPRESSION " + chain + " END\n", 4 + 100 * 5 + 99, "LAYER\n", "END\n"),
        "nest100": per("CLASS EXPRESSION " + nest + " END\n", 4 + 201, "LAYER\n", "END\n"),
        "sum100": per("CLASS TEXT " + sumc + " END\n", 4 + 100 * 3 + 101, "LAYER\n", "END\n"),
        "comments": per("# a comment line\n", 1, "MAP\n", "END\n"),
        "ccomments": per("/* c */ ", 1, "MAP\n", "END\n"),
        "blanklines": per("\n", 1, "MAP\n", "END\n"),
        "longstring": lambda n: 'MAP NAME "' + "x" * (6 * n) + '" END\n',
        "string-escapes": lambda n: 'MAP NAME "' + '\\"' * (3 * n) + '" END\n',
        "regexes": per("CLASS EXPRESSION /abc/ END\n", 4, "LAYER\n", "END\n"),
        # a regular expression that starts with '*' ("/*" outside a comment): the lexer first tries the
        # C comment terminal, which scans to the end of the text for "*/" every time
        "regex-leading-star": per('CLASS EXPRESSION /*abc/ NAME "%s" END\n' % ("x" * max(40, 190000 // n0)), 6, "LAYER\n", "END\n"),
        "unterminated-string": lambda n: "MAP " + 'NAME "x" ' * (n // 2) + '"' + "y" * n,
        "unterminated-ccomment": lambda n: "MAP " + 'NAME "x" ' * (n // 2) + "/* " + "y " * n,
        "error-at-end": lambda n: "MAP\n" + 'NAME "x"\n' * (n // 2) + "@",
        "junk-run": lambda n: "MAP " + "@" * n,
        "numbers": per("SIZE 100 200\n", 3, "MAP\n", "END\n"),
        "symbolset": per('SYMBOL NAME "s" TYPE ellipse POINTS 1 1 END END\n', 10, "SYMBOLSET\n", "END\n"),
        # many lines per token
        "layers-sparse": per('LAYER\n NAME "l"\n TYPE POINT\n STATUS ON\nEND\n' + "\n" * max(10, 30000 // n0), 8, "MAP\n", "END\n"),
        "attrs-sparse": per('NAME "x"\n' + "# c\n" * max(10, 30000 // n0), 2, "MAP\n", "END\n"),
    }
    return S


# ------------------------------------------------------------------------------------- single lexemes
LEX_OPEN = {"dq": ('"', '"'), "sq": ("'", "'"), "bq": ("`", "`"), "re": ("/", "/"), "re2": ("\\\\", "\\\\"),
            "rv": ("%", "%"), "cc": ("/*", "*/"), "lc": ("#", "\n")}
LEX_UNIT = {"x": "x", "bs": "\\", "bsbs": "\\\\", "bsdq": '\\"', "bssq": "\\'", "dq": '"', "sq": "'", "bq": "`",
            "star": "*", "slash": "/", "starslash": "*/", "sp": " ", "nl": "\n", "pct": "%", "hash": "#",
            "uni": "\xe9\u65e5"}
LEX_CTX = {"value": "MAP\n  NAME %s\nEND\n", "expr": "CLASS\n  EXPRESSION ( %s = 1 )\nEND", "root": "%s",
           "kv": "MAP METADATA\n %s %s\nEND END", "proj": "MAP PROJECTION\n%s\nEND END",
           "list": "CLASS EXPRESSION {%s,%s} END"}


def lexeme(d, u, closed, n):
    o, c = LEX_OPEN[d]
    return o + LEX_UNIT[u] * n + (c if closed else "")


def lex_text(case, n=None):
    """text of a lexeme case {d, u, closed, ctx, n} from spec/ParseLoop.tla (LexCases)"""
    t = lexeme(case["d"], case["u"], case["closed"], case["n"] if n is None else n)
    f = LEX_CTX[case.get("ctx", "value")]
    return f % ((t,) * f.count("%s"))


def lex_name(case):
    return "lexeme:%s:%s:%s" % (case["d"], case["u"], "closed" if case["closed"] else "open")


def lex_batch(job):
    """job: {"tag", "lo", "hi", "limit"}; DATA[tag] = lexeme cases sorted by (d, u, closed): once a
    combination has been abandoned for CPU time its remaining cases are skipped (one report)."""
    if not _W:
        worker_init()
    data = DATA[job["tag"]]
    default = CFG["allowed"]
    counts, bad, traces = {}, [], []
    n = 0
    cpu0 = time.process_time()
    hung = set()
    for idx in range(job["lo"], job["hi"]):
        item = data[idx]
        case = item["lex"]
        name = lex_name(case)
        if name in hung:
            continue
        text = lex_text(case)
        opt = _opt_for(idx, 0)
        out, ev = run_text(text, opt, True, job["limit"])
        n += 1
        k = (out["kind"], out["exc"])
        counts[k] = counts.get(k, 0) + 1
        if out["exc"] == "Hang":
            hung.add(name)
            v = ("C11|time|%s" % name, "no answer within %.0f s of CPU time for a %d character input (%s x %d in %s)"
                 % (job["limit"], len(text), case["u"], case["n"], case["ctx"]))
        else:
            v = verdict(out, item.get("allowed", default), opt, origin=job["tag"])
        if v is not None and len(bad) < 40:
            bad.append((v[0], v[1], {"text": text, "opt": opt, "lex": case, "origin": "%s:%d" % (job["tag"], idx),
                                     "outcome": {k2: out[k2] for k2 in ("kind", "exc", "line", "col", "nlines", "where", "msg")}}))
        if ev is not None and idx % 4 == 0:
            traces.append((ev[:80], {k2: out[k2] for k2 in OUT_KEYS},
                           v[0] if v else None, text if len(text) < 400 else None, opt))
    return {"n": n, "counts": counts, "bad": bad, "traces": traces, "roots_ok": set(), "cpu": time.process_time() - cpu0}


def time_shape(job):
    """pool entry: (name, sizes, reps, factor) ->
         {"name", "points": [(n_tokens, chars, cpu seconds, wall seconds, kind)], "killed": bool}
    Sizes ascending.  Process CPU time is what is compared (wall time is reported too): the machine
    is shared with the rest of the check.  A call is abandoned once its CPU time exceeds factor x
    the linear extrapolation of the smallest size (that already decides the clause).  A suspicious
    (> factor/2) but finished measurement is repeated and the minimum kept."""
    if not _W:
        worker_init()
    name, sizes, reps, factor = job
    acc = 0.25
    if name.startswith("retype:"):
        # a long multi-line input that hits one retyping pair of the spec (RetypePairs) in every block;
        # "sparse": many (blank) lines per token
        parts = name.split(":")
        words = {"WRD": "circle", "NRM": "NORMAL", "IMG": "IMAGEMODE", "GRD": "GRID", "FEA": "FEATURE", "SYM": "SYMBOL",
                 "STY": "STYLE", "NAM": "NAME", "SAT": "TYPE"}
        unit = "  LAYER\n    %s %s\n    STATUS ON\n  END\n" % (words[parts[1]], words[parts[2]])
        if len(parts) > 3:
            unit += "\n" * max(10, 30000 // sizes[0])

        def fn(n, unit=unit):
            return "MAP\n" + unit * max(1, n // 7) + "END\n"
    elif name.startswith("lexeme:"):
        _l, d, u, cl = name.split(":")
        case = {"d": d, "u": u, "closed": cl == "closed", "ctx": "value", "n": 0}

        def fn(n, case=case):
            return lex_text(case, n)
        acc = 0.04
    else:
        fn = long_shapes(sizes[0])[name]
    for _ in range(3):      # warm-up (lazy initialisation inside lark)
        if run_text(fn(sizes[0]), "", False, limit=5.0)[0]["exc"] == "Hang":
            # not even the smallest size answers: compare with a single unit
            o1, _e = run_text(fn(1), "", False, limit=5.0)
            k1 = "killed" if o1["exc"] == "Hang" else o1["kind"]
            return {"name": name, "killed": True,
                    "points": [(1, len(fn(1)), max(o1["cpu"], 1e-4), o1["t"], k1), (sizes[0], len(fn(sizes[0])), 5.0, 5.0, "killed")]}
    pts = []
    killed = False
    base = None
    for n in sizes:
        text = fn(n)
        best = wall = kind = None
        budget = 30.0 if base is None else max(2.0, factor * base * (n / float(sizes[0])) * 1.02)
        if base is None:
            # CPU clocks tick at ~4 ms here: repeat the short call until >= 0.25 s of CPU time has been spent
            k = 0
            c0 = time.process_time()
            w0 = time.perf_counter()
            while k < 400 and (k < reps or time.process_time() - c0 < acc):
                out, _ev = run_text(text, "", False, limit=budget, cpu=True)
                k += 1
            best = (time.process_time() - c0) / k
            wall = (time.perf_counter() - w0) / k
            kind = out["kind"] if out["kind"] != "other" else "other:" + out["exc"]
            base = max(best, 1e-4)
            pts.append((n, len(text), best, wall, kind))
            continue
        tries, i = 1, 0
        while i < tries:
            i += 1
            out, _ev = run_text(text, "", False, limit=budget, cpu=True)
            if out["exc"] == "Hang":
                killed = True
                best, wall, kind = budget, out["t"], "killed"
                break
            if best is None or out["cpu"] < best:
                best, wall = out["cpu"], out["t"]
            kind = out["kind"] if out["kind"] != "other" else "other:" + out["exc"]
            if i == tries and tries < 3 and best > (factor / 2.0) * base * (n / float(sizes[0])):
                tries += 1          # suspicious but finished: measure again, keep the minimum
        pts.append((n, len(text), best, wall, kind))
        if killed:
            break
    return {"name": name, "points": pts, "killed": killed}


# ------------------------------------------------------------------------------------- batches
# Set by the parent before the pools are forked; the jobs only carry index ranges.
DATA = {}        # tag -> list of class sequences (lists) or behaviour records (dicts with "s")
CORPUS = []      # list of (name, tokens, trailing text)
CFG = {}         # seed, default allowed outcomes, symbol attributes, ...
_ST = {}


def _soup_text():
    st = _ST.get("st")
    if st is None:
        st = _ST["st"] = SoupText(CFG["symattrs"])
    return st


def _crc(s):
    import zlib
    return zlib.crc32(s.encode())


OUT_KEYS = ("ev", "kind", "stage", "syntax", "haspos", "line", "col", "nlines", "isdict", "hasexp", "eline", "ecol")


def pos_ok(out):
    """Python mirror of PosOK / OutcomeOK's position clause in spec/ParseLoop.tla (the sampled
    traces are judged by TLC itself; the check fails as machinery if the two ever disagree)"""
    return bool(out["haspos"]) and 1 <= out["line"] <= out["nlines"] + 1 and out["col"] >= 1


def verdict(out, allowed, opt, root=None, origin=""):
    """-> None or (signature, what).  allowed comes from the spec (header / behaviour record)."""
    sfx = "|opts=%s" % opt if opt not in ("", "public") else ""
    if out["kind"] == "other":
        if out["exc"] == "Hang":
            return ("C11|time|hang|%s" % origin.split(":")[0], "no result within the per-call limit (%s)" % out["where"])
        ctx = out.get("ctx") or ("at=" + out["where"])
        return ("C11|exc|%s|%s%s" % (out["exc"], ctx, sfx),
                "%s escaped from loads (%s): %s" % (out["exc"], out["where"], out["msg"]))
    if out["kind"] not in allowed:
        return ("C11|root-rejected|%s%s" % (root or "?", sfx),
                "minimal %s document rejected: %s" % (root, out["exc"]))
    if out["kind"] == "larkerror" and out["syntax"] and not pos_ok(out):
        return ("C11|nopos|%s%s" % (out["exc"], sfx),
                "syntax error without usable position: line=%s col=%s lines=%s" % (out["line"], out["col"], out["nlines"]))
    if out["hasexp"] and out["kind"] == "larkerror" and out["syntax"] and (out["line"], out["col"]) != (out["eline"], out["ecol"]):
        return ("C11|pos|%s%s" % (out.get("posctx", "?"), sfx),
                "the syntax error points at line %d column %d, the first token that cannot be shifted is at line %d column %d"
                % (out["line"], out["col"], out["eline"], out["ecol"]))
    if out["kind"] == "ok" and not out["isdict"]:
        return ("C11|result-type|%s%s" % (out["msg"].replace(" ", "-"), sfx), "loads " + out["msg"])
    return None


def _opt_for(idx, pub_every):
    if pub_every and idx % pub_every == pub_every - 1:
        return "public"
    if idx % 7 == 3:
        return "c"
    if idx % 11 == 5:
        return "p"
    if idx % 13 == 6:
        return "cp"
    return ""


def root_lexeme(c, idx):
    if c == "OPN":
        w = GENERIC_BLOCKS[idx % len(GENERIC_BLOCKS)]
    elif c == "KVO":
        w = KV_BLOCKS[idx % len(KV_BLOCKS)]
    else:
        return None
    return _cases(w)[(idx // 16) % 3]


def class_batch(job):
    """job: {"tag", "lo", "hi", "rooted", "texts", "rec_every", "pub_every", "limit"}.
    DATA[tag][i] is a class list or a record {"s": classes, "allowed": [...], "t": type?}."""
    if not _W:
        worker_init()
    st = _soup_text()
    tag = job["tag"]
    data = DATA[tag]
    seed = CFG["seed"]
    default = CFG["allowed"]
    counts = {}
    bad = []
    traces = []
    roots_ok = set()
    n = 0
    determinate = 0
    cpu0 = time.process_time()
    h = _crc(tag)
    for idx in range(job["lo"], job["hi"]):
        item = data[idx]
        if isinstance(item, dict):
            soup, allowed, rtype = item["s"], item.get("allowed", default), item.get("t")
        elif isinstance(item, str):             # compact form of a plain soup
            soup, allowed, rtype = item.split(), default, None
        else:
            soup, allowed, rtype = item, default, None
        bad_i = item.get("bad", 0) if isinstance(item, dict) else 0
        for rep in range(job["texts"]):
            rng = random.Random((seed * 1000003 + h) * 1000003 + idx * 7 + rep)
            if bad_i:
                # the behaviour determines the first token that cannot be shifted (spec: Offending)
                lex = st.lexemes(soup, rng)
                op = item["muts"][0]["op"]
                if op == "junk":
                    lex[bad_i - 1] = SURE_JUNK[rng.randrange(len(SURE_JUNK))]
                k = rng.randrange(1 << 30)
                text, pos, feat = rich_text(lex, random.Random(k))
                base_text, _p, _f = rich_text(lex, random.Random(k), skip=bad_i - 1)
                opt = _opt_for(idx + rep, 0)
                b_out, _e = run_text(base_text, opt, False, job["limit"])
                exp = None
                if b_out["kind"] == "ok":        # the rest of the text is well-formed: the position is determinate
                    exp = (pos[bad_i - 1][0], pos[bad_i - 1][1], "%s|%s" % (op, feat[bad_i - 1]))
                    determinate += 1
                out, ev = classify(text, opt, rep == 0, job["limit"], exp=exp)
                n += 1
                kk = (out["kind"], out["exc"])
                counts[kk] = counts.get(kk, 0) + 1
                v = verdict(out, allowed, opt, origin=tag)
                if v is not None and len(bad) < 40:
                    bad.append((v[0], v[1], {"text": text, "opt": opt, "classes": soup, "origin": "%s:%d" % (tag, idx),
                                             "expected_position": exp,
                                             "outcome": {k2: out[k2] for k2 in ("kind", "exc", "line", "col", "nlines", "where", "msg")}}))
                if ev is not None:
                    traces.append((ev[:80], {k2: out[k2] for k2 in OUT_KEYS}, v[0] if v else None,
                                   text if len(text) < 400 else None, opt))
                continue
            root = None
            if soup:
                if rtype:
                    root = rtype.upper() if rep == 0 else _cases(rtype)[rng.randrange(3)]
                elif job["rooted"]:
                    root = root_lexeme(soup[0], idx + rep)
            text = st.text(soup, rng, root=root, plain=(rep == 0 and rtype is not None))
            opt = _opt_for(idx + rep, job["pub_every"])
            record = bool(job["rec_every"]) and (idx % job["rec_every"] == 0) and opt != "public"
            out, ev = classify(text, opt, record, job["limit"])
            n += 1
            k = (out["kind"], out["exc"])
            counts[k] = counts.get(k, 0) + 1
            if rtype and out["kind"] == "ok":
                roots_ok.add(rtype)
            v = verdict(out, allowed, opt, root=rtype or (root.lower() if root else None), origin=tag)
            if v is not None and len(bad) < 40:
                bad.append((v[0], v[1], {"text": text, "opt": opt, "classes": soup, "origin": "%s:%d" % (tag, idx),
                                         "outcome": {k2: out[k2] for k2 in ("kind", "exc", "line", "col", "nlines", "where", "msg")}}))
            if ev is not None:
                traces.append((ev[:80], {k2: out[k2] for k2 in OUT_KEYS},
                               v[0] if v else None, text if len(text) < 400 else None, opt))
    return {"n": n, "counts": counts, "bad": bad, "traces": traces, "roots_ok": roots_ok, "cpu": time.process_time() - cpu0,
            "determinate": determinate}


def window_batch(job):
    """index-level mutations.  job: {"tag", "lo", "hi", "n", "rec_every", "limit"}; DATA[tag][i] is a
    behaviour {"s": ids, "tail": bool, "muts": [...]}; DATA[tag+":plan"][i] = (doc, start, donor doc, donor start)
    with doc indices into CORPUS."""
    if not _W:
        worker_init()
    tag = job["tag"]
    data = DATA[tag]
    plan = DATA[tag + ":plan"]
    default = CFG["allowed"]
    N = job["n"]
    counts = {}
    bad = []
    traces = []
    n = 0
    cpu0 = time.process_time()
    for idx in range(job["lo"], job["hi"]):
        beh = data[idx]
        di, start, dj, dstart = plan[idx]
        name, toks, trailing = CORPUS[di]
        donor = CORPUS[dj][1][dstart:dstart + N]
        text = assemble_window(toks, start, N, donor, beh["s"], beh["tail"], trailing)
        opt = _opt_for(idx, 0)
        record = bool(job["rec_every"]) and (idx % job["rec_every"] == 0)
        out, ev = classify(text, opt, record, job["limit"])
        n += 1
        k = (out["kind"], out["exc"])
        counts[k] = counts.get(k, 0) + 1
        v = verdict(out, beh.get("allowed", default), opt, origin=tag)
        if v is not None and len(bad) < 40:
            bad.append((v[0], v[1], {"text": text, "opt": opt, "muts": beh["muts"], "doc": name, "window": [start, N],
                                     "origin": "%s:%d" % (tag, idx),
                                     "outcome": {k2: out[k2] for k2 in ("kind", "exc", "line", "col", "nlines", "where", "msg")}}))
        if ev is not None:
            traces.append((ev[:80], {k2: out[k2] for k2 in OUT_KEYS},
                           v[0] if v else None, None, opt))
    return {"n": n, "counts": counts, "bad": bad, "traces": traces, "roots_ok": set(), "cpu": time.process_time() - cpu0}


def posw_batch(job):
    """index-level junk / extra END on generated documents (exact tokens): DATA[tag][b] is a behaviour
    {"s": ids (999 = junk, 998 = END after the whole document), "muts": [{"op", "bad"}]},
    DATA[tag+":plan"][i] = (doc index into CORPUS, window start, behaviour index, layout seed)"""
    if not _W:
        worker_init()
    tag = job["tag"]
    data = DATA[tag]
    plan = DATA[tag + ":plan"]
    default = CFG["allowed"]
    N = job["n"]
    counts, bad, traces = {}, [], []
    n = determinate = 0
    cpu0 = time.process_time()
    for idx in range(job["lo"], job["hi"]):
        di, start, bi, k = plan[idx]
        beh = data[bi]
        name, toks, trailing = CORPUS[di]
        op = beh["muts"][0]["op"]
        rng = random.Random(k)
        lexs = [t for (_s, t, _k) in toks[:start]]
        seps = [sp for (sp, _t, _k) in toks[:start]]
        bad_at = None
        for x in beh["s"]:
            if x == 999:
                bad_at = len(lexs)
                lexs.append(SURE_JUNK[rng.randrange(len(SURE_JUNK))])
                seps.append(" ")
            elif x == 998:
                continue
            else:
                sp, t, _k = toks[start + x - 1]
                lexs.append(t)
                seps.append(sp)
        for (sp, t, _k) in toks[start + N:]:
            lexs.append(t)
            seps.append(sp)
        if op == "extraend":
            bad_at = len(lexs)
            lexs.append("END")
            seps.append("\n")
        text, pos, feat = doc_text(lexs, seps, random.Random(k + 1))
        base_text, _p, _f = doc_text(lexs, seps, random.Random(k + 1), skip=bad_at)
        opt = _opt_for(idx, 0)
        b_out, _e = run_text(base_text, opt, False, job["limit"])
        exp = None
        if b_out["kind"] == "ok":
            exp = (pos[bad_at][0], pos[bad_at][1], "%s|%s" % (op, feat[bad_at]))
            determinate += 1
        out, ev = classify(text, opt, idx % 10 == 0, job["limit"], exp=exp)
        n += 1
        kk = (out["kind"], out["exc"])
        counts[kk] = counts.get(kk, 0) + 1
        v = verdict(out, beh.get("allowed", default), opt, origin=tag)
        if v is not None and len(bad) < 40:
            bad.append((v[0], v[1], {"text": text, "opt": opt, "muts": beh["muts"], "doc": name, "window": [start, N],
                                     "origin": "%s:%d" % (tag, idx), "expected_position": exp,
                                     "outcome": {k2: out[k2] for k2 in ("kind", "exc", "line", "col", "nlines", "where", "msg")}}))
        if ev is not None:
            traces.append((ev[:80], {k2: out[k2] for k2 in OUT_KEYS}, v[0] if v else None, None, opt))
    return {"n": n, "counts": counts, "bad": bad, "traces": traces, "roots_ok": set(), "cpu": time.process_time() - cpu0,
            "determinate": determinate}
