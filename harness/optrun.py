"""Formatter option sets (enumerated by TLC from spec/Options.tla) and the documents they are
applied to; shared by C04, C06 and C16."""
from __future__ import annotations
import copy
import hashlib
import itertools
import json
import os
import random
import re
import subprocess
import sys
from . import tlc, docs, concretise, impl, corpus, common, mapreader

SP = {"SP": " ", "TAB": "\t"}
QT = {"DQ": '"', "SQ": "'"}
NL = {"LF": "\n", "CRLF": "\r\n", "SP": " "}


def option_sets(ck=None):
    cfg = tlc.cfg_text(init="OInit", next_="ONext", invariants=["OEmit", "AlignPastLongest"])
    r = tlc.run("Options", cfg, tag="options", workers=1, timeout=300)
    if r.violated:
        raise common.MachineryFailure("Options model property %s violated" % r.violated)
    if ck is not None:
        ck.add_tlc("options", r)
    sets = [p for p in r.prints if isinstance(p, dict) and "indent" in p]
    if len(sets) != 720:
        raise common.MachineryFailure("expected 720 valid option sets from TLC, got %d" % len(sets))
    sets.sort(key=lambda o: json.dumps(o, sort_keys=True))
    return sets


def kwargs(o):
    return {"indent": o["indent"], "spacer": SP[o["spacer"]], "quote": QT[o["quote"]],
            "newlinechar": NL[o["nl"]], "end_comment": o["end_comment"], "align_values": o["align_values"],
            "separate_complex_types": o["separate_complex_types"]}


def pairwise_cover(sets, seed, extra=4):
    """greedy pairwise cover of the option dimensions, chosen from the TLC-enumerated product"""
    rng = random.Random(seed)
    dims = ["indent", "spacer", "quote", "nl", "end_comment", "align_values", "separate_complex_types"]
    need = set()
    for a, b in itertools.combinations(dims, 2):
        for o in sets:
            need.add((a, o[a], b, o[b]))
    pool = list(sets)
    rng.shuffle(pool)
    chosen = []
    while need:
        best, gain = None, -1
        for o in pool[:200]:
            g = sum(1 for a, b in itertools.combinations(dims, 2) if (a, o[a], b, o[b]) in need)
            if g > gain:
                best, gain = o, g
        if gain <= 0:
            rng.shuffle(pool)
            # remaining pairs only occur in sets outside the first 200
            for o in pool:
                g = sum(1 for a, b in itertools.combinations(dims, 2) if (a, o[a], b, o[b]) in need)
                if g > 0:
                    best, gain = o, g
                    break
            if gain <= 0:
                break
        chosen.append(best)
        for a, b in itertools.combinations(dims, 2):
            need.discard((a, best[a], b, best[b]))
        rng.shuffle(pool)
    chosen += rng.sample(sets, extra)
    return chosen


def documents(n_walks, seed, ck, corpus_n=0, max_steps=30, tag="optdocs", special_slots=False):
    """(tid, source text, dict) - generated documents without quote characters inside strings
    (C06 quantifier), plus corpus files"""
    out = []
    loads = impl.loader(expand_includes=False)
    hs = docs.walks(n_walks, max_steps=max_steps, seed=seed, tag=tag, ck=ck)
    for j, h in enumerate(hs):
        conc = concretise.Concretiser(seed * 977 + j, avoid_quote="\"'")
        text, _ = concretise.assemble(conc.tokens(concretise.with_root(h, docs.root_type(h))))
        try:
            d = loads(text)
        except Exception:  # noqa: BLE001
            continue
        out.append(("walk:%d" % j, text, d))
        if ck is not None:
            ck.nontrivial(h[:-1])
    if special_slots:
        # every slot whose value is written verbatim or in a special lexical form (expression, "text"i, {list}, /regex/,
        # [binding], hex colour): the option set must not reach into it
        conc = concretise.Concretiser(seed, avoid_quote="\"'")
        for i, h in enumerate(docs.slots(ck=ck, tag=tag + "_slots", with_complex=True)):
            info = h[-1]["info"]
            if info["pos"] == "aftercomplex":
                # the keyword as first simple keyword behind a block-valued item: separate_complex_types moves it to the front
                text, _ = concretise.assemble(conc.tokens(concretise.with_root(h, docs.root_type(h))))
                try:
                    out.append(("slotc:%s.%s:%s<%s" % (tuple(info["slot"][:3]) + (info["after"][2],)), text, loads(text)))
                except Exception:  # noqa: BLE001
                    pass
                continue
            if info["pos"] != "middle" or info["slot"][2] not in ("expr", "istring", "listexpr", "regex", "bind", "hex", "bindpair", "hexpair", "mixedpair"):
                continue
            text, _ = concretise.assemble(conc.tokens(concretise.with_root(h, docs.root_type(h))))
            try:
                out.append(("slot:%s.%s:%s" % tuple(info["slot"][:3]), text, loads(text)))
            except Exception:  # noqa: BLE001
                continue
    if corpus_n:
        p = impl.Parser(expand_includes=True)
        m = impl.MapfileToDict()
        for fn in corpus.sample(corpus_n, seed):
            try:
                d = m.transform(p.parse_file(fn))
            except Exception:  # noqa: BLE001
                continue
            txt = corpus.read(fn)
            out.append(("corpus:" + os.path.relpath(fn, common.REPO), txt, d))
    return out


def has_quote_in_strings(v):
    if isinstance(v, dict):
        return any(has_quote_in_strings(x) for k, x in v.items() if not (isinstance(k, str) and k.startswith("__")))
    if isinstance(v, (list, tuple)):
        return any(has_quote_in_strings(x) for x in v)
    return isinstance(v, str) and ('"' in v or "'" in v)


def digest(t):
    return hashlib.sha1(t.encode("utf-8", "surrogatepass")).hexdigest()


def other_process(cases):
    """cases: list of (text, kwargs) -> list of digests computed in a second interpreter"""
    env = dict(os.environ)
    env["PYTHONHASHSEED"] = str(1 + (common.seed() % 1000) + 4242)
    inp = "\n".join(json.dumps({"text": t, "opts": k}) for t, k in cases) + "\n"
    p = subprocess.run([sys.executable, os.path.join(os.path.dirname(__file__), "otherproc.py")], input=inp,
                       stdout=subprocess.PIPE, stderr=subprocess.PIPE, text=True, env=env, timeout=900)
    out = p.stdout.split("\n")[:-1]
    if p.returncode != 0 or len(out) != len(cases):
        raise common.MachineryFailure("second interpreter failed: rc=%s %s" % (p.returncode, p.stderr[-500:]))
    return out


def layout_lines(text, o):
    """what the independent reader measures on every physical line (for spec/TraceLayout.tla)"""
    lines, events, problems = mapreader.read(text)
    spacer = SP[o["spacer"]]
    recs = []
    stack = []
    breaks = re.findall(r"\r\n|\n", text)
    bad = 0
    for i, br in enumerate(breaks):
        nxt = lines[i + 1] if i + 1 < len(lines) else None
        if nxt is not None and nxt["kind"] == "cont":
            continue
        if br != NL[o["nl"]]:
            bad += 1
    for ln in lines:
        kind = ln["kind"]
        rec = {"lvl": ln["lvl"], "kind": kind if kind else "blank", "key": (ln["key"] or "").lower(),
               "keylen": len(ln["key"] or ""), "wslen": len(ln["ws"]),
               "wsok": all(ch == spacer for ch in ln["ws"]), "valoff": 0, "endc": "", "obj": 0}
        if kind == "open":
            stack.append(ln["lineno"])
        elif kind == "end":
            if stack:
                stack.pop()
            c = ln["comment"]
            if c:
                m = re.match(r"^# (\S+)$", c[0])
                rec["endc"] = m.group(1).lower() if m else "?" + c[0]
        elif kind == "attr":
            rec["obj"] = stack[-1] if stack else 0
            rec["valoff"] = ln["valcol"] - 1 - len(ln["ws"])
        recs.append(rec)
    return recs, bad, problems
