"""C14 - kept comments are verbatim, never invented or duplicated, and stay attached.

(M) spec/Comments.tla: TLC checks on every generated placement that the comment flow keeps each
    claimed comment on the item it was written for and attaches no comment twice.
(G) TLC emits documents (no duplicate keywords) with comment placements, each placement marked claimed /
    unclaimed by the spec; the harness renders them one keyword per line, loads with
    include_comments=True, dumps, and lets the independent reader locate every comment.
(T) verdict: spec/TraceComments.tla decides per execution: printed comments are a sub-multiset of the
    source comments (verbatim, none invented, none duplicated), the output with comments loads to the same
    content as the output without, and every claimed comment is where the spec says (end of its keyword's
    line / directly above its block's opener).  Corpus files: same multiset and content clauses.
"""
from __future__ import annotations
import os
from .. import common, docs, concretise, project, impl, tlc, vocab, tracecheck, comments, corpus, mapreader

RULE = ("printed comments <= source comments as multisets, content equal with/without comments, claimed comments "
        "found at the location spec/Comments.tla predicts; decided by spec/TraceComments.tla; distinct = placements")


def behaviours(n, seed, ck, max_comments=4, max_steps=14, tag="comments", mode="nodup"):
    vocab.get()
    cfg = tlc.cfg_text(init="CInit", next_="CNext",
                       constants={"MaxDepth": 5, "MaxSteps": max_steps, "Ids": {1, 2, 3, 4}, "StepPosts": False,
                                  "Mode": mode, "MaxComments": max_comments},
                       invariants=["CEmit", "ClaimedStay", "NoDuplication"])
    r = tlc.run("Comments", cfg, tag=tag, mode="simulate", simulate="num=%d" % n, depth=max_steps + max_comments + 8,
                seed=seed, timeout=1800)
    if r.violated:
        raise common.MachineryFailure("Comments model property %s violated" % r.violated)
    ck.add_tlc(tag, r)
    return [p for p in r.prints if isinstance(p, dict) and "comments" in p]


def observe_claims(cms, hist, root, view, texts=None):
    own, parent = comments.chains(hist, root)
    cn = comments.canon(texts) if texts else {}
    used = set()
    acts = [a for a in hist if a["a"] != "finish"]
    out = []
    for c in cms:
        if not c["claimed"]:
            continue
        i = c["item"]
        a = {"a": "root", "type": root} if i == 0 else acts[i - 1]
        if c["where"] == "eol":
            want = {"wantkey": a["key"], "wantchain": parent[i]}
        else:
            want = {"wantkey": a["type"], "wantchain": own[i]}
        rec = {"id": c["id"], "where": c["where"], "found": False, "linekind": "", "key": "", "chain": "", "valsame": True,
               "nextkind": "", "nextkey": ""}
        rec.update(want)
        cid = cn.get(c["id"], c["id"])
        # every occurrence of the (possibly repeated) text is a candidate; an occurrence serves one claimed comment;
        # the first occurrence at the predicted place wins, otherwise the first unused one is reported
        cands = []
        for li, ln in enumerate(view):
            for pi, x in enumerate(ln["ids"]):
                if x == cid and (li, pi) not in used:
                    o = {"found": True, "linekind": ln["kind"], "key": ln["key"], "chain": ln["chain"], "at": (li, pi)}
                    if c["where"] == "above":
                        for nx in view[li + 1:]:
                            if nx["kind"] not in ("comment", "blank", "cont"):
                                o.update(nextkind=nx["kind"], nextkey=nx["key"], chain=nx["chain"])
                                break
                    cands.append(o)
        good = [o for o in cands if o["chain"] == rec["wantchain"] and
                ((c["where"] == "eol" and o["linekind"] == "attr" and o["key"] == rec["wantkey"]) or
                 (c["where"] == "above" and o["linekind"] == "comment" and o.get("nextkey") == rec["wantkey"]))]
        pick = (good or cands or [None])[0]
        if pick:
            used.add(pick.pop("at"))
            rec.update(pick)
        out.append(rec)
    return out


def hash_then_open_c_comment(out):
    """a physical line on which a # comment is followed by a /* that is not closed on that line"""
    for ln in out.split("\n"):
        h = ln.find("#")
        if h < 0:
            continue
        o = ln.rfind("/*")
        if o > h and "*/" not in ln[o:]:
            return True
    return False


def public_readers(ck, text, out_c, dumps):
    """mappyfile.open / load / loads with include_comments=True keep the comments the worker objects keep"""
    import io
    import mappyfile
    fn = os.path.join(common.VERIF, "build", "c14_open.%d.map" % os.getpid())
    os.makedirs(os.path.dirname(fn), exist_ok=True)
    with open(fn, "w", encoding="utf-8", newline="") as f:
        f.write(text)
    try:
        got = {"open": dumps(mappyfile.open(fn, expand_includes=False, include_comments=True)),
               "load": dumps(mappyfile.load(io.StringIO(text), expand_includes=False, include_comments=True)),
               "loads": dumps(mappyfile.loads(text, expand_includes=False, include_comments=True))}
    except Exception as ex:  # noqa: BLE001
        ck.violation("C14|public-reader-raised|%s" % type(ex).__name__, "a public reader raised %s with include_comments=True" % type(ex).__name__, {"text": text})
        return
    finally:
        try:
            os.unlink(fn)
        except OSError:
            pass
    ck.count(3)
    for name, out in got.items():
        if out != out_c:
            ck.violation("C14|public-reader-differs|%s" % name, "mappyfile.%s(..., include_comments=True) does not keep the comments that the parser / transformer objects keep" % name,
                         {"text": text, "printed": out, "expected": out_c})


class SecondDumpDiffers(Exception):
    pass


def make_record(tid, text, src_texts, claims_fn, loads_c, loads_p, dumps, itn=None):
    itn = tracecheck.Interner()
    cn = comments.canon(src_texts)
    rec = {"tid": tid, "what": "comments", "src": sorted(cn[c] for c in src_texts), "claimed": [], "out": [],
           "with": {"t": "none"}, "without": {"t": "none"}, "accepted": False}
    dc = loads_c(text)
    dp = loads_p(text)
    first = dumps(dc)
    out_c = dumps(dc)          # writing is repeatable: the second dump of the same dictionary is the one judged
    if first != out_c:
        raise SecondDumpDiffers(first, out_c)
    out_p = dumps(dp)
    view, _, _ = comments.output_view(out_c, src_texts)
    rec["out"] = [i for ln in view for i in ln["ids"]]
    try:
        rec["with"] = itn.value(project.project(loads_p(out_c)))
        rec["without"] = itn.value(project.project(loads_p(out_p)))
        rec["accepted"] = True
    except Exception as ex:  # noqa: BLE001
        rec["err"] = "%s: %s" % (type(ex).__name__, str(ex)[:100])
    if claims_fn:
        rec["claimed"] = claims_fn(view)
    return rec, out_c


def run(tier):
    ck = common.Check("C14", tier, "model_checking", RULE)
    seed = ck.seed
    quick = tier == "quick"
    loads_c = impl.loader(include_comments=True, expand_includes=False)
    loads_p = impl.loader(expand_includes=False)
    records, meta = [], {}
    bs = behaviours(2500 if quick else 20000, seed + 14, ck, max_comments=4 if quick else 6)
    for j, b in enumerate(bs):
        hist, cms = b["hist"], b["comments"]
        root = docs.root_type(hist)
        conc = concretise.Concretiser(seed * 991 + j, no_multiline=True, avoid_quote='"')
        nl = "\n" if j % 4 else "\r\n"
        text, texts = comments.render(conc, hist, root, cms, salt=seed + j, nl=nl)
        # formatting options other than the default (comments must survive them; END comments are not source
        # comments, so end_comment stays off)
        variants = [{}, {"align_values": True}, {"align_values": True, "indent": 2, "separate_complex_types": True}, {"indent": 1, "spacer": "\t"}]
        dumps = impl.dumper(newlinechar=nl, **variants[j % 4])
        ck.count()
        try:
            rec, out_c = make_record("gen:%d" % j, text, texts, lambda view: observe_claims(cms, hist, root, view, texts),
                                     loads_c, loads_p, dumps)
        except SecondDumpDiffers as ex:
            ck.violation("C14|second-dump-differs", "dumping the same dictionary (loaded with comments) twice gives two texts",
                         {"text": text, "first": ex.args[0], "second": ex.args[1]})
            continue
        except Exception as ex:  # noqa: BLE001
            ck.violation("C14|raised|%s" % type(ex).__name__, "load/dump with comments raised %s: %s" % (type(ex).__name__, str(ex)[:120]),
                         {"text": text, "comments": cms})
            continue
        records.append(rec)
        meta[rec["tid"]] = (text, out_c, cms)
        ck.nontrivial([hist[:-1], cms])
        if j % (60 if quick else 25) == 0:
            public_readers(ck, text, out_c, dumps)
    # a key-value block as the root object (the root opener is item 0 of the spec: comments above it are claimed)
    k = 0
    for t in ("metadata", "validation", "connectionoptions"):
        for above in (["# above %s"], ["/* above %s */"], ["# first %s", "/* second %s */", "# third %s"]):
            k += 1
            texts = {i + 1: a % t for i, a in enumerate(above)}
            text = "\n".join(texts[i] for i in sorted(texts)) + '\n%s\n  "key_a" "v a"\n  "key_b" "v b"\nEND\n' % t.upper()
            cms = [{"id": i, "item": 0, "where": "above", "claimed": True} for i in sorted(texts)]
            hist0 = [{"a": "finish"}]
            ck.count()
            try:
                rec, out_c = make_record("rootkv:%d" % k, text, texts, lambda view, cms=cms, t=t, texts=texts: observe_claims(cms, hist0, t, view, texts),
                                         loads_c, loads_p, impl.dumper())
            except SecondDumpDiffers as ex:
                ck.violation("C14|second-dump-differs", "dumping the same dictionary (loaded with comments) twice gives two texts",
                             {"text": text, "first": ex.args[0], "second": ex.args[1]})
                continue
            except Exception as ex:  # noqa: BLE001
                ck.violation("C14|raised|%s" % type(ex).__name__, "load/dump with comments raised %s: %s" % (type(ex).__name__, str(ex)[:120]), {"text": text})
                continue
            records.append(rec)
            meta[rec["tid"]] = (text, out_c, cms)
    # fixed probe: a # comment and a multi-line C comment that end up joined on one keyword line
    probe = 'STYLE\n  # first\n  /* second\n     still second */\n  LINECAP ROUND\nEND\n'
    try:
        outp = impl.dumper()(loads_c(probe))
        loads_p(outp)
    except Exception as ex:  # noqa: BLE001
        ck.violation("C14|joined-multiline-after-hash", "a multi-line /* */ comment joined behind a # comment on a keyword line makes the output unparseable (%s)" % type(ex).__name__,
                     {"text": probe})
    # corpus files with their own comments: source comments = what the lexer callbacks captured
    files = corpus.sample(40, seed) if quick else corpus.files()
    pc = impl.Parser(include_comments=True, expand_includes=True)
    mc = impl.MapfileToDict(include_comments=True)
    pp = impl.Parser(expand_includes=True)
    mp = impl.MapfileToDict()
    ncorpus = 0
    for fn in files:
        try:
            dc = mc.transform(pc.parse_file(fn))
            src = {i + 1: c.value.strip() for i, c in enumerate(pc._comments)}
            dp = mp.transform(pp.parse_file(fn))
        except Exception:  # noqa: BLE001
            continue
        if not src:
            continue
        ncorpus += 1
        ck.count()
        itn = tracecheck.Interner()
        tid = "corpus:" + os.path.relpath(fn, common.REPO)
        rec = {"tid": tid, "what": "comments", "claimed": [], "with": {"t": "none"}, "without": {"t": "none"}, "accepted": False}
        # identical texts share an id (multiset semantics by text)
        textid = {}
        for t in src.values():
            textid.setdefault(t, len(textid) + 1)
        rec["src"] = [textid[t] for t in src.values()]
        try:
            out_c = impl.dumper()(dc)
            out_p = impl.dumper()(dp)
            view, _, _ = comments.output_view(out_c, {i: t for t, i in textid.items()})
            rec["out"] = [i for ln in view for i in ln["ids"]]
            rec["with"] = itn.value(project.project(loads_p(out_c)))
            rec["without"] = itn.value(project.project(loads_p(out_p)))
            rec["accepted"] = True
        except mapreader.ReaderError:
            continue       # hand-written content the line reader does not cover (strings with quotes): not judged
        except Exception as ex:  # noqa: BLE001
            rec["out"] = rec.get("out", [])
            rec["err"] = "%s: %s" % (type(ex).__name__, str(ex)[:100])
        records.append(rec)
        meta[tid] = (fn, None, None)
    def canary(r):
        if not r.get("accepted") or not r["out"]:
            return None
        r["out"] = r["out"] + [r["out"][0]] * (1 + r["src"].count(r["out"][0]))
        return r
    verdicts = tracecheck.validate("TraceComments", records, "c14", ck=ck, chunk=600, canary=canary)
    for tid, v in verdicts.items():
        if v["verdict"] != "ok":
            text, out_c, cms = meta[tid]
            kind = tid.split(":")[0]
            if v["verdict"] == "output-with-comments-rejected" and out_c and hash_then_open_c_comment(out_c):
                # the listed finding (several comments joined on one keyword line, a # comment in front of a multi-line
                # C comment) reached through a generated placement
                ck.violation("C14|joined-multiline-after-hash|%s" % kind, "a multi-line /* */ comment joined behind a # comment on a keyword line makes the output unparseable",
                             {"text": text, "printed": out_c, "comments": cms})
                continue
            ck.violation("C14|%s|%s" % (v["verdict"], kind if kind in ("gen", "rootkv") else tid),
                         "comment clause violated: %s (%s)" % (v["verdict"], tid), {"text": text, "printed": out_c, "comments": cms})
    ck.sample({"placements": bs[0]["comments"], "text": meta["gen:0"][0][:500] if "gen:0" in meta else ""})
    return ck.finish(coverage_extra={"generated_placements": len(bs), "corpus_files_with_comments": ncorpus,
                                     "traces_validated_against_impl": len(verdicts)})
