"""C05 - surface syntax does not change meaning.

(M) spec/Surface.tla: a rendering (separator, letter case, quoting per token) is a stuttering step of the
    Reader contract - the predicted dict does not depend on it.
(G) verdict: TLC enumerates every single (quick) / single and pairwise (thorough) deviation from the canonical
    rendering at token positions 1..12 and draws random rendering vectors for simulated documents; each
    rendering of a document is loaded by the real code and must give the dict spec/Reader.tla predicts.
(T) corpus: token boundaries are taken from the real lexer through the iter_parse seam; separators and
    comments are added between tokens; spec/TraceOptions.tla decides projection equality with the original.
"""
from __future__ import annotations
import os
import random
from .. import common, docs, concretise, project, impl, tlc, vocab, surface, seam, tracecheck, corpus

RULE = ("project(loads(rendering(doc))) == dict predicted by spec/Reader.tla for every rendering enumerated/drawn by "
        "spec/Surface.tla; corpus: project(loads(perturbed)) == project(loads(original)) decided by TLC; distinct = (doc, rendering)")


def const(max_devs=1, veclen=24, max_steps=12):
    return {"MaxDepth": 5, "MaxSteps": max_steps, "Ids": {1, 2, 3, 4}, "StepPosts": False, "Mode": "walk",
            "MaxPos": 12, "VecLen": veclen, "MaxDevs": max_devs}


def deviations(ck, max_devs):
    vocab.get()
    cfg = tlc.cfg_text(init="DevInit", next_="DevNext", constants=const(max_devs), invariants=["DevEmit"])
    r = tlc.run("Surface", cfg, tag="surf_devs", workers=1, timeout=900)
    ck.add_tlc("surf_devs", r)
    return [p for p in r.prints if isinstance(p, dict) and p.get("mode") == "devs"]


def vectors(ck, n, seed, max_steps):
    cfg = tlc.cfg_text(init="SInit", next_="SNext", constants=const(1, 24, max_steps), invariants=["SEmit"])
    r = tlc.run("Surface", cfg, tag="surf_vec", mode="simulate", simulate="num=%d" % n, depth=max_steps + 8, seed=seed, timeout=1800)
    ck.add_tlc("surf_vec", r)
    return [p for p in r.prints if isinstance(p, dict) and "rend" in p]


def judge(ck, conc, loads, hist, toks, rend, exp, origin):
    texts, seps, applied = surface.apply(conc, toks, rend)
    if not applied:
        return
    text = surface.text_of(texts, seps)
    ck.count()
    ck.nontrivial(text)

    def sig_of(ap):
        parts = []
        for i, kind in ap[:2]:
            parts.append("%s@%s" % (kind, toks[i].role))
        return "+".join(parts)
    try:
        d = loads(text)
    except Exception as ex:  # noqa: BLE001
        ap = minimise(conc, loads, toks, applied, exp)
        ck.violation("C05|rejected|%s|%s" % (sig_of(ap), type(ex).__name__),
                     "a surface rendering of an accepted document is rejected (%s): %s" % (type(ex).__name__, str(ex)[:100]),
                     {"text": text, "applied": [(i, k, toks[i].text) for i, k in ap], "origin": origin})
        return
    df = project.diff(exp, project.project(d))
    if df:
        ap = minimise(conc, loads, toks, applied, exp)
        path, kind, e, g = df
        ck.violation("C05|%s|%s" % (kind, sig_of(ap)), "a surface rendering changes the dict at %s: expected %s got %s" % (list(path), e, g),
                     {"text": text, "applied": [(i, k, toks[i].text) for i, k in ap], "origin": origin})


def minimise(conc, loads, toks, applied, exp):
    """find a single applied choice that alone reproduces a failure (for a stable signature)"""
    if len(applied) <= 2:
        return applied
    for i, kind in applied:
        texts, seps, ap = surface.apply(conc, toks, {"mode": "devs", "devs": [{"pos": i + 1, "kind": kind}]})
        try:
            d = loads(surface.text_of(texts, seps))
            if project.diff(exp, project.project(d)):
                return [(i, kind)]
        except Exception:  # noqa: BLE001
            return [(i, kind)]
    return applied[:0] + [(applied[0][0], "vec")]


def perturb_corpus(ck, files, seed, per_file):
    rng = random.Random(seed)
    p = impl.Parser(expand_includes=False)
    px = impl.Parser(expand_includes=True)
    m = impl.MapfileToDict()
    records, meta = [], {}
    kinds = list(surface.SEPS.keys())
    for fn in files:
        try:
            raw = corpus.read(fn)
            text = px.load_includes(raw, fn=fn)
            with seam.record_tokens() as toks:
                tree = p.parse(text)
                toks = list(toks)
            base = m.transform(tree)
        except Exception:  # noqa: BLE001
            continue
        gaps = []
        depth = 0
        for a, b in zip(toks, toks[1:]):
            if a["type"] == "LBRACE" or (a["value"] == "{"):
                depth += 1
            if b["value"] == "}":
                depth = max(0, depth - 1)
            if depth == 0 and a["end"] is not None and b["start"] is not None and b["start"] > a["end"]:
                gaps.append((a["end"], b["start"], a["type"]))
        if not gaps:
            continue
        pb = project.project(base)
        for k in range(per_file):
            chosen = sorted(rng.sample(gaps, min(len(gaps), rng.choice([1, 3, 12, 40]))))
            out, last = [], 0
            for (s, e, prevtype) in chosen:
                out.append(text[last:s])
                # insert at the start of the gap: the existing gap (with its own comments) follows
                kind = rng.choice(kinds)
                if prevtype in ("PATH", "REGEXP1", "REGEXP2") and kind in ("CCT", "CCMLT", "CCSTARS"):
                    kind = "CC"      # "/*" glued to an unquoted path / regex is lexically part of it: not "between tokens"
                out.append(surface.SEPS[kind])
                last = s
            out.append(text[last:])
            pert = "".join(out)
            itn = tracecheck.Interner()
            tid = "corpus:%s|%d" % (os.path.relpath(fn, common.REPO), k)
            rec = {"tid": tid, "what": "options", "opts": {"separate_complex_types": False}, "dflt": itn.value(pb)}
            ck.count()
            try:
                rec["opt"] = itn.value(project.project(m.transform(p.parse(pert))))
                rec["accepted"] = True
            except Exception as ex:  # noqa: BLE001
                rec["opt"] = {"t": "none"}
                rec["accepted"] = False
                rec["err"] = str(ex)[:100]
            records.append(rec)
            meta[tid] = (fn, [(s, text[max(0, s - 20):s + 20]) for s, e, _ in chosen][:5])
            ck.nontrivial(tid)
    return records, meta


def run(tier):
    ck = common.Check("C05", tier, "model_checking", RULE)
    seed = ck.seed
    quick = tier == "quick"
    loads = impl.loader(expand_includes=False)
    # context documents for the exhaustive deviations: slot probes (every keyword context, incl. SYMBOL/STYLE/GRID)
    sl = docs.slots(ck=ck)
    rng = random.Random(seed)
    devs = deviations(ck, 1 if quick else 2)
    ctx = [h for h in sl if h[-1]["info"]["pos"] == "middle"]
    rng.shuffle(ctx)
    ctx = ctx[:120 if quick else 400]
    if not quick:
        rng.shuffle(devs)
        devs_pairs = [d for d in devs if len(d["devs"]) == 2][:3000]
        devs = [d for d in devs if len(d["devs"]) == 1] + devs_pairs
    conc = concretise.Concretiser(seed)
    for h in ctx:
        root = docs.root_type(h)
        toks = conc.tokens(concretise.with_root(h, root))
        exp = conc.expected(h[-1]["post"])
        for dv in devs:
            judge(ck, conc, loads, h, toks, dv, exp, "devs")
        ck.nontrivial(h[:-1])
    # delicate parse-loop contexts: every string-valued keyword slot with all (key variant x value variant) pairs
    kinds = sorted(surface.SEPS) + ["U", "l", "M", "DQ", "SQ", "BARE"]
    concb = concretise.Concretiser(seed, bare_strings=True)
    strslots = [h for h in sl if h[-1]["info"]["pos"] in ("middle", "first") and h[-1]["info"]["slot"][2] == "str"]
    if quick:
        rng.shuffle(strslots)
        special = [h for h in strslots if h[-1]["info"]["slot"][1] in ("symbol", "style", "name", "font", "type")]
        strslots = special + [h for h in strslots if h not in special][:40]
    for h in strslots:
        root = docs.root_type(h)
        toks = concb.tokens(concretise.with_root(h, root))
        exp = concb.expected(h[-1]["post"])
        key = h[-1]["info"]["slot"][1]
        kp = [i for i, t in enumerate(toks) if t.role == "key" and t.extra == key]
        if not kp:
            continue
        kp = kp[0]
        for k1 in ("U", "l", "M", "SP3", "LF", "HASH", "CC"):
            for k2 in kinds:
                judge(ck, concb, loads, h, toks, {"mode": "devs", "devs": [{"pos": kp + 1, "kind": k1}, {"pos": kp + 2, "kind": k2}]}, exp, "slotpair")
    # random rendering vectors over simulated documents
    vs = vectors(ck, 600 if quick else 15000, seed + 5, 14 if quick else 40)
    for j, b in enumerate(vs):
        h = b["hist"]
        conc = concretise.Concretiser(seed * 1009 + j)
        toks = conc.tokens(concretise.with_root(h, docs.root_type(h)))
        exp = conc.expected(h[-1]["post"])
        judge(ck, conc, loads, h, toks, b["rend"], exp, "vec")
        ck.nontrivial([h[:-1], b["rend"]])
    # corpus perturbation, decided by TLC
    files = corpus.sample(60, seed) if quick else corpus.files()
    records, meta = perturb_corpus(ck, files, seed, 2 if quick else 6)
    def canary(r):
        o = r.get("opt")
        if not r.get("accepted") or o.get("t") != "dict" or not o["items"]:
            return None
        o["items"] = o["items"][1:]
        return r
    # every separator text over the alphabet of spec/CommentLex.tla (blanks and complete comments only), alone between tokens;
    # through the default front end (expand_includes=True scans the text line by line first)
    from .. import commentlex
    commentlex.run(ck, tier, impl.loader(expand_includes=True))
    # every /regex/[i] lexeme over the alphabet of spec/RegexLex.tla under three white-space settings; bodies that make a complete
    # C comment are separators
    from .. import regexlex
    regexlex.run(ck, "C05", tier, impl.loader(expand_includes=True), None)
    # [ name ] with blanks inside the brackets against the tight form (spec/BindLex.tla)
    from .. import bindlex
    bindlex.run(ck, "C05", tier, impl.loader(expand_includes=True), None)
    verdicts = tracecheck.validate("TraceOptions", records, "c05", ck=ck, chunk=300, canary=canary)
    for tid, v in verdicts.items():
        if v["verdict"] != "ok":
            ck.violation("C05|corpus|%s|%s" % (v["verdict"].split("@")[0], tid.split("|")[0]),
                         "white space / comments inserted between tokens change the result: %s" % v["verdict"],
                         {"file": meta[tid][0], "insertions": meta[tid][1]})
    ck.sample({"deviation": devs[0], "vector": vs[0]["rend"]["vec"][:3]})
    return ck.finish(coverage_extra={"deviation_descriptors": len(devs), "context_documents": len(ctx), "vector_documents": len(vs),
                                     "corpus_perturbations": len(records), "traces_validated_against_impl": len(verdicts)})
