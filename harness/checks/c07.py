"""C07 - validation verdict equals the schema's verdict.

(M) spec/Faults.tla: expected message names are a function of the injected faults only; variants stutter.
(G) verdict: TLC emits documents (no duplicate keywords) with 0..2 faults (enum-outside, below-min, above-max,
    wrong-arity, wrong-type, unknown-keyword, missing-required) at any depth / list index, a verdict-preserving
    variant, and the names the messages must carry.  The harness renders a schema-valid document (slot-aware
    values), loads it with the real code, injects the faults through the dict API and calls validate:
    (a) it returns; (b) no fault => no message; (c) every expected name is named by a message; (d) the variant
    (upper-case keys / values, hidden keys, list of roots) leaves the verdict unchanged; (e) emptiness equals the
    reference evaluation of the published schema (own registry), which also filters generator slips.
"""
from __future__ import annotations
import copy
from .. import common, docs, concretise, impl, vocab, faults

RULE = ("validate(d) == [] iff no fault injected (and iff the reference schema evaluation accepts); message names >= names "
        "predicted by spec/Faults.tla; verdict invariant under the variants; distinct = (document, faults, variant)")


def names_of(msgs):
    out = []
    for m in msgs:
        s = m.get("message", "")
        out.append(s.rsplit(" ", 1)[-1].lower() if s.startswith("ERROR: Invalid value in ") else "?" + s)
    return out


def run_cases(ck, tier, seed, want_positions=False):
    """shared with C08: returns position records when want_positions"""
    quick = tier == "quick"
    v = vocab.get()
    singletons = set(v["tokens"]["singleton_composite_names"])
    bs = faults.behaviours(2500 if quick else 40000, seed + 7, ck, max_faults=2, max_steps=12 if quick else 30)
    # documents of nested blocks only: object-level faults (unknown keyword, missing required keyword, replaced
    # collection item) on blocks two and more levels down, singletons included
    bs += faults.behaviours(300 if quick else 6000, seed + 9, ck, max_faults=2, max_steps=8 if quick else 14, tag="faults_blocks", blocks_only=True)
    # ... and exhaustively: every document of <= 3 (thorough: 4) block openers / ENDs with one object-level fault
    bs += faults.nested_object_behaviours(ck, 3 if quick else 4)
    import mappyfile
    ref = faults.Reference()
    val = impl.validator()
    loads = impl.loader(include_position=True, expand_includes=False)
    loads_plain = impl.loader(expand_includes=False)
    discarded = used = 0
    kindcount = {}
    posrecs = []
    for j, b in enumerate(bs):
        hist, fl, variant = b["hist"], b["faults"], b["variant"]
        if any(a["a"] == "repeated" and a["key"] == "include" for a in hist):
            pass
        root = docs.root_type(hist)
        conc = faults.ValidRenderer(seed * 1019 + j, avoid_quote='"')
        acts = concretise.with_root(copy.deepcopy(hist), root)
        if root == "layer" and not any(a["a"] == "attr" and a["key"] == "type" for a in hist[:1 + next((i for i, a in enumerate(hist) if a["a"] == "open"), len(hist))]):
            # LAYER requires TYPE: the valid base document gets one (first keyword of the root block)
            acts.insert(1, {"a": "attr", "key": "type", "kc": "U", "val": {"sh": "enum", "w": "point", "cs": "U"}})
            shift = 1
        else:
            shift = 0
        toks = conc.tokens(acts)
        text, _ = concretise.assemble(toks)
        try:
            d = (loads if j % 2 == 0 else loads_plain)(text)
        except Exception:  # noqa: BLE001
            discarded += 1
            continue
        if isinstance(d, list):
            discarded += 1
            continue
        # nested LAYERs (root MAP) also need TYPE: repair through the dict API before the validity filter
        def add_types(x):
            if isinstance(x, dict):
                if x.get("__type__") == "layer" and "type" not in x:
                    x["type"] = "point"
                for k in list(x.keys()):
                    if not k.startswith("__"):
                        add_types(x[k])
            elif isinstance(x, list):
                for e in x:
                    add_types(e)
        add_types(d)
        if ref.errors(d, root):
            discarded += 1          # schema quirk or generator slip: never reported (DESIGN section 7/C07)
            continue
        ck.count()
        # (b) valid => no messages, via Validator and (MAP roots) the module API
        try:
            msgs0 = val.validate(d, schema_name=root)
        except Exception as ex:  # noqa: BLE001
            ck.violation("C07|raised|valid-document|%s" % type(ex).__name__, "validate raised %s on a valid document" % ex, {"text": text})
            continue
        if msgs0:
            ck.violation("C07|false-error|%s|%s" % (root, ",".join(sorted(set(names_of(msgs0))))[:60]),
                         "validate reports %r for a document the schema accepts" % [m["error"][:80] for m in msgs0[:2]], {"text": text})
            continue
        # the module-level function picks the schema from the root object's type (fresh Validator per call)
        try:
            pub = mappyfile.validate(d)
        except Exception as ex:  # noqa: BLE001
            ck.violation("C07|module-api|raised|%s|%s" % (root, type(ex).__name__), "mappyfile.validate raised %s on a valid document" % ex, {"text": text})
            continue
        if pub:
            ck.violation("C07|false-error|module-api|%s" % root, "mappyfile.validate reports %r for a document the schema accepts" % [m["error"][:80] for m in pub[:2]], {"text": text})
            continue
        if not fl:
            dv = faults.variant_of(d, variant)
            try:
                m2 = val.validate([dv, dv], schema_name=root) if variant == "aslist" else val.validate(dv, schema_name=root)
            except Exception as ex:  # noqa: BLE001
                ck.violation("C07|raised|variant=%s|%s" % (variant, type(ex).__name__), "validate raised %s under variant %s" % (ex, variant), {"text": text})
                continue
            if m2:
                ck.violation("C07|variant-changes-verdict|%s" % variant, "valid document gets messages under variant %s: %r" % (variant, names_of(m2)), {"text": text})
            used += 1
            ck.nontrivial([hist[:-1], variant])
            continue
        # faults (item indices shift by one when TYPE was inserted)
        h2 = list(hist)
        fl2 = [dict(f) for f in fl]
        if shift:
            h2 = [acts[1]] + list(hist)
            for f in fl2:
                if f["item"] > 0:
                    f["item"] += 1
        try:
            blocks = [faults.apply_fault(v, d, h2, f, singletons) for f in fl2]
        except Exception as ex:  # noqa: BLE001
            raise common.MachineryFailure("fault injection failed: %r %r\n%s" % (ex, fl2, text))
        if not ref.errors(d, root):
            discarded += 1          # the schema (as evaluated by the reference) does not see this fault
            continue
        used += 1
        for f in fl:
            kindcount[f["kind"]] = kindcount.get(f["kind"], 0) + 1
        ck.nontrivial([hist[:-1], fl, variant])
        kinds = "+".join(sorted(f["kind"] for f in fl))
        results = {}
        for vname in ("none", variant):
            dv = faults.variant_of(d, vname)
            try:
                if vname == "aslist":
                    m1 = val.validate([dv], schema_name=root)
                    mm = val.validate([dv, dv], schema_name=root)
                    if len(mm) != 2 * len(m1):
                        ck.violation("C07|list-not-one-by-one", "validate([d, d]) gives %d messages, validate([d]) %d" % (len(mm), len(m1)), {"text": text, "faults": fl})
                    msgs = m1
                else:
                    msgs = val.validate(dv, schema_name=root)
            except Exception as ex:  # noqa: BLE001
                ck.violation("C07|raised|%s|%s" % (type(ex).__name__, kinds),
                             "validate raised %s: %s (faults %s, variant %s)" % (type(ex).__name__, str(ex)[:80], kinds, vname),
                             {"text": text, "faults": fl, "variant": vname})
                msgs = None
                break
            results[vname] = msgs
        if msgs is None:
            continue
        got = names_of(results["none"])
        try:
            pubnames = names_of(mappyfile.validate(d))
        except Exception as ex:  # noqa: BLE001
            ck.violation("C07|module-api|raised|%s|%s" % (root, type(ex).__name__), "mappyfile.validate raised %s (faults %s)" % (ex, kinds), {"text": text, "faults": fl})
            continue
        if sorted(pubnames) != sorted(got):
            ck.violation("C07|module-api|differs|%s" % root, "mappyfile.validate names %r, Validator.validate with the root's schema names %r" % (sorted(pubnames), sorted(got)),
                         {"text": text, "faults": fl})
        # a message for *every* faulty keyword / object: multiset, two faults with one name need two messages
        wantcount = {}
        for f in fl:
            wantcount[f["name"]] = wantcount.get(f["name"], 0) + 1
        for nm, n in wantcount.items():
            if 0 < got.count(nm) < n:
                ck.violation("C07|message-merged|%s" % "+".join(sorted(f["kind"] for f in fl)),
                             "%d faults named %s but only %d message(s)" % (n, nm.upper(), got.count(nm)), {"text": text, "faults": fl})
        for f in fl:
            if f["name"] not in got:
                ck.violation("C07|unnamed|%s|%s" % (f["kind"], f["name"] if f["kind"] in ("unknown-keyword", "missing-required") else "keyword"),
                             "no message names %s for fault %s (messages name %r)" % (f["name"].upper(), f["kind"], got),
                             {"text": text, "faults": fl})
        if not results["none"]:
            ck.violation("C07|missed|%s" % kinds, "validate returns no message although the schema rejects the document", {"text": text, "faults": fl})
        if variant != "none" and sorted(names_of(results[variant])) != sorted(got):
            ck.violation("C07|variant-changes-verdict|%s|%s" % (variant, kinds),
                         "messages differ under variant %s: %r vs %r" % (variant, sorted(names_of(results[variant])), sorted(got)),
                         {"text": text, "faults": fl})
        if want_positions and j % 2 == 0:
            posrecs.append((j, text, toks, acts, h2, fl2, results["none"], blocks))
    if used < 0.5 * len(bs):
        raise common.MachineryFailure("discard rate too high: %d of %d behaviours usable (%d discarded)" % (used, len(bs), discarded))
    ck.notes.append("%d behaviours, %d used, %d discarded by the reference filter; faults exercised: %r" % (len(bs), used, discarded, kindcount))
    if quick is not None and min([kindcount.get(k, 0) for k in ("enum-outside", "wrong-type", "unknown-keyword", "wrong-arity", "elem-wrong-type", "below-min", "pair-elem-wrong-type")]) == 0:
        raise common.MachineryFailure("a fault kind was never exercised: %r" % kindcount)
    return bs, posrecs, used, discarded


def run(tier):
    ck = common.Check("C07", tier, "model_checking", RULE)
    bs, _, used, discarded = run_cases(ck, tier, ck.seed)
    # the module-level API on MAP roots (fresh Validator per call)
    import mappyfile
    # the module-level API (fresh Validator per call) on a valid minimal document of every root type
    v = vocab.get()
    for t in sorted(v["schema"]["types"]):
        body = "SYMBOL NAME 'a' END" if t == "symbolset" else ("TYPE POINT" if t == "layer" else "")
        text = "%s %s END" % (t.upper(), body)
        try:
            d = mappyfile.loads(text)
            msgs = mappyfile.validate(d)
            msgs_list = mappyfile.validate([d, d])
        except Exception as ex:  # noqa: BLE001
            ck.violation("C07|module-api|raised|%s|%s" % (t, type(ex).__name__), "mappyfile.validate raised %s for %r" % (ex, text), {"text": text})
            continue
        ck.count()
        if msgs or msgs_list:
            ck.violation("C07|false-error|module-api|%s" % t, "mappyfile.validate reports %r for the valid document %r" % ([m["message"] for m in msgs], text),
                         {"text": text})
    # lists of roots of different types are judged one by one, each against the schema of its own type
    types = sorted(t for t in v["schema"]["types"] if t != "symbolset")
    def minimal(t, bad=False):
        body = "TYPE POINT" if t == "layer" else ""
        d = mappyfile.loads("%s %s END" % (t.upper(), body))
        if bad:
            d["zzz_unknown_keyword"] = 1
        return d
    for i, t1 in enumerate(types):
        t2 = types[(i + 7) % len(types)]
        for bad in (False, True):
            try:
                one = mappyfile.validate(minimal(t1)) + mappyfile.validate(minimal(t2, bad))
                both = mappyfile.validate([minimal(t1), minimal(t2, bad)])
            except Exception as ex:  # noqa: BLE001
                ck.violation("C07|module-api|raised|mixed-list|%s" % type(ex).__name__, "validate raised %s on a list of %s and %s roots" % (ex, t1, t2), {})
                continue
            ck.count()
            if sorted(names_of(one)) != sorted(names_of(both)):
                ck.violation("C07|list-not-one-by-one|mixed-types", "validate([%s, %s]) names %r, one by one %r" % (t1, t2, names_of(both), names_of(one)), {})
    ck.sample({"faults": [b["faults"] for b in bs if b["faults"]][:3]})
    return ck.finish(coverage_extra={"behaviours": len(bs), "used": used, "discarded_by_reference_filter": discarded})
