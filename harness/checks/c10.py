"""C10 - expression rewriting preserves structure.

(M) TLC checks spec/Expr.tla: for every tree with <= N operator nodes (all operator classes, all
    parenthesisations) the builder machine - one step per grammar reduction, pushing the string the
    transformer.py rule builds - satisfies NoRegroup (Denote(built) = Denote(source) at every builder
    state), FlatKept, Wrapped and Stable under the *contract* variant of the `expression` rule.  The
    same invariants are run against the model of the *current* builders (quoter.in_parenthesis); what
    TLC finds there is a lead: it is replayed into the real code and judged by (T) like everything else.
    A negative configuration (OR/AND levels exchanged) must be rejected by TLC.
(G) TLC emits expression trees with their source token sequences (exhaustive: every shape with <= N
    operator nodes x every spelling of the root operator, random spellings/operands elsewhere, and every
    shape once more with function calls as operands; simulation: random trees up to 12 operators).  The
    harness renders them with concrete operands and loads them with the real parser in six host positions.
(T) verdict: the stored string, the dumps output and the re-loaded string are tokenised by an independent
    tokenizer (harness/exprtok.py) and spec/TraceExpr.tla decides every trace with TLC.
"""
from __future__ import annotations
import json
import multiprocessing as mp
import os
import queue
import random
import threading
import time
from concurrent.futures import ThreadPoolExecutor

from .. import common, tlc, exprtok

RULE = ("TraceExpr.tla: Flat(stored) = NormFlat(src) (operands/operator spellings in order, && || ! -> AND OR NOT), "
        "Denote(stored) = Denote(src) under OR < AND < NOT < comparison < +- < */^ < unary minus with parentheses "
        "respected, stored is one parenthesised group, tokens(dumps) = tokens(stored), reload accepted and "
        "tokens(reload) = tokens(stored); Expr.tla invariants NoRegroup/FlatKept/Wrapped/Stable on all bounded trees")

HOSTS = [("CLASS EXPRESSION", "CLASS\n  EXPRESSION %s\nEND", "expression"),
         ("LAYER FILTER", "LAYER\n  FILTER %s\nEND", "filter"),
         ("CLASS TEXT", "CLASS\n  TEXT %s\nEND", "text"),
         ("STYLE GEOMTRANSFORM", "STYLE\n  GEOMTRANSFORM %s\nEND", "geomtransform"),
         ("CLUSTER GROUP", "CLUSTER\n  GROUP %s\nEND", "group"),
         ("CLUSTER FILTER", "CLUSTER\n  FILTER %s\nEND", "filter")]

ALL_KINDS = {"NOT", "NEG", "PAREN", "OR", "AND", "CMP", "ADD", "SUB", "MUL", "DIV", "POW"}
FUNC_KINDS = {"NEG", "PAREN", "CMP", "ADD", "MUL"}           # one operator per arithmetic class (function-leaf runs)
FUNC_KINDS_T = {"NEG", "NOT", "PAREN", "OR", "AND", "CMP", "ADD", "MUL"}


def consts(**kw):
    c = dict(MaxOps=3, KindsM=ALL_KINDS, CmpOpsM={1}, LogSpM={2}, WithFunc=False, WithList=False, TypedM=False,
             Ladder="lark", AndOrParens=True, CmpParens=True, OuterRule="matched", DenoteLadder="ms",
             AllCmpOps=set(exprtok.CMP_OPS), RootCmpOps={i for i in exprtok.CMP_OPS if i <= 19}, AllLogSp={1, 2, 3}, AtomIds=set(exprtok.ATOMS), ListIds=set(exprtok.LISTS), TrickyMaxOps=3, WideNums=exprtok.WIDE_NUMS, **exprtok.TRICKY,
             FuncIds=set(exprtok.FUNCS), MaxWalkOps=12, RootKindsS=set())
    c.update(kw)
    return c


# ------------------------------------------------------------------------------------------ (M)
CONTRACT_INVS = ["RoundTrip", "NoRegroup", "FlatKept", "Wrapped", "Stable"]


def model_run(tag, invs, workers, timeout=3000, **kw):
    cfg = tlc.cfg_text(init="MInit", next_="MNext", constants=consts(**kw), invariants=invs)
    return tlc.run("Expr", cfg, tag=tag, workers=workers, timeout=timeout, heap="2g")


def model_jobs(quick):
    """(name, kind, invariants, constants).  kind: contract (must hold; since the repair of transformer.expression
    the contract rule is also the model of the current builders) | lead (a mechanism variant; a violation is a
    lead that is replayed into the real code) | negative (must be rejected by TLC)."""
    mech = dict(OuterRule="startsends", TypedM=True)     # the former quoter.in_parenthesis heuristic
    deep = dict(MaxOps=5, KindsM={"PAREN", "ADD", "MUL"})          # (((a) + (b)) * c) needs five nodes
    fk = FUNC_KINDS if quick else FUNC_KINDS_T
    jobs = [
        ("m_contract", "contract", CONTRACT_INVS, dict(MaxOps=3 if quick else 4)),
        ("m_contract_func", "contract", CONTRACT_INVS, dict(MaxOps=3, KindsM=fk, WithFunc=True)),
        ("m_contract_list", "contract", CONTRACT_INVS,
         dict(MaxOps=2 if quick else 3, KindsM={"PAREN", "CMP", "ADD"}, WithList=True)),
        ("m_neg_wrapped", "negative", ["Wrapped"], dict(MaxOps=3, **mech)),
        ("m_neg_regroup_func", "negative", ["NoRegroup"], dict(MaxOps=3, KindsM=FUNC_KINDS, WithFunc=True, **mech)),
        ("m_neg_swapped", "negative", ["NoRegroup"], dict(MaxOps=2, Ladder="swapped")),
        # (with the contract's `expression` rule the parentheses and_test/or_test/comparison add are
        #  redundant; they matter together with the in_parenthesis heuristic of the current builders)
        ("m_neg_andor", "negative", ["NoRegroup"],
         dict(MaxOps=3, KindsM={"PAREN", "OR", "AND"}, WithFunc=True, OuterRule="startsends", AndOrParens=False)),
        ("m_neg_cmp", "negative", ["NoRegroup"],
         dict(MaxOps=3, KindsM={"PAREN", "CMP"}, WithFunc=True, OuterRule="startsends", CmpParens=False)),
    ]
    if not quick:
        jobs += [("m_contract_deep", "contract", CONTRACT_INVS, dict(deep)),
                 ("m_neg_stable", "negative", ["Stable"], dict(MaxOps=3, **mech)),
                 ("m_neg_regroup", "negative", ["NoRegroup"], dict(deep, **mech)),
                 ("m_contract_spellings", "contract", CONTRACT_INVS,
                  dict(MaxOps=3, CmpOpsM={1, exprtok.PCT_OP}, LogSpM={1, 2, 3})),
                 ("m_contract_func4", "contract", CONTRACT_INVS,
                  dict(MaxOps=4, KindsM={"PAREN", "NEG", "ADD", "MUL"}, WithFunc=True))]
    return jobs


# ------------------------------------------------------------------------------------------ (G)
ROOT_GROUPS = [{"CMP"}, {"OR", "NOT"}, {"AND", "ADD", "SUB"}, {"MUL", "DIV", "POW", "NEG", "PAREN", "ATOM"}]


def emit_shapes(ck, n, seed, tag, roots=None):
    # (the emitted `norm` is the prediction of the builder model: mechanism-drift note only)
    cfg = tlc.cfg_text(init="SInit", next_="SNext", invariants=["Emit"],
                       constants=consts(MaxOps=n, RootKindsS=set(roots or ALL_KINDS | {"ATOM"})))
    r = tlc.run("Expr", cfg, tag=tag, workers=1, seed=seed, timeout=3000, heap="3g")
    ck.add_tlc(tag, r)
    return [p for p in r.prints if isinstance(p, dict) and "src" in p]


def emit_walks(ck, num, seed, tag):
    cfg = tlc.cfg_text(init="WInit", next_="WNext", constants=consts(), invariants=["Emit"])
    r = tlc.run("Expr", cfg, tag=tag, mode="simulate", simulate="num=%d" % num, depth=80, workers=1, seed=seed,
                timeout=3000, heap="3g")
    ck.add_tlc(tag, r)
    return [p for p in r.prints if isinstance(p, dict) and "src" in p]


# ------------------------------------------------------------------------------ real code (pool)
_W = {}


def _worker_init():
    from .. import impl
    _W["loads"] = impl.loader(expand_includes=False)
    _W["dumps"] = impl.dumper()
    _W["it"] = exprtok.Interner()


def printed_value(out, keyword):
    """the text dumps wrote after the host keyword (independent of the implementation)"""
    for line in out.split("\n"):
        s = line.strip()
        if s.upper().startswith(keyword + " "):
            return s[len(keyword) + 1:]
    return None


def replay_tree(args):
    """render one source token sequence, run it through loads / dumps / loads in every host position"""
    seed, idx, src, hosts = args
    if "loads" not in _W:
        _worker_init()
    loads, dumps = _W["loads"], _W["dumps"]
    it = exprtok.Interner()                      # unknown texts: ids local to this tree (only equality matters)
    rng = random.Random(seed * 1000003 + idx)
    text = exprtok.render(src, rng)
    res = {"idx": idx, "text": text, "selfcheck": exprtok.tokenize(text, it) == [list(t) for t in src], "hosts": []}
    for hi in hosts:
        name, tmpl, key = HOSTS[hi]
        doc = tmpl % text
        try:
            d = loads(doc)
            stored = d[key]
        except Exception as ex:  # noqa: BLE001   acceptance is not part of C10
            res["hosts"].append({"h": hi, "status": "rejected", "exc": type(ex).__name__})
            continue
        h = {"h": hi, "status": "ok", "stored": stored if isinstance(stored, str) else repr(stored)}
        h["st"] = exprtok.tokenize(stored, it) if isinstance(stored, str) else [["BAD", it.atom_id(repr(stored))]]
        try:
            out = dumps(d)
        except Exception as ex:  # noqa: BLE001
            h.update(status="dumps-raised", exc=type(ex).__name__)
            res["hosts"].append(h)
            continue
        pv = printed_value(out, name.split()[1])
        h["printed"] = pv
        h["pr"] = exprtok.tokenize(pv, it) if pv is not None else [["BAD", 0]]
        try:
            d2 = loads(out)
            again = d2[key]
            h["rlok"] = True
            h["reloaded"] = again if isinstance(again, str) else repr(again)
            h["rl"] = exprtok.tokenize(again, it) if isinstance(again, str) else [["BAD", it.atom_id(repr(again))]]
        except Exception as ex:  # noqa: BLE001
            h["rlok"] = False
            h["rl"] = []
            h["reloaded"] = "%s" % type(ex).__name__
        res["hosts"].append(h)
    return res


# ------------------------------------------------------------------------------------------ (T)
def validate(paths, tagbase):
    """run TraceExpr over every trace file (one TLC per file, in parallel) -> {tid: verdict}, [results]"""
    def one(j_path):
        j, path = j_path
        cfg = tlc.cfg_text(init="TInit", next_="TNext", constants=consts())
        return tlc.run("TraceExpr", cfg, tag="%s_%02d" % (tagbase, j), workers=1, env={"TRACE_FILE": path},
                       timeout=3000, heap="2g")
    with ThreadPoolExecutor(max_workers=min(14, max(1, len(paths)))) as ex:
        rs = list(ex.map(one, enumerate(paths)))
    verdicts = {}
    for r in rs:
        for p in r.prints:
            if isinstance(p, dict) and "tid" in p and "c" in p:
                if p["tid"] in verdicts:
                    raise common.MachineryFailure("two verdicts for trace %s" % p["tid"])
                verdicts[p["tid"]] = p
    return verdicts, rs


def tok_text(t):
    c, i = t
    if c in ("LP", "RP", "COMMA"):
        return {"LP": "(", "RP": ")", "COMMA": ","}[c]
    if c in ("LB", "RB"):
        return "{" if c == "LB" else "}"
    if c == "ELEM":
        return exprtok.LIST_ELEMS.get(i, "elem%d" % i)
    if c == "ATOM":
        return exprtok.ATOMS.get(i) or exprtok.FUNC_ARGS.get(i) or "atom%d" % i
    if c == "FUNC":
        return exprtok.FUNCS.get(i, "f%d" % i)
    if c in exprtok.LOGIC:
        return exprtok.LOGIC[c].get(i, c)
    if c == "CMP":
        return exprtok.CMP_OPS.get(i, "cmp%d" % i)
    return exprtok.ARITH.get(c, "-" if c == "NEG" else c)


def canary():
    """non-vacuity of (T): hand-made traces that TraceExpr must reject / accept with the named clause"""
    A, B, C = ["ATOM", 1], ["ATOM", 2], ["ATOM", 7]
    LP, RP = ["LP", 0], ["RP", 0]
    eq, eq2 = ["CMP", 1], ["CMP", 2]
    src1 = [LP, A, ["OR", 1], B, ["AND", 2], C, RP]
    good1 = [LP, A, ["OR", 1], LP, B, ["AND", 1], C, RP, RP]
    bad1 = [LP, LP, A, ["OR", 1], B, RP, ["AND", 1], C, RP]
    src2 = [LP, A, eq, C, RP]
    rows = [dict(src=src1, st=good1, pr=good1, rlok=True, rl=good1, want="ok"),
            dict(src=src1, st=bad1, pr=bad1, rlok=True, rl=bad1, want="regroup"),
            dict(src=src1, st=[LP, A, ["OR", 1], LP, B, ["AND", 2], C, RP, RP], pr=good1, rlok=True, rl=good1, want="spelling"),
            dict(src=src2, st=[LP, LP, A, eq2, C, RP, RP], pr=[], rlok=True, rl=[], want="spelling"),
            dict(src=src2, st=[LP, A, RP, eq, LP, C, RP], pr=[], rlok=False, rl=[], want="outer-parens"),
            dict(src=src2, st=[LP, LP, A, eq, C, RP, RP], pr=[LP, A, eq, C, RP], rlok=True, rl=[], want="printed"),
            dict(src=src2, st=[LP, LP, A, eq, C, RP, RP], pr=[LP, LP, A, eq, C, RP, RP], rlok=False, rl=[], want="reload-rejected"),
            dict(src=src2, st=[LP, LP, A, eq, C, RP, RP], pr=[LP, LP, A, eq, C, RP, RP], rlok=True, rl=[LP, A, eq, C, RP],
                 want="reload-differs")]
    d = os.path.join(tlc.BUILD, "traces", "c10")
    os.makedirs(d, exist_ok=True)
    p = os.path.join(d, "canary.ndjson")
    with open(p, "w") as f:
        for i, r in enumerate(rows):
            f.write(json.dumps({k: v for k, v in dict(r, tid=i).items() if k != "want"}) + "\n")
    verdicts, rs = validate([p], "c10_canary")
    got = [verdicts.get(i, {}).get("c") for i in range(len(rows))]
    want = [r["want"] for r in rows]
    if got != want:
        raise common.MachineryFailure("TraceExpr canary traces judged %r, expected %r" % (got, want))
    return rs[0]


def coarse_set(d):
    s = sorted({x for x in d if x and x != "leaf"})
    return "-".join(s) if s else "leaf"


def signature(v):
    c, d = v["c"], list(v["d"]) + ["", ""]
    a, b = d[0], d[1]
    if c == "spelling":
        if a == b and a in ("OR", "AND", "NOT", "CMP"):
            return "C10|operator-respelled|%s" % a.lower(), "operator spelling changed (%s)" % a
        if a == b and a == "ELEM":
            return "C10|operand-changed|list-element", "a list element is not kept verbatim"
        if a == b and a in ("ATOM", "FUNC"):
            return "C10|operand-changed|%s" % a.lower(), "operand text changed (%s)" % a
        if b == "-":
            return "C10|token-dropped|%s" % a.lower(), "a %s token of the source is missing in the stored string" % a
        if a == "-":
            return "C10|token-added|%s" % b.lower(), "the stored string has an extra %s token" % b
        return "C10|tokens-differ|%s-%s" % (a.lower(), b.lower()), "operands/operators not kept in order: %s became %s" % (a, b)
    if c == "malformed":
        return "C10|stored-malformed", "the stored string is not a well-formed expression"
    if c == "regroup":
        return "C10|regroup|%s" % coarse_set([a, b]), "the stored string groups operands differently from the source (%s vs %s)" % (a, b)
    if c == "outer-parens":
        return "C10|outer-parens-dropped|%s-%s" % (a, b), "the stored value is not parenthesised as a whole (top operator: %s)" % a
    if c == "printed":
        return "C10|printed-differs|%s-%s" % (a.lower(), b.lower()), "dumps prints other tokens than the stored string (%s -> %s)" % (a, b)
    if c == "reload-rejected":
        return "C10|reload-differs|%s" % a, "the printed expression is rejected by the parser (%s)" % a
    if c == "reload-differs":
        return "C10|reload-differs|%s" % a, "re-loading the printed expression stores a different string (%s)" % a
    raise common.MachineryFailure("unknown verdict clause %r" % (v,))


class Batch:
    """trees -> real code -> deduplicated traces -> TLC verdicts -> violations"""

    def __init__(self, ck, pool, tag):
        self.ck, self.pool, self.tag = ck, pool, tag
        self.stats = {"trees": 0, "cases": 0, "accepted": 0, "rejected": 0, "rejected_by": {}, "traces": 0,
                      "drift": 0, "selfcheck_failed": 0, "by_host": {h[0]: 0 for h in HOSTS}, "max_ops": 0,
                      "verdicts": {}}
        self.found = {}          # signature -> (what, example, count)
        self.per_tree = 2
        self.keep_all = None     # debugging aid: every violating trace
        self.all_hosts_upto = 2

    def hosts_of(self, idx, tr):
        """every tree is loaded in `per_tree` host positions (rotating, so that all six see the same share);
        small trees, leads and every 10th tree in all six"""
        n = len(HOSTS)
        if tr["src"][0][0] == "LB":
            return [0]         # a bare list expression is a CLASS EXPRESSION form (elsewhere the value is a string)
        if tr.get("ops", 0) <= self.all_hosts_upto or idx % 10 == 0:
            return list(range(n))
        a = (idx + self.ck.seed) % n
        k = max(1, self.per_tree - 1) if tr.get("lm") in (3, 4, 5, 6) and self.tag_origin != "walks" else self.per_tree
        return sorted({(a + j * (1 + (idx // n) % (n - 1))) % n for j in range(k)})

    def process(self, trees, origin, part):
        self.tag_origin = origin        # (walks carry their size in `lm`)
        ck, st = self.ck, self.stats
        seed = ck.seed
        jobs = [(seed, st["trees"] + i, [tuple(t) for t in tr["src"]], self.hosts_of(st["trees"] + i, tr))
                for i, tr in enumerate(trees)]
        t1 = time.time()
        results = self.pool.map(replay_tree, jobs, chunksize=64)
        st["replay_wall_s"] = round(st.get("replay_wall_s", 0) + time.time() - t1, 1)
        traces = {}              # key -> tid
        members = []             # tid -> [(tree index in this batch, host index)]
        rows = []
        for i, (tr, res) in enumerate(zip(trees, results)):
            st["trees"] += 1
            st["max_ops"] = max(st["max_ops"], tr.get("ops", 0))
            if not res["selfcheck"]:
                st["selfcheck_failed"] += 1
                raise common.MachineryFailure("renderer/tokenizer self-check failed for %r -> %r" % (tr["src"], res["text"]))
            src = [list(t) for t in tr["src"]]
            drifted = False
            for h in res["hosts"]:
                st["cases"] += 1
                ck.count()
                if h["status"] == "rejected":
                    st["rejected"] += 1
                    st["rejected_by"][h["exc"]] = st["rejected_by"].get(h["exc"], 0) + 1
                    continue
                if h["status"] == "dumps-raised":
                    self.found.setdefault("C10|dumps-raised|%s" % h["exc"],
                                          ["dumps raised %s for a loaded expression" % h["exc"],
                                           {"text": HOSTS[h["h"]][1] % res["text"]}, 0])[2] += 1
                    continue
                st["accepted"] += 1
                st["by_host"][HOSTS[h["h"]][0]] += 1
                if h["st"] != tr["norm"] and not drifted:
                    drifted = True           # the mechanism model (Expr.tla builders) predicts another string: a note
                    st["drift"] += 1
                    if len(ck.drift) < 12:
                        ck.drift.append({"source": res["text"], "stored": h["stored"],
                                         "model_predicts_tokens": tr["norm"], "host": HOSTS[h["h"]][0]})
                key = json.dumps([src, h["st"], h["pr"], h["rlok"], h["rl"]], separators=(",", ":"))
                tid = traces.get(key)
                if tid is None:
                    tid = traces[key] = len(members)
                    members.append([])
                    rows.append({"tid": tid, "src": src, "st": h["st"], "pr": h["pr"], "rlok": h["rlok"], "rl": h["rl"]})
                members[tid].append((i, h["h"]))
            ck.nontrivial(res["text"])
        if not rows:
            return
        st["traces"] += len(rows)
        # (T)
        d = os.path.join(tlc.BUILD, "traces", "c10")
        os.makedirs(d, exist_ok=True)
        nfiles = max(1, min(14, len(rows) // 400))
        paths = []
        for j in range(nfiles):
            p = os.path.join(d, "%s_%s_%02d.ndjson" % (self.tag, part, j))
            with open(p, "w") as f:
                for row in rows[j::nfiles]:
                    f.write(json.dumps(row, separators=(",", ":")) + "\n")
            paths.append(p)
        t1 = time.time()
        verdicts, rs = validate(paths, "c10_%s_%s" % (self.tag, part))
        st["validate_wall_s"] = round(st.get("validate_wall_s", 0) + time.time() - t1, 1)
        agg = {"states": 0, "distinct": 0, "wall_s": 0.0, "rc": 0, "depth": None, "violated": None}
        for r in rs:
            agg["states"] += r.states or 0
            agg["distinct"] += r.distinct or 0
            agg["wall_s"] = max(agg["wall_s"], round(r.wall, 2))
        agg["files"] = len(rs)
        ck.add_tlc("trace_%s_%s" % (origin, part), agg)
        if set(verdicts) != set(range(len(rows))):
            raise common.MachineryFailure("verdicts are not total: %d traces, %d verdicts" % (len(rows), len(verdicts)))
        for tid, v in verdicts.items():
            st["verdicts"][v["c"]] = st["verdicts"].get(v["c"], 0) + len(members[tid])
            if v["c"] == "ok":
                continue
            if v["c"] == "bad-src":
                raise common.MachineryFailure("generated source does not denote: %r" % rows[tid]["src"])
            sig, what = signature(v)
            i, hi = members[tid][0]
            res = results[i]
            h = [x for x in res["hosts"] if x["h"] == hi][0]
            ex = {"source": res["text"], "document": HOSTS[hi][1] % res["text"], "host": HOSTS[hi][0],
                  "hosts": sorted({HOSTS[b][0] for _, b in members[tid]}), "stored": h.get("stored"),
                  "printed": h.get("printed"), "reloaded": h.get("reloaded"), "verdict": v, "origin": origin,
                  "trace": rows[tid]}
            if self.keep_all is not None:
                self.keep_all.append((sig, ex["source"], ex["stored"], ex["reloaded"]))
            cur = self.found.get(sig)
            if cur is None:
                self.found[sig] = [what, ex, len(members[tid])]
            else:
                cur[2] += len(members[tid])
                if len(ex["source"]) < len(cur[1]["source"]):
                    cur[1] = ex
        for p in paths:
            try:
                os.remove(p)
            except OSError:
                pass

    def report(self):
        for sig in sorted(self.found):
            what, ex, n = self.found[sig]
            src = ex.get("source", "")
            self.ck.violation(sig, "%s; %d cases, e.g. %s %s -> stored %r, printed %r, reloaded %r" % (
                what, n, ex.get("host", ""), src, ex.get("stored"), ex.get("printed"), ex.get("reloaded")), ex)


def run(tier):
    ck = common.Check("C10", tier, "model_checking", RULE)
    quick = tier == "quick"
    seed = ck.seed
    t0 = time.time()
    from .. import impl  # noqa: F401  (imported before the pool forks: every worker shares the loaded grammar)
    _worker_init()
    pool = mp.get_context("fork").Pool(14 if not quick else 12)
    # (M) runs in the background while the generated trees go through the real code
    jobs = model_jobs(quick)
    mex = ThreadPoolExecutor(max_workers=4 if quick else 3)
    futs = [(name, kind, invs, mex.submit(model_run, "c10_" + name, invs,
                                          2 if quick else (6 if name == "m_contract" else 3), **kw))
            for name, kind, invs, kw in jobs]
    batch = Batch(ck, pool, "s%d" % seed)
    try:
        # (G) exhaustive shapes
        if quick:
            with ThreadPoolExecutor(max_workers=2) as gex:
                f1 = gex.submit(emit_shapes, ck, 3, seed, "c10_shapes")
                f2 = gex.submit(emit_walks, ck, 2500, seed + 1, "c10_walks")
                trees, walks = f1.result(), f2.result()
            ck.sample({"generated": exprtok.render([tuple(t) for t in trees[len(trees) // 2]["src"]], random.Random(0))})
            ck.sample({"generated": exprtok.render([tuple(t) for t in walks[-1]["src"]], random.Random(0))})
            batch.process(trees, "shapes", "a")
            batch.process(walks, "walks", "w")
            nshape, nwalk = len(trees), len(walks)
        else:
            batch.per_tree, batch.all_hosts_upto = 3, 3
            nshape = nwalk = 0
            q = queue.Queue(maxsize=2)

            def produce(kind):
                try:
                    if kind == "shapes":
                        for j, kinds in enumerate(ROOT_GROUPS):
                            q.put(("shapes", "a%d" % j, emit_shapes(ck, 4, seed, "c10_shapes_%d" % j, roots=kinds)))
                    else:
                        for j in range(5):
                            q.put(("walks", "w%d" % j, emit_walks(ck, 100000, seed * 100 + j + 1, "c10_walks_%d" % j)))
                    q.put(None)
                except BaseException as ex:  # noqa: BLE001
                    q.put(ex)
            for kind in ("shapes", "walks"):
                threading.Thread(target=produce, args=(kind,), daemon=True).start()
            open_producers = 2
            while True:
                item = q.get()
                if item is None:
                    open_producers -= 1
                    if open_producers == 0:
                        break
                    continue
                if isinstance(item, BaseException):
                    raise item
                origin, part, trees = item
                if origin == "shapes":
                    nshape += len(trees)
                else:
                    nwalk += len(trees)
                step = 120000
                for j in range(0, len(trees), step):
                    batch.process(trees[j:j + step], origin, "%s_%d" % (part, j // step))
                del trees
        # (M) results; leads of the mechanism model go through the real code like every other tree
        leads = []
        for name, kind, invs, fut in futs:
            r = fut.result()
            ck.add_tlc(name, r)
            if kind == "contract" and r.violated:
                ck.violation("C10|model|%s" % r.violated, "Expr.tla contract invariant %s violated" % r.violated,
                             {"trace": tlc.error_trace(r)[-3:]})
            elif kind == "negative" and not r.violated:
                raise common.MachineryFailure("negative configuration %s was not rejected by TLC" % name)
            elif kind == "lead":
                ls = [p for p in r.prints if isinstance(p, dict) and "lead" in p]
                if r.violated and ls:
                    res = replay_tree((seed, 0, [tuple(t) for t in ls[0]["src"]], [0]))
                    h = res["hosts"][0]
                    same = h["status"] == "ok" and h["st"] == ls[0]["norm"]
                    ck.notes.append("mechanism model (%s): %s violated, lead %s -> model predicts %r; real code stores %r: %s" % (
                        name, r.violated, res["text"], " ".join(tok_text(t) for t in ls[0]["norm"]), h.get("stored"),
                        "lead confirmed on the real code" if same else "NOT reproduced by the real code"))
                    leads.append({"src": ls[0]["src"], "norm": ls[0]["norm"], "ops": 0})
                else:
                    ck.notes.append("mechanism model (%s): %s holds up to the bound" % (name, invs[0]))
        if leads:
            batch.process(leads, "leads", "l")
        ck.add_tlc("trace_canary", canary())
    finally:
        pool.terminate()
        mex.shutdown(wait=False)
    batch.report()
    st = batch.stats
    if st["accepted"] == 0 or st["accepted"] < 0.5 * st["cases"]:
        raise common.MachineryFailure("vacuous: %d of %d cases accepted by the parser" % (st["accepted"], st["cases"]))
    if st["drift"]:
        ck.notes.append("mechanism drift: %d accepted cases where the stored tokens differ from Expr.tla's builder model" % st["drift"])
    ck.notes.append("sources the grammar rejects are skipped (outside C10): %d of %d cases %s" % (
        st["rejected"], st["cases"], st["rejected_by"]))
    return ck.finish(exhaustive=False, coverage_extra={
        "trees_exhaustive": nshape, "trees_random": nwalk, "host_positions": [h[0] for h in HOSTS],
        "cases": st["cases"], "accepted": st["accepted"], "rejected_by_grammar": st["rejected"],
        "accepted_by_host": st["by_host"], "distinct_traces_validated": st["traces"], "verdicts": st["verdicts"],
        "max_operator_nodes": st["max_ops"], "mechanism_drift_cases": st["drift"],
        "replay_wall_s": st.get("replay_wall_s"), "validate_wall_s": st.get("validate_wall_s"),
        "gen_wall_s": round(time.time() - t0, 1)})


def replay(path):
    """re-run one recorded case: real code -> trace -> TraceExpr verdict"""
    with open(path) as f:
        case = json.load(f)["case"]
    src = [tuple(t) for t in case["trace"]["src"]]
    _worker_init()
    it = exprtok.Interner()
    loads, dumps = _W["loads"], _W["dumps"]
    name, tmpl, key = [h for h in HOSTS if h[0] == case["host"]][0]
    doc = case["document"]
    row = {"tid": 0, "src": [list(t) for t in src]}
    try:
        d = loads(doc)
    except Exception as ex:  # noqa: BLE001
        print("C10 replay: source now rejected (%s) - outside C10" % type(ex).__name__)
        return 0
    stored = d[key]
    row["st"] = exprtok.tokenize(stored, it)
    out = dumps(d)
    pv = printed_value(out, name.split()[1])
    row["pr"] = exprtok.tokenize(pv or "", it)
    try:
        again = loads(out)[key]
        row["rlok"], row["rl"] = True, exprtok.tokenize(again, it)
    except Exception as ex:  # noqa: BLE001
        again = type(ex).__name__
        row["rlok"], row["rl"] = False, []
    d0 = os.path.join(tlc.BUILD, "traces", "c10")
    os.makedirs(d0, exist_ok=True)
    p = os.path.join(d0, "replay.ndjson")
    with open(p, "w") as f:
        f.write(json.dumps(row) + "\n")
    verdicts, _ = validate([p], "c10_replay")
    v = verdicts[0]
    print("source   %s\nstored   %r\nprinted  %r\nreloaded %r\nverdict  %s" % (case["source"], stored, pv, again, v))
    if v["c"] == "ok":
        return 0
    sig, what = signature(v)
    print("VIOLATION property=C10 replay=%s  # %s :: %s" % (path, sig, what))
    return 1
