"""C13 - position and comment bookkeeping is transparent.

(G) documents and comment placements come from TLC (spec/Comments.tla behaviours), plus corpus files.
(T) verdict: every document is loaded under the four combinations of include_position x include_comments
    through loads, open and load; spec/TraceComments.tla (JudgeTransparent) requires for every variant: the
    projection without hidden keys equals the plain load's (keys, order, values, types), only the hidden keys
    the flags allow are present, __position__ data never reaches the printed text, and the printed line
    events apart from comments equal those of the plain dictionary.
"""
from __future__ import annotations
import hashlib
import io
import json
import os
import shutil
import tempfile
from .. import common, docs, concretise, project, impl, tracecheck, comments, corpus, mapreader
from . import c14

RULE = ("for each of the 4 flag combinations x {loads, open, load}: project(load) == project(plain load), hidden keys within "
        "{__type__, __position__ (if asked), __comments__ (if asked)}, printed events minus comments equal; decided by "
        "spec/TraceComments.tla; distinct = documents")


def hidden_keys(v, acc):
    if isinstance(v, dict):
        for k, x in v.items():
            if project.is_hidden(k):
                acc.add(k)
                if k in ("__position__", "__comments__", "__tokens__"):
                    continue
            hidden_keys(x, acc)
    elif isinstance(v, (list, tuple)):
        for x in v:
            hidden_keys(x, acc)
    return acc


def type_digest(d):
    """digest of the Python types of every container and value, apart from hidden keys"""
    def sig(x):
        if isinstance(x, dict):
            return [type(x).__name__, [[k if isinstance(k, str) else repr(k), sig(v)] for k, v in x.items() if not project.is_hidden(k)]]
        if isinstance(x, (list, tuple)):
            return [type(x).__name__, [sig(e) for e in x]]
        return type(x).__name__
    return hashlib.sha1(json.dumps(sig(d)).encode()).hexdigest()


def printed_digest(out):
    """digest of the printed text apart from comments: line events plus, per line, the offset at which the value starts"""
    acc = []
    for part in out.split("\n@@\n"):
        lines, ev, problems = mapreader.read(part)
        acc.append([[e["lvl"], e["kind"], e["key"], [v[1] for v in e["vals"]]] for e in ev])
        acc.append([(ln["valcol"] or 0) - len(ln["ws"]) for ln in lines if ln["kind"] in ("attr", "pair")])
    return hashlib.sha1(json.dumps(acc).encode()).hexdigest()


def run(tier):
    ck = common.Check("C13", tier, "model_checking", RULE)
    seed = ck.seed
    quick = tier == "quick"
    combos = [(p, c) for p in (False, True) for c in (False, True)]
    parsers = {(p, c): (impl.Parser(include_comments=c, expand_includes=True),
                        impl.MapfileToDict(include_position=p, include_comments=c)) for p, c in combos}
    dumpers = [impl.dumper(), impl.dumper(align_values=True, indent=2), impl.dumper(align_values=True, separate_complex_types=True, end_comment=True, indent=3)]

    def dumps(d, n=0):
        import copy
        return "\n@@\n".join(dp(copy.deepcopy(d)) for dp in dumpers)
    tmp = tempfile.mkdtemp(prefix="verif_c13_")
    records, meta = [], {}
    try:
        cases = []
        bs = c14.behaviours(1500 if quick else 8000, seed + 13, ck, max_comments=4, tag="c13docs", mode="walk")
        for j, b in enumerate(bs):
            hist, cms = b["hist"], b["comments"]
            if any(a["a"] == "repeated" and a["key"] == "include" for a in hist):
                continue                 # INCLUDE lines would be expanded by open/load
            conc = concretise.Concretiser(seed * 983 + j, avoid_quote='"')
            inc = None
            if j % 3 == 0:
                # move up to three one-line simple keywords into include files (several INCLUDE lines in one file)
                attrs = [i for i, a in enumerate(hist, start=1) if a["a"] == "attr"]
                inc = {i: "inc%d_%d.map" % (j, n) for n, i in enumerate(attrs[1:6:2])} or None
            r3 = comments.render(conc, hist, docs.root_type(hist), cms, salt=seed + j, nl="\n" if j % 3 else "\r\n", include_items=inc)
            text, incfiles = r3[0], (r3[2] if inc else {})
            lines_inc = [ln for ln in text.splitlines() if ln.strip().lower().startswith("include")]
            if len(lines_inc) != len(incfiles):
                continue                 # the document itself carries INCLUDE keywords as data (they would be expanded)
            cases.append(("gen:%d" % j, text, None, incfiles))
            ck.nontrivial([hist[:-1], cms])
        for fn in (corpus.sample(30, seed) if quick else corpus.files()):
            cases.append(("corpus:" + os.path.relpath(fn, common.REPO), None, fn, {}))
        for tid, text, fn, incfiles in cases:
            if fn is None:
                fn2 = os.path.join(tmp, "doc.map")
                with open(fn2, "w", encoding="utf-8", newline="") as f:
                    f.write(text)
                for name, body in incfiles.items():
                    with open(os.path.join(tmp, name), "w", encoding="utf-8", newline="") as f:
                        f.write(body)
            else:
                fn2 = fn
                try:
                    text = corpus.read(fn)
                except Exception:  # noqa: BLE001
                    continue
            p0, m0 = parsers[(False, False)]
            try:
                base = m0.transform(p0.parse_file(fn2))
                base_out = dumps(base)
                base_dig = printed_digest(base_out)
            except Exception:  # noqa: BLE001
                continue               # not accepted / not printable: other properties
            itn = tracecheck.Interner()
            rec = {"tid": tid, "what": "transparent", "base": itn.value(project.project(base)), "printed": itn.s(base_dig), "types": itn.s(type_digest(base)), "variants": []}
            ok = True
            for (pflag, cflag) in combos:
                p, m = parsers[(pflag, cflag)]
                for api in ("open", "load", "loads"):
                    if api == "loads" and (fn is not None or incfiles):
                        continue       # INCLUDE names are relative to the file's directory
                    if (pflag, cflag) == (False, False) and api == "open":
                        continue
                    ck.count()
                    name = "%s:pos=%d,com=%d" % (api, pflag, cflag)
                    try:
                        if api == "open":
                            d = m.transform(p.parse_file(fn2))
                        elif api == "load":
                            with open(fn2, encoding="utf-8", newline="") as fp:      # a stream that delivers the characters as written
                                d = m.transform(p.load(fp))
                        else:
                            d = m.transform(p.parse(text))
                        out = dumps(d)
                        allowed = {"__type__"} | ({"__position__"} if pflag else set()) | ({"__comments__"} if cflag else set())
                        hk = hidden_keys(d if not isinstance(d, list) else list(d), set())
                        rec["variants"].append({"name": name, "proj": itn.value(project.project(d)),
                                                "position_printed": out.count("__position__") > base_out.count("__position__"),
                                                "printed": itn.s(printed_digest(out)), "types": itn.s(type_digest(d)), "hidden_ok": hk <= allowed})
                    except Exception as ex:  # noqa: BLE001
                        ck.violation("C13|raised|%s|%s" % (name.split(":")[1], type(ex).__name__),
                                     "loading/printing with bookkeeping on raised %s: %s" % (type(ex).__name__, str(ex)[:120]),
                                     {"text": text if len(text) < 4000 else tid, "variant": name})
                        ok = False
                        break
                if not ok:
                    break
            if ok:
                records.append(rec)
                meta[tid] = text
        # inputs the plain load rejects are rejected, with the same exception class, under every flag combination
        rejects = {"latin1.map": "MAP\n  NAME \"caf\u00e9\"  # comment\nEND\n".encode("latin-1"),
                   "syntax.map": b"MAP\n  NAME # c\nEND\n",
                   "unterminated.map": b"MAP\n  # c\n  NAME \"abc\nEND\n",
                   "latin1inc.map": b"MAP\n  INCLUDE \"latin1part.map\" # c\nEND\n"}
        with open(os.path.join(tmp, "latin1part.map"), "wb") as f:
            f.write("NAME \"caf\u00e9\"\n".encode("latin-1"))
        for name, body in sorted(rejects.items()):
            fnr = os.path.join(tmp, name)
            with open(fnr, "wb") as f:
                f.write(body)
            outcome = {}
            for (pflag, cflag) in combos:
                p, m = parsers[(pflag, cflag)]
                ck.count()
                try:
                    m.transform(p.parse_file(fnr))
                    outcome[(pflag, cflag)] = "accepted"
                except Exception as ex:  # noqa: BLE001
                    outcome[(pflag, cflag)] = type(ex).__name__
            base_o = outcome[(False, False)]
            for kk, o in outcome.items():
                if o != base_o:
                    ck.violation("C13|rejection-differs|%s|pos=%d,com=%d" % (name.split(".")[0], kk[0], kk[1]),
                                 "%s: the plain load gives %s, with include_position=%s include_comments=%s it gives %s" % (name, base_o, kk[0], kk[1], o),
                                 {"file": name, "bytes": repr(body)})
    finally:
        shutil.rmtree(tmp, ignore_errors=True)
    if len(records) < 0.5 * len(cases):
        raise common.MachineryFailure("only %d of %d documents could be loaded plainly: nothing to judge" % (len(records), len(cases)))
    def canary(r):
        if not r["variants"]:
            return None
        r["variants"][-1]["hidden_ok"] = False
        return r
    verdicts = tracecheck.validate("TraceComments", records, "c13", ck=ck, chunk=300, canary=canary)
    for tid, v in verdicts.items():
        if v["verdict"] != "ok":
            vd = v["verdict"]
            ck.violation("C13|%s|%s" % (vd, tid.split(":")[0] if tid.startswith("gen") else tid), "bookkeeping is not transparent: %s (%s)" % (vd, tid),
                         {"text": meta[tid] if len(meta[tid]) < 4000 else tid})
    ck.sample({"tid": records[0]["tid"], "variants": [v["name"] for v in records[0]["variants"]]})
    return ck.finish(coverage_extra={"documents": len(records), "traces_validated_against_impl": len(verdicts)})
