"""C20 - file, stream and command-line front ends agree with the string API.

(M) TLC model-checks spec/Frontend.tla: over all file sets of <= 3 files, each a MAP file that is
    valid / invalid(n) / version-dependent / unparseable, n in {1,2,255,256,257,300}, or (sets of
    <= 2) a partial Mapfile - one LAYER, CLASS, WEB or STYLE root, or two LAYER roots, with and
    without messages - the exit rule is total, 0 <=> all good and exact when it fits an exit status,
    and the messages printed are the API's (every root against the schema of its own type);
    `format` = save(open()) and `schema` = the API's schema for every option combination; on
    generated documents whose string values draw from every character class every reader returns
    what loads returns, all writers write the same characters for every layout (indent, spacer,
    quote, newline, end_comment, align_values, separate_complex_types; UTF-8 where bytes are
    written) and every string value survives save -> open - also when the values change and the
    dictionary is saved to the SAME path again (same encoded length or other kinds, twice) and the
    path is read again in the same process; `format` with OUT another file, IN itself or a symbolic
    link to IN.  Eight broken variants of the model (raw exit value, parse failures not counted, MAP
    schema for every root, universal newlines, latin-1 save, dump mixing up two options, format
    opening OUT before reading IN, open remembering text per path and size) must be rejected by TLC
    in every run.
(G) verdict: every configuration / behaviour TLC emits carries the expectation of the spec (exit
    class and exact status, line counts per file, the API call a command line stands for, the
    character classes of every string value after every call, the layout of every written text).
    The replayer realises it with real files in a directory under /tmp, real `mappyfile`
    subprocesses (importing the tree under test) and the real open / load / loads / save / dump /
    dumps (every writer on its own copy of the dictionary), and compares.
"""
from __future__ import annotations
import copy
import io
import json
import os
import random
import re
import shutil
import subprocess
import sys
import tempfile
from concurrent.futures import ThreadPoolExecutor, ProcessPoolExecutor

import multiprocessing

from .. import common, docs, concretise, project, tlc, vocab
from .. import impl  # noqa: F401  (puts the tree under test on the import path, quietens its logging)

RULE = ("exit status / stdout lines of `mappyfile validate`, bytes written by `format` and `schema`, dictionaries "
        "returned by open/load/loads and characters written by save/dump/dumps == what spec/Frontend.tla predicts "
        "for the same configuration (real files, real subprocesses); Frontend invariants hold on all bounded "
        "configurations and the broken variants are rejected")

INV_VALIDATE = ["ExitTotal", "ZeroIffAllGood", "ExactWhenFits", "ExpectMatches", "OneLinePerMessage"]
INV_CLI = ["FormatIsSaveOpen", "FormatReplaces", "FormatKeepsInput", "SchemaIsApi"]
INV_API = ["FrontEndsAgree", "WritersAgree", "StringsSurvive"]
ERR_COUNTS = {1, 2, 255, 256, 257, 300}
WORKERS = 16


def consts(**kw):
    c = {"Scenarios": {"validate"}, "Mode": "all", "ErrCounts": ERR_COUNTS, "MaxFiles": 3, "StrIds": {1},
         "Layouts": "one", "SaveCodec": "utf8", "Newlines": "verbatim", "ExitRule": "contract",
         "RootSchema": "own", "DumpOptions": "same", "FormatOrder": "read-first", "OpenCache": "none", "Rewrites": 2}
    c.update(kw)
    return c


# ------------------------------------------------------------------------------------ TLC runs
def tlc_jobs(quick, seed, n_api):
    """name -> kwargs of tlc.run; all independent, run side by side"""
    jobs = {
        # (M) + emission of every CLI configuration
        "c20_cli": dict(cfg=tlc.cfg_text(constants=consts(Scenarios={"validate", "format", "schema"}),
                                         invariants=["Emit"] + INV_VALIDATE + INV_CLI), workers=1, timeout=1200),
        # (M) api scenario, everything enumerated
        "c20_api_mc": dict(cfg=tlc.cfg_text(constants=consts(Scenarios={"api"}, StrIds={1} if quick else {1, 2},
                                                             Layouts="some"),
                                            invariants=INV_API), workers=4 if quick else 16, timeout=3000),
        # (G) api behaviours: random kinds for four string ids, random layout, free call order
        "c20_api_walks": dict(cfg=tlc.cfg_text(constants=consts(Scenarios={"api"}, Mode="walk", StrIds={1, 2, 3, 4}),
                                               invariants=["Emit"] + INV_API), mode="simulate",
                              simulate="num=%d" % n_api, depth=30, seed=seed + 20, workers=1, timeout=1200),
    }
    for name, kw, sc in NEGATIVES:
        jobs["c20_neg_" + name] = dict(cfg=tlc.cfg_text(constants=consts(Scenarios={sc}, MaxFiles=1, **kw),
                                                        invariants=INV_VALIDATE + INV_CLI + INV_API), workers=1, timeout=600)
    return jobs


# broken variants of the model: (name, constant override, scenario, invariants one of which must fail)
NEGATIVES = [
    ("raw_exit", {"ExitRule": "raw"}, "validate"),
    ("skip_unparsed", {"ExitRule": "skip-unparsed"}, "validate"),
    ("universal_newlines", {"Newlines": "universal"}, "api"),
    ("latin1_save", {"SaveCodec": "latin1"}, "api"),
    ("map_schema_for_every_root", {"RootSchema": "map"}, "validate"),
    ("dump_mixes_options", {"DumpOptions": "sc-from-av", "Layouts": "some"}, "api"),
    ("format_truncates_out_first", {"FormatOrder": "truncate-first"}, "format"),
    ("open_remembers_text_by_size", {"OpenCache": "by-size"}, "api"),
]


def run_tlc(ck, quick, seed, n_api):
    vocab.get()
    jobs = tlc_jobs(quick, seed, n_api)
    with ThreadPoolExecutor(len(jobs)) as ex:
        futs = {name: ex.submit(tlc.run, "Frontend", kw.pop("cfg"), tag=name, **kw) for name, kw in jobs.items()}
        res = {name: f.result() for name, f in futs.items()}
    for name, r in res.items():
        ck.add_tlc(name, r)
        if name.startswith("c20_neg_"):
            if not r.violated:
                raise common.MachineryFailure("broken model variant %s was not rejected by TLC" % name)
        elif r.violated:
            ck.violation("C20|model|%s" % r.violated, "Frontend property %s violated in the model (%s)" % (r.violated, name),
                         {"trace": tlc.error_trace(r)})
    return res


# ------------------------------------------------------------------------------------ characters
def cls(ch):
    o = ord(ch)
    if ch == "\n":
        return "lf"
    if ch == "\r":
        return "cr"
    if o < 0x20 or o == 0x7f:
        return "ctl"
    if o < 0x80:
        return "ascii"
    if o < 0x100:
        return "latin1"
    if o < 0x10000:
        return "bmp"
    return "astral"


def runs(s):
    out = []
    for ch in s:
        c = cls(ch)
        if not out or out[-1] != c:
            out.append(c)
    return out


# concrete strings per kind of spec/Frontend.tla (StrKinds); {i} is the id of the string value
POOL = {
    "ascii": ["roads {i}", "Main St {i}", "a#b is not a comment {i}", "x;y,z {i}", "END {i}", "c:\\data\\x{i}.shp"],
    "latin1": ["Caf\u00e9 {i}", "n\u00e4\u00efve {i}", "cr\u00e8me {i}", "stra\u00dfe {i}"],
    "latin1-lead": ["\u00e9tat {i}", "\u00c5land {i}", "\u00fc\u00f6 {i}"],
    "cjk": ["{i} \u65e5\u672c\u8a9e x", "k\u4e2d\u6587{i}", "{i}\uac00\ub098\ub2e4z"],
    "astral": ["a\U0001d518\U0001f600b{i}", "{i}\U00010348z", "x{i}\U0001f1e9\U0001f1eay", "c{i}\U0002f800\U0001d15ez"],
    "astral-trail": ["{i} ends \U0001f600", "z{i}\U0001f30d\U0001f680"],
    "nbsp": ["a\u00a0b{i}", "{i}\u00a0\u00a0km"],
    "rtl": ["{i} \u05e9\u05dc\u05d5\u05dd \u0645\u0631\u062d\u0628\u0627 z", "{i}\u202e\u05d0\u05d1 \u0627\u0644\u202c x"],
    "combining": ["{i}e\u0301 n\u0303o", "{i}a\u030a\u0323 o\u0308x"],
    "nfc-unstable": ["10 \u212b\u2126 {i}", "{i}\u1100\u1161\u11a8z", "k{i}\uf900\ufa0e x", "{i} \ufb01\u2460z"],
    "bom": ["a\ufeffb{i}", "{i}\ufeff\ufeffz"],
    "u2028": ["a\u2028b{i}", "p\u2029q{i}", "{i}x\u2028\u2029y"],
    "nel": ["a\u0085b{i}", "{i}\u0085\u0085z"],
    "ff": ["a\x0cb{i}"],
    "vt": ["a\x0bb{i}"],
    "tab": ["a\tb{i}", "{i}\t\tz"],
    "lf-ml": ["multi{i}\nline", "a{i}\n\n b"],
    "lone-cr": ["a{i}\rb", "x{i}\r\ry"],
    "crlf-ml": ["line{i}\r\nnext", "p{i}\r\nq r"],
    "mixed": ["\u00e9\u65e5\U0001d518 {i}", "\u00fc\u00f6\u4e2d\U0001f600x{i}"],
}


def draw_string(kind, i, rng, want):
    s = rng.choice(POOL[kind]).format(i=i)
    if runs(s) != list(want):
        raise common.MachineryFailure("fixture string %r of kind %s has classes %s, the spec says %s" % (s, kind, runs(s), want))
    return s


# ------------------------------------------------------------------------------------ subprocesses
RUNNER = ("import sys, os\n"
          "sys.path.insert(0, %(repo)r)\n"
          "import mappyfile\n"
          "if not os.path.realpath(mappyfile.__file__).startswith(os.path.realpath(%(repo)r) + os.sep):\n"
          "    sys.stderr.write('C20-WRONG-IMPORT ' + mappyfile.__file__)\n"
          "    os._exit(99)\n"
          "from mappyfile.cli import main\n"
          "main()\n")


def cli(args, cwd, timeout=300):
    """run `mappyfile <args>` as a real subprocess importing the tree under test"""
    env = dict(os.environ)
    env.pop("PYTHONPATH", None)
    env["PYTHONIOENCODING"] = "utf-8"
    p = subprocess.run([sys.executable, "-c", RUNNER % {"repo": common.REPO}] + list(args), cwd=cwd, env=env,
                       stdout=subprocess.PIPE, stderr=subprocess.PIPE, timeout=timeout)
    err = p.stderr.decode("utf-8", "replace")
    if "C20-WRONG-IMPORT" in err:
        raise common.MachineryFailure("the CLI subprocess imported %s" % err[-200:])
    return p.returncode, p.stdout.decode("utf-8", "replace"), err


# ------------------------------------------------------------------------------------ validate
PARTIAL = {   # root type -> (valid text, text with exactly one validation message)
    "layer": ('LAYER\n  NAME "roads"\n  TYPE LINE\n  STATUS ON\n  CLASS\n    NAME "all"\n    STYLE\n      COLOR 0 0 0\n    END\n  END\nEND\n',
              'LAYER\n  NAME "roads"\n  TYPE foo\nEND\n'),
    "class": ('CLASS\n  NAME "c"\n  STYLE\n    COLOR 0 0 0\n  END\nEND\n', 'CLASS\n  NAME "c"\n  STATUS maybe\nEND\n'),
    "web": ('WEB\n  METADATA\n    "wms_title" "x"\n  END\nEND\n', 'WEB\n  IMAGEPATH "/tmp/"\n  MAXSCALEDENOM foo\nEND\n'),
    "style": ('STYLE\n  COLOR 1 2 3\n  WIDTH 2\nEND\n', 'STYLE\n  COLOR 1 2 3\n  LINECAP foo\nEND\n'),
}
MULTIROOT = {0: 'LAYER\n  NAME "a"\n  TYPE POINT\nEND\nLAYER\n  NAME "b"\n  TYPE POLYGON\nEND\n',
             2: 'LAYER\n  NAME "a"\n  TYPE foo\nEND\nLAYER\n  NAME "b"\n  TYPE bar\nEND\n'}


def kind_label(kind):
    if kind["k"] == "invalid":
        return "invalid(%d)" % kind["n"]
    if kind["k"] == "partial":
        return "%s-root(%d)" % (kind["root"], kind["n"])
    if kind["k"] == "multiroot":
        return "two-layer-roots(%d)" % kind["n"]
    return kind["k"]


def doc_with_errors(kind, n, full=None):
    if kind == "partial":
        return PARTIAL[full["root"]][n]
    if kind == "multiroot":
        return MULTIROOT[n]
    L = ["MAP", '  NAME "c20"', "  EXTENT 0 0 10 10"]
    if kind == "valid":
        L += ["  LAYER", '    NAME "ok"', "    TYPE POINT", "  END"]
    elif kind == "versioned":           # DUMP was removed after 7.6: no message at 7.6, one at 8.x
        L += ["  LAYER", '    NAME "v"', "    TYPE POINT", "    DUMP TRUE", "  END"]
    else:
        for i in range(n):              # one invalid enumeration value per LAYER
            L += ["  LAYER", '    NAME "l%d"' % i, "    TYPE foo", "  END"]
    L.append("END")
    return "\n".join(L) + "\n"


UNPARSEABLE = ['MAP\n  NAME "x\n  LAYER END\nEND\n', "MAP\n  LAYER\n    NAME 'x'\n  END\n", "MAP\n  NAME x y z\n  = 3\nEND\n",
               "LAYER\n  CLASS\n    STYLE COLOR 1 2 END\n  END\nEND END\n"]
VERSIONS = {"7.6": 7.6, "8.0": 8.0, "8.2": 8.2}
_fixture_ok = {}


def fixture_text(kind, nerr, rng):
    """text of a file of the given kind; verified once against the API: it must get exactly the
    number of validation messages the spec attaches to the kind, per version"""
    import mappyfile
    if kind["k"] == "unparseable":
        text = rng.choice(UNPARSEABLE)
        if text not in _fixture_ok:
            try:
                mappyfile.loads(text)
            except Exception:  # noqa: BLE001
                _fixture_ok[text] = True
            else:
                raise common.MachineryFailure("fixture meant to be unparseable parses: %r" % text)
        return text
    text = doc_with_errors(kind["k"], kind["n"], kind)
    key = (kind["k"], kind["n"], kind.get("root"))
    if key not in _fixture_ok:
        d = mappyfile.loads(text)
        for v, f in VERSIONS.items():
            got = len(mappyfile.validate(d, f))
            if got != nerr[v]:
                raise common.MachineryFailure("fixture %s has %d validation messages at %s, the spec needs %d" % (key, got, v, nerr[v]))
        _fixture_ok[key] = True
    return text


def validate_case(h, root, idx, seed):
    """realise one validate configuration; returns (findings, info)"""
    files, act = h[0], h[1]
    post = act["post"]
    rng = random.Random("%s-%s" % (seed, idx))
    d = os.path.join(root, "v%05d" % idx)
    os.makedirs(d)
    names = []
    for i, kind in enumerate(files["kinds"]):
        fn = "f%d.map" % (i + 1)
        with open(os.path.join(d, fn), "w", encoding="utf-8", newline="") as f:
            f.write(fixture_text(kind, files["nerr"][i], rng))
        names.append(fn)
    args = ["validate"] + (["f*.map"] if act["how"] == "glob" else names)
    if act["version"] != "default":
        args += ["--version", act["version"]]
    rc, out, err = cli(args, d)
    shutil.rmtree(d, ignore_errors=True)
    case = {"scenario": "validate", "hist": h, "args": args, "status": rc, "stdout": out[:3000], "stderr": err[-600:]}
    kinds = [k["k"] for k in files["kinds"]]
    finds = []
    parsed_sum = post["msgs"]
    what_cfg = "validate %s (files: %s)" % (" ".join(args[1:]), ", ".join(kind_label(k) for k in files["kinds"]))
    # exit status against the rule of the spec
    if post["zero"] and rc != 0:
        finds.append(("C20|exit|all-good->nonzero", "%s: exit status %d, every file parsed and validated" % (what_cfg, rc), case))
    elif not post["zero"] and rc == 0:
        if "unparseable" in kinds and parsed_sum == 0:
            sig, why = "C20|exit|unparseable->0", "a file failed to parse"
        elif parsed_sum and parsed_sum % 256 == 0:
            sig, why = "C20|exit|256-errors->0", "%d validation messages (a multiple of 256: sys.exit(errors) wraps)" % parsed_sum
        else:
            sig, why = "C20|exit|problems->0", "%d problems" % post["problems"]
        finds.append((sig, "%s: exit status 0 although %s" % (what_cfg, why), case))
    elif post["exact"] and rc != post["exact"]:
        if "unparseable" in kinds and rc == parsed_sum % 256:
            sig = "C20|exit|unparseable-not-counted"
        else:
            sig = "C20|exit|count-differs"
        finds.append((sig, "%s: exit status %d, the number of problems is %d" % (what_cfg, rc, post["exact"]), case))
    # stdout: one line per message (the API's messages), one line per other file, the summary line
    lines = out.splitlines()
    n0 = len(finds)
    seen = []
    per = {fn: {"messages": 0, "ok": 0, "parsefail": 0, "other": 0} for fn in names}
    attributed = True
    for ln in (lines[:-1] if lines else []):
        fn = ln.split(" ", 1)[0]
        if fn not in per:
            finds.append(("C20|stdout|unattributed-line", "%s: line %r names no file" % (what_cfg, ln[:80]), case))
            attributed = False
            break
        if not seen or seen[-1] != fn:
            seen.append(fn)
        if ln.startswith(fn + " (Line: "):
            per[fn]["messages"] += 1
        elif "validated successfully" in ln:
            per[fn]["ok"] += 1
        elif "failed to parse" in ln:
            per[fn]["parsefail"] += 1
        else:
            per[fn]["other"] += 1
    if attributed:
        for fn, pf, kind in zip(names, post["perfile"], files["kinds"]):
            want = {"messages": 0, "ok": 0, "parsefail": 0, "other": 0}
            want[pf["r"]] = pf["n"]
            if per[fn] != want:
                root = kind.get("root", "layers" if kind["k"] == "multiroot" else "map")
                finds.append(("C20|stdout|per-file|%s|%s-root" % (pf["r"], root),
                              "%s: lines for %s (%s) are %s, validate() of the API gives %s" % (what_cfg, fn, kind_label(kind), per[fn], want), case))
                break
        if act["how"] == "list" and seen != [fn for fn in names if fn in seen]:
            finds.append(("C20|stdout|file-order", "%s: files reported in order %s" % (what_cfg, seen), case))
    m = re.match(r"^(\d+) file\(s\) validated \((\d+) successfully\)$", lines[-1]) if lines else None
    if not m or (int(m.group(1)), int(m.group(2))) != (post["total"], post["okcount"]):
        finds.append(("C20|stdout|summary", "%s: summary line %r, expected %d file(s), %d successfully" % (
            what_cfg, lines[-1] if lines else "", post["total"], post["okcount"]), case))
    if len(lines) != post["lines"] and len(finds) == n0:
        finds.append(("C20|stdout|line-count", "%s: %d lines on stdout, expected %d" % (what_cfg, len(lines), post["lines"]), case))
    return finds, {"rc": rc, "lines": len(lines)}


def validate_label(h):
    post = h[1]["post"]
    kinds = [k["k"] for k in h[0]["kinds"]]
    ps = post["msgs"]
    part = "P" if "partial" in kinds else ("M" if "multiroot" in kinds else "-")
    return "%s%s|%s|%s" % ("U" if "unparseable" in kinds else "-", part,
                           "zero" if post["zero"] else ("fits" if post["exact"] else "over"),
                           "wrap" if ps and ps % 256 == 0 else "-")


def select_validate(cfgs, n, rng):
    by = {}
    for h in cfgs:
        by.setdefault(validate_label(h), []).append(h)
    out = []
    per = max(1, (n * 3 // 4) // max(1, len(by)))
    for lab in sorted(by):
        out += rng.sample(by[lab], min(per, len(by[lab])))
    rest = [h for h in cfgs if h not in out]
    globs = [h for h in rest if h[1]["how"] == "glob"]
    vers = [h for h in rest if any(k["k"] == "versioned" for k in h[0]["kinds"]) and h[1]["how"] == "list"]
    k = max(0, n - len(out))
    out += rng.sample(globs, min(k // 3, len(globs)))
    out += rng.sample(vers, min(k // 3, len(vers)))
    rest = [h for h in rest if h not in out]
    out += rng.sample(rest, min(max(0, n - len(out)), len(rest)))
    return out


# ------------------------------------------------------------------------------------ format / schema
COMMENT_MARK = "c20-comment-marker"
INCLUDE_MARK = "from_include"


def format_doc(doc, strs_classes, rng):
    """(text of IN, {extra file: text}, concrete string values)"""
    extra = {}
    strings = []
    if doc == "unicode":
        kinds = ["mixed", "cjk", "astral", "lf-ml"]
        strings = [draw_string(k, i + 1, rng, strs_classes[i]) for i, k in enumerate(kinds)]
        text = ('MAP\n  NAME "%s"\n  WEB\n    METADATA\n      "wms_title" "%s"\n      "k2" "%s"\n    END\n  END\n'
                '  LAYER\n    NAME "l"\n    TYPE POLYGON\n    DATA "%s"\n    CLASS\n      NAME "%s"\n      STYLE\n        COLOR 1 2 3\n      END\n    END\n  END\nEND\n'
                % (strings[0], strings[1], strings[2], strings[0], strings[3]))
    elif doc == "include":
        extra["inc_layer.map"] = 'LAYER\n  NAME "%s"\n  TYPE POINT\nEND\n' % INCLUDE_MARK
        text = 'MAP\n  NAME "inc"\n  INCLUDE "inc_layer.map"\n  LAYER\n    NAME "own"\n    TYPE LINE\n  END\nEND\n'
    elif doc == "comments":
        text = ('MAP\n  # %s one\n  NAME "com" # %s two\n  LAYER\n    # %s three\n    NAME "l"\n    TYPE POINT\n  END\nEND\n'
                % (COMMENT_MARK, COMMENT_MARK, COMMENT_MARK))
    else:
        text = ('MAP\n  NAME "plain"\n  EXTENT 0 0 10 10\n  SIZE 300 200\n  WEB\n    METADATA\n      "wms_title" "t"\n    END\n  END\n'
                '  PROJECTION\n    "init=epsg:4326"\n  END\n'
                '  LAYER\n    NAME "l1"\n    TYPE POLYGON\n    PROCESSING "BANDS=1"\n    PROCESSING "SCALE=0,255"\n'
                "    CLASS\n      NAME 'c'\n      EXPRESSION ( [a] = 1 )\n      STYLE\n        COLOR 255 0 0\n        WIDTH 1.5\n      END\n    END\n  END\nEND\n")
    return text, extra, strings


CLI_SPACER = {"space": " ", "tab-escaped": "\\t", "tab-literal": "\t"}
CLI_QUOTE = {"double": '"', "single": "'"}
CLI_NL = {"lf-escaped": "\\n", "crlf-escaped": "\\r\\n"}
API_SPACER = {"space": " ", "tab": "\t"}
API_QUOTE = {"double": '"', "single": "'"}
API_NL = {"lf": "\n", "crlf": "\r\n"}


def format_args(a):
    out = []
    if a["indent"] != "default":
        out += ["--indent", a["indent"]]
    if a["spacer"] != "default":
        out += ["--spacer", CLI_SPACER[a["spacer"]]]
    if a["quote"] != "default":
        out += ["--quote", CLI_QUOTE[a["quote"]]]
    if a["nl"] != "default":
        out += ["--newlinechar=" + CLI_NL[a["nl"]]]
    if a["expand"] != "default":
        out.append("--" + a["expand"])
    if a["comments"] != "default":
        out.append("--" + a["comments"])
    return out


def api_lay(lay):
    return {"indent": lay["indent"], "spacer": API_SPACER[lay["spacer"]], "quote": API_QUOTE[lay["quote"]],
            "newlinechar": API_NL[lay["nl"]], "end_comment": lay["ec"], "align_values": lay["av"],
            "separate_complex_types": lay["sc"]}


def api_format(src, dst, call):
    import mappyfile
    d = mappyfile.open(src, expand_includes=call["expand"], include_comments=call["comments"])
    mappyfile.save(d, dst, **api_lay(call["lay"]))


def read_bytes(p):
    try:
        with open(p, "rb") as f:
            return f.read()
    except OSError:
        return None


def format_case(h, root, idx, seed):
    env, act = h[0], h[1]
    post = act["post"]
    target = env["target"]              # what OUT names: another file, IN itself, a symbolic link to IN
    rng = random.Random("%s-f%s" % (seed, idx))
    d = os.path.join(root, "f%05d" % idx)
    os.makedirs(d)
    J = lambda n: os.path.join(d, n)    # noqa: E731
    text, extra, strings = format_doc(env["doc"], post["strs"], rng)
    # in.map: the command's input; apiin.map: the copy the API call works on; orig.map: never written
    for fn, t in list(extra.items()) + [("in.map", text), ("apiin.map", text), ("orig.map", text)]:
        with open(J(fn), "w", encoding="utf-8", newline="") as f:
            f.write(t)
    if env["pre"]:                      # the output replaces an existing, longer file
        for fn in ("out.map", "api.map"):
            with open(J(fn), "w") as f:
                f.write("# older content\n" * 400)
    if target == "symlink":
        os.symlink("in.map", J("out.map"))
        os.symlink("apiin.map", J("api.map"))
    out_name = "in.map" if target == "same" else "out.map"
    api_name = "apiin.map" if target == "same" else "api.map"
    args = ["format", "in.map", out_name] + format_args(act["args"])
    rc, out, err = cli(args, d)
    got = read_bytes(J(out_name))
    finds = []
    case = {"scenario": "format", "hist": h, "args": args, "status": rc, "stderr": err[-800:], "input": text}
    what_cfg = "format in.map %s %s (document %s%s)" % (out_name, " ".join(repr(a) for a in args[3:]), env["doc"],
                                                       ", out.map -> in.map" if target == "symlink" else "")
    try:
        api_format(J("apiin.map"), J(api_name), post["api"])
    except Exception as ex:  # noqa: BLE001     the fixtures are well-formed documents: the API has to read and write them
        shutil.rmtree(d, ignore_errors=True)
        stage = "write|save" if isinstance(ex, (UnicodeError, OSError)) else "read|open"
        return [("C20|%s|raised|%s" % (stage, type(ex).__name__), "save(open(IN), OUT) raised %s on document %r: %s" % (
            type(ex).__name__, env["doc"], str(ex)[:150]), case)], {"rc": rc}
    want = read_bytes(J(api_name))
    in_place_bad = target != "other" and (got != want or read_bytes(J("in.map")) != read_bytes(J("apiin.map")) or rc != post["status"])
    if in_place_bad:
        case["cli_output"] = (got or b"").decode("utf-8", "replace")[:3000]
        case["api_output"] = want.decode("utf-8", "replace")[:3000]
        finds.append(("C20|format|in-place|%s" % target,
                      "%s: exit status %d, IN holds %d bytes; save(open(IN), IN) leaves %d bytes (%s)" % (
                          what_cfg, rc, len(read_bytes(J("in.map")) or b""), len(want), (err.strip().splitlines() or [""])[-1][:120]), case))
    elif rc != post["status"]:
        finds.append(("C20|format|status", "%s: exit status %d; %s" % (what_cfg, rc, err.strip().splitlines()[-1:] or ""), case))
    if target == "other" and read_bytes(J("in.map")) != text.encode("utf-8"):
        finds.append(("C20|format|input-modified", "%s: IN was changed by the command" % what_cfg, case))
    if target == "symlink" and not os.path.islink(J("out.map")):
        case["note"] = "out.map is no longer a symbolic link"      # (not part of the property; recorded only)
    if got != want and not in_place_bad:
        case["cli_output"] = (got or b"").decode("utf-8", "replace")[:3000]
        case["api_output"] = want.decode("utf-8", "replace")[:3000]
        blame = None
        if got is not None:             # which option was not honoured?  revert one at a time on the API side
            for opt, dflt in (("indent", 4), ("spacer", "space"), ("quote", "double"), ("nl", "lf")):
                if post["api"]["lay"][opt] != dflt:
                    call = json.loads(json.dumps(post["api"]))
                    call["lay"][opt] = dflt
                    api_format(J("orig.map"), J("alt.map"), call)
                    if read_bytes(J("alt.map")) == got:
                        blame = opt
            for opt in ("expand", "comments"):
                call = json.loads(json.dumps(post["api"]))
                call[opt] = not call[opt]
                api_format(J("orig.map"), J("alt.map"), call)
                if blame is None and read_bytes(J("alt.map")) == got and got != want:
                    blame = opt
        sig = "C20|format|option-ignored|%s" % blame if blame else "C20|format|differs-from-save-open|%s" % env["doc"]
        finds.append((sig, "%s: OUT differs from save(open(IN, expand_includes=%s, include_comments=%s), OUT, %s)" % (
            what_cfg, post["api"]["expand"], post["api"]["comments"], api_lay(post["api"]["lay"])), case))
    elif got is not None and not in_place_bad:
        # the written text, projected: INCLUDE handling, comments, string values (as the spec says)
        try:
            t = got.decode("utf-8")
        except UnicodeDecodeError:
            t = None
            finds.append(("C20|format|not-utf8", "%s: OUT is not UTF-8" % what_cfg, case))
        if t is not None:
            has_dir = any(ln.strip().upper().startswith("INCLUDE") for ln in t.splitlines())
            inc = "directive" if has_dir else ("inlined" if INCLUDE_MARK in t else "na")
            com = "present" if COMMENT_MARK in t else "absent"
            if (inc, com) != (post["inc"], post["com"]):
                finds.append(("C20|format|include-comments|%s" % env["doc"], "%s: output has include=%s comments=%s, expected %s %s" % (
                    what_cfg, inc, com, post["inc"], post["com"]), case))
            for s in strings:
                if s not in t:
                    finds.append(("C20|format|string-lost|%s" % "-".join(runs(s)), "%s: string value %r not in the output" % (what_cfg, s), case))
    shutil.rmtree(d, ignore_errors=True)
    return finds, {"rc": rc}


def select_format(cfgs, n, rng):
    out = rng.sample(cfgs, min(n, len(cfgs)))
    need = {}
    for h in cfgs:
        for k, v in h[1]["args"].items():
            need.setdefault((k, v), []).append(h)
        need.setdefault(("doc", h[0]["doc"], h[0]["pre"]), []).append(h)
        need.setdefault(("target", h[0]["target"]), []).append(h)

    def covered(key):
        c = 0
        for h in out:
            if key[0] == "doc":
                c += (h[0]["doc"], h[0]["pre"]) == key[1:]
            elif key[0] == "target":
                c += h[0]["target"] == key[1]
            else:
                c += h[1]["args"][key[0]] == key[1]
        return c
    for key in sorted(need, key=str):
        while covered(key) < (4 if key[0] == "target" else 2) and len(need[key]) > covered(key):
            out.append(rng.choice(need[key]))
    return out


def schema_case(h, root, idx, seed):
    from mappyfile.validator import Validator
    env, act = h[0], h[1]
    d = os.path.join(root, "s%05d" % idx)
    os.makedirs(d)
    if env["pre"]:
        with open(os.path.join(d, "schema.json"), "w") as f:
            f.write("x" * 600000)
    args = ["schema", "schema.json"] + ([] if act["version"] == "none" else ["--version", act["version"]])
    rc, out, err = cli(args, d)
    got = read_bytes(os.path.join(d, "schema.json"))
    shutil.rmtree(d, ignore_errors=True)
    v = act["post"]["api"]
    want = json.dumps(Validator().get_versioned_schema(None if v == "none" else VERSIONS[v]), sort_keys=True, indent=4).encode("utf-8")
    case = {"scenario": "schema", "hist": h, "args": args, "status": rc, "stderr": err[-800:]}
    finds = []
    if rc != act["post"]["status"]:
        finds.append(("C20|schema|status", "schema --version %s: exit status %d" % (act["version"], rc), case))
    if got != want:
        finds.append(("C20|schema|differs|%s" % act["version"],
                      "schema %s: the file (%s bytes) differs from json.dumps(Validator().get_versioned_schema(%s), sort_keys=True, indent=4) (%d bytes)"
                      % (" ".join(args[2:]), len(got) if got is not None else None, v, len(want)), case))
    else:
        json.loads(got.decode("utf-8"))
    return finds, {"rc": rc, "bytes": len(want)}


# ------------------------------------------------------------------------------------ api behaviours
def has_strings(hist):
    for a in hist:
        k = a.get("a")
        if k in ("attr", "repeated") and a["val"].get("sh") == "str":
            return True
        if k == "kv" and a["pairs"]:
            return True
        if k == "config":
            return True
        if k == "projection" and not a["auto"]:
            return True
    return False


def leaves(p, path=()):
    """(path, value) of every scalar of a projection, in order"""
    if isinstance(p, tuple) and p and p[0] == "dict":
        out = []
        for k, v in p[2]:
            out += leaves(v, path + (k,))
        return out
    if isinstance(p, list):
        out = []
        for i, v in enumerate(p):
            out += leaves(v, path + (i,))
        return out
    return [(path, p)]


def untranslate_eq(ref, got):
    return isinstance(ref, str) and isinstance(got, str) and "\r" in ref and got == ref.replace("\r\n", "\n").replace("\r", "\n")


def same_length_variant(s):
    """other characters, same classes, same UTF-8 length (ASCII letters change case, other non-ASCII
    characters get their lowest bit flipped where that keeps class and length)"""
    out = []
    for ch in s:
        c2 = ch
        if ch.isascii() and ch.isalpha():
            c2 = ch.swapcase()
        elif ord(ch) >= 0x80:
            c2 = chr(ord(ch) ^ 1)
            if cls(c2) != cls(ch) or len(c2.encode("utf-8")) != len(ch.encode("utf-8")) or 0xD800 <= ord(c2) <= 0xDFFF:
                c2 = ch
        out.append(c2)
    return "".join(out)


def api_case(job):
    """replay one api behaviour of spec/Frontend.tla on one generated document (worker process)"""
    import mappyfile
    j, walk, fe, seed, root = job
    finds = []
    info = {"calls": 0, "skipped": None, "kinds": fe[0]["kinds"], "order_sensitive": False, "one_of_av_sc": False,
            "rewrites": 0, "same_size_rewrites": 0}
    rng = random.Random("%s-a%s" % (seed, j))
    conc = concretise.Concretiser(seed * 1000 + j)
    gen = fe[0]
    ids = list(range(1, len(gen["kinds"]) + 1))
    sval = {i: draw_string(gen["kinds"][i - 1], i, rng, gen["post"]["strs"][i - 1]) for i in ids}
    pool = [None] * len(ids)
    for i in ids:                                   # the renderer's content function: id i -> sval[i]
        pool[(i + conc.salt) % len(ids)] = (sval[i], "")
    conc.strs = pool
    rt = docs.root_type(walk)
    text, _ = concretise.assemble(conc.tokens(concretise.with_root(walk, rt)))
    exp = conc.expected(walk[-1]["post"])
    exp_leaves = leaves(exp)
    by_val = {v: i for i, v in sval.items()}
    present = sorted({by_val[v] for _, v in exp_leaves if isinstance(v, str) and v in by_val})
    d = os.path.join(root, "a%05d" % j)
    os.makedirs(d)
    pt, ps, pd = (os.path.join(d, n) for n in ("t.map", "s.map", "d.map"))
    case = {"scenario": "api", "j": j, "seed": seed, "walk": walk, "hist": fe, "text": text}
    kw = api_lay(gen["lay"])
    state = {"mem": None, "s_ref": None, "ref_s": None, "refs": {}, "by_val": by_val, "kinds": gen["kinds"], "older": {},
             "sval": sval, "how": ""}

    def check_read(op, of, post, fn):
        """a reader must return the dictionary the string API returns for the same characters, with
        every string value in the character classes the spec predicts"""
        info["calls"] += 1
        want_proj, want_leaves = (exp, exp_leaves) if of == "t" else state["ref_s"]
        by_val, kinds, older = state["by_val"], state["kinds"], state["older"]
        where = {"t": "file holding the generated text", "s": "file written by save", "r": "file saved again under the same name"}[of]
        try:
            got_d = fn()
        except Exception as ex:  # noqa: BLE001
            if post["ok"]:
                finds.append(("C20|read|%s|raised|%s" % (op, type(ex).__name__),
                              "%s of the %s raised %s: %s" % (op, where, type(ex).__name__, str(ex)[:100]), case))
            return None
        got = project.project(got_d)
        gl = leaves(got)
        if [p for p, _ in gl] == [p for p, _ in want_leaves]:
            for (p, ev), (_, gv) in zip(want_leaves, gl):
                if isinstance(ev, str) and ev in by_val:
                    i = by_val[ev]
                    want = post["strs"][i - 1]
                    if not isinstance(gv, str) or runs(gv) != want or gv != ev:
                        kind = kinds[i - 1]
                        if "cr" in want and untranslate_eq(ev, gv):
                            sig = "C20|roundtrip|CR-in-string|%s" % op
                            what = ("a string value with a carriage return (%r) comes back as %r through %s (%s); loads keeps it"
                                    % (ev, gv, op, where))
                        elif of == "r" and gv == older.get(i):
                            sig = "C20|read|%s|stale-after-rewrite" % op
                            what = ("%s returns the value the file held before it was saved again: %r, the file now holds %r "
                                    "(revision %d, %s)" % (op, gv, ev, post["rev"], state["how"]))
                        else:
                            sig = "C20|read|%s|%s" % (op, kind)
                            what = "string value %r (classes %s) comes back as %r through %s" % (ev, want, gv, op)
                        finds.append((sig, what, dict(case, path=list(p), expected=ev, got=gv)))
                        return got_d
        df = project.diff(want_proj, got)
        if df:
            finds.append(("C20|read|%s|%s" % (op, df[1]), "%s returns a different dictionary than loads at %s: %s, %s vs %s" % (
                op, list(df[0]), df[1], df[2], df[3]), case))
        return got_d

    def fresh():
        """every writer prints its own copy of the dictionary loads returned (the printer may reorder
        the dictionary it is handed, see Write in spec/Frontend.tla)"""
        return copy.deepcopy(state["mem"])

    def reference(lay):
        """dumps(d, options): the characters the spec attaches to a write with this layout"""
        key = json.dumps(lay, sort_keys=True)
        if key not in state["refs"]:
            state["refs"][key] = mappyfile.dumps(fresh(), **api_lay(lay))
        return state["refs"][key]

    def check_written(op, post, data, is_bytes):
        info["calls"] += 1
        ref = reference(post["lay"])
        if is_bytes:
            try:
                t = data.decode("utf-8")
                enc = "utf8"
            except UnicodeDecodeError:
                t, enc = None, "other"
            if enc != post["enc"]:
                finds.append(("C20|write|%s|not-utf8" % op, "%s wrote bytes that are not UTF-8 (dumps gives %r...)" % (op, ref[:60]), case))
                return
            same = data == ref.encode("utf-8")
        else:
            t = data
            same = data == ref
        if not same:
            finds.append(("C20|write|%s|differs-from-dumps" % op, "%s wrote %r..., dumps returns %r..." % (
                op, _around(t, ref), _around(ref, t)), dict(case, written=t[:2000], dumps=ref[:2000])))
            return
        for i in present:
            if runs(sval[i]) != post["strs"][i - 1] or sval[i] not in t:
                finds.append(("C20|write|%s|string|%s" % (op, gen["kinds"][i - 1]), "%s: string value %r is not in the text verbatim" % (op, sval[i]), case))
                return
        if bool(re.search(r"(?m)^\s*END # \w+", t)) != post["lay"]["ec"]:
            finds.append(("C20|write|%s|end-comment" % op, "%s: closing comments %s, end_comment=%s" % (
                op, "missing" if post["lay"]["ec"] else "present", post["lay"]["ec"]), case))

    try:
        for act in fe:
            a = act["a"]
            if a == "gen":
                with open(pt, "wb") as f:
                    f.write(text.encode("utf-8"))
            elif a == "loads" and act["of"] == "t":
                info["calls"] += 1
                try:
                    mem = mappyfile.loads(text, expand_includes=False)
                except Exception as ex:  # noqa: BLE001
                    info["skipped"] = "loads rejected the document (%s): C02" % type(ex).__name__
                    break
                if project.diff(exp, project.project(mem)):
                    info["skipped"] = "loads differs from the Reader contract: C02"
                    break
                state["mem"] = mem
                try:
                    state["s_ref"] = reference(gen["lay"])
                    # can the formatting options make a difference on this document?  (coverage only)
                    flip = dict(gen["lay"], sc=not gen["lay"]["sc"])
                    info["order_sensitive"] = reference(flip) != state["s_ref"]
                    info["one_of_av_sc"] = gen["lay"]["av"] != gen["lay"]["sc"]
                    back = project.project(mappyfile.loads(state["s_ref"], expand_includes=False))
                    state["ref_s"] = (back, leaves(back))
                    # the string API must itself keep the string values (C01); otherwise not a front-end matter
                    if sorted(v for _, v in state["ref_s"][1] if isinstance(v, str) and v in by_val) != \
                            sorted(v for _, v in exp_leaves if isinstance(v, str) and v in by_val):
                        info["skipped"] = "loads(dumps(d)) loses a string value: C01"
                        break
                except Exception as ex:  # noqa: BLE001
                    info["skipped"] = "dumps/loads raised %s: C01/C03" % type(ex).__name__
                    break
            elif a == "rewrite":
                # the values change, the dictionary is saved to the same path again, at once
                info["calls"] += 1
                prev = state["sval"]
                new = {}
                for i in ids:
                    want = act["post"]["strs"][i - 1]
                    v = same_length_variant(prev[i]) if act["how"] == "same-length" else draw_string(act["kinds"][i - 1], i, rng, want)
                    if v == prev[i]:
                        v = same_length_variant(v)
                    if runs(v) != list(want) or v == prev[i] or (act["how"] == "same-length" and len(v.encode("utf-8")) != len(prev[i].encode("utf-8"))):
                        raise common.MachineryFailure("no %s variant of %r with classes %s (got %r)" % (act["how"], prev[i], want, v))
                    new[i] = v
                for i in ids:
                    pool[(i + conc.salt) % len(ids)] = (new[i], "")
                conc.strs = pool
                text_r, _ = concretise.assemble(conc.tokens(concretise.with_root(walk, rt)))
                exp_r = conc.expected(walk[-1]["post"])
                try:
                    mem = mappyfile.loads(text_r, expand_includes=False)
                    if project.diff(exp_r, project.project(mem)):
                        break                                   # (C02's business)
                    state.update(mem=mem, refs={}, sval=new, older=prev, how=act["how"], kinds=act["kinds"],
                                 by_val={v: i for i, v in new.items()})
                    state["s_ref"] = reference(gen["lay"])
                    back = project.project(mappyfile.loads(state["s_ref"], expand_includes=False))
                    state["ref_s"] = (back, leaves(back))
                    if sorted(v for _, v in state["ref_s"][1] if isinstance(v, str) and v in state["by_val"]) != \
                            sorted(v for _, v in leaves(exp_r) if isinstance(v, str) and v in state["by_val"]):
                        break                                   # (C01's business)
                except Exception:  # noqa: BLE001
                    break
                size_before = os.path.getsize(ps)
                try:
                    mappyfile.save(fresh(), ps, **kw)
                except Exception as ex:  # noqa: BLE001
                    finds.append(("C20|write|save|raised|%s" % type(ex).__name__, "save raised %s: %s" % (type(ex).__name__, str(ex)[:100]), case))
                    break
                if read_bytes(ps) != state["s_ref"].encode("utf-8") or act["post"]["enc"] != "utf8":
                    finds.append(("C20|write|save|differs-from-dumps", "save to a path that already holds an older revision does not leave "
                                  "the characters dumps returns", case))
                    break
                info["rewrites"] += 1
                info["same_size_rewrites"] += os.path.getsize(ps) == size_before
            elif a in ("open", "load", "loadraw", "loads"):
                p = pt if act["of"] == "t" else ps
                if a == "open":
                    check_read(a, act["of"], act["post"], lambda: mappyfile.open(p, expand_includes=False))
                elif a == "loads":          # loads(dumps(d)): the reference of this phase, computed above
                    info["calls"] += 1
                else:
                    def rd(p=p, raw=(a == "loadraw")):
                        with (open(p, encoding="utf-8", newline="") if raw else open(p, encoding="utf-8")) as fp:
                            return mappyfile.load(fp, expand_includes=False)
                    check_read(a, act["of"], act["post"], rd)
            elif a == "dumps":
                check_written(a, act["post"], mappyfile.dumps(fresh(), **kw), False)
            elif a == "dump-sio":
                sio = io.StringIO()
                mappyfile.dump(fresh(), sio, **kw)
                check_written(a, act["post"], sio.getvalue(), False)
            elif a == "save":
                try:
                    ret = mappyfile.save(fresh(), ps, **kw)
                except Exception as ex:  # noqa: BLE001
                    finds.append(("C20|write|save|raised|%s" % type(ex).__name__, "save raised %s: %s" % (type(ex).__name__, str(ex)[:100]), case))
                    break
                if ret != ps:
                    finds.append(("C20|write|save|return-value", "save returned %r, not the file name" % (ret,), case))
                check_written(a, act["post"], read_bytes(ps), True)
            elif a == "dump-file":
                with open(pd, "w", encoding="utf-8", newline="") as fp:
                    mappyfile.dump(fresh(), fp, **kw)
                check_written(a, act["post"], read_bytes(pd), True)
            else:
                raise common.MachineryFailure("unknown action %s" % a)
    finally:
        shutil.rmtree(d, ignore_errors=True)
    info["present"] = [gen["kinds"][i - 1] for i in present]
    return finds, info


def _around(a, b):
    """the part of a around its first difference with b"""
    if a is None:
        return None
    i = 0
    while i < min(len(a), len(b or "")) and a[i] == b[i]:
        i += 1
    return a[max(0, i - 20):i + 20]


# ------------------------------------------------------------------------------------ driver
def split_cli(prints):
    val, fmt, sch = [], [], []
    for h in prints:
        if not isinstance(h, list) or not h:
            continue
        k = h[0].get("a")
        (val if k == "files" else fmt if k == "doc" else sch if k == "schema-env" else []).append(h)
    return val, fmt, sch


_lark_open = None
_lark_cache = {}


def share_grammar(on):
    """Every public open/load/loads call builds a Parser, and every Parser compiles the Lark grammar
    (165 ms, 99% of the call).  With on=True the compiled grammar object returned by Lark.open for the
    plain option set is shared between Parser objects of this worker process; the code under test
    runs unchanged above it.  One behaviour in sixteen runs with on=False."""
    import lark
    global _lark_open
    if _lark_open is None:
        _lark_open = lark.Lark.__dict__["open"]
    if not on:
        lark.Lark.open = _lark_open
        return

    def cached(cls, grammar_filename, rel_to=None, **options):
        if set(options) - {"parser"}:
            return _lark_open.__func__(cls, grammar_filename, rel_to, **options)
        key = (grammar_filename, rel_to, tuple(sorted(options.items())))
        if key not in _lark_cache:
            _lark_cache[key] = _lark_open.__func__(cls, grammar_filename, rel_to, **options)
        return _lark_cache[key]
    lark.Lark.open = classmethod(cached)


def work(item):
    """one unit of replay work (worker process)"""
    kind, payload = item
    if kind == "api":
        share_grammar(payload[0] % 16 != 0)
        try:
            return api_case(payload)
        finally:
            share_grammar(False)
    h, root, idx, seed = payload
    return {"validate": validate_case, "format": format_case, "schema": schema_case}[kind](h, root, idx, seed)


def prepare_fixtures(val):
    """verify every kind of validate fixture once, before the workers are forked"""
    seen = set()
    for h in val:
        for kind, nerr in zip(h[0]["kinds"], h[0]["nerr"]):
            key = (kind["k"], kind["n"], kind.get("root"))
            if key in seen:
                continue
            seen.add(key)
            if kind["k"] == "unparseable":
                for i in range(40):
                    fixture_text(kind, nerr, random.Random(i))
            else:
                fixture_text(kind, nerr, random.Random(0))


def run(tier):
    import time
    ck = common.Check("C20", tier, "model_checking", RULE)
    seed = ck.seed
    quick = tier == "quick"
    rng = random.Random(seed)
    n_api = 200 if quick else 3000
    t0 = time.time()
    vocab.get()
    with ThreadPoolExecutor(1) as side:         # the document walks (spec/Reader.tla) run next to the Frontend runs
        fw = side.submit(docs.walks, int(n_api * 1.6), max_steps=25, step_posts=False, seed=seed + 21, tag="c20_walks",
                         ck=ck, timeout=1800)
        res = run_tlc(ck, quick, seed, n_api)
        walks = fw.result()
    t_tlc = time.time() - t0
    val, fmt, sch = split_cli(res["c20_cli"].prints)
    if len(val) < 5000 or len(fmt) < 1700 or len(sch) != 8:
        raise common.MachineryFailure("TLC emitted %d/%d/%d configurations" % (len(val), len(fmt), len(sch)))
    fes = [h for h in res["c20_api_walks"].prints if isinstance(h, list)]
    if len(fes) < n_api * 0.9:
        raise common.MachineryFailure("TLC emitted %d api behaviours, wanted %d" % (len(fes), n_api))
    walks = [w for w in walks if has_strings(w)][:len(fes)]
    if len(walks) < len(fes) * 0.8:
        raise common.MachineryFailure("only %d generated documents carry string values" % len(walks))
    vsel = select_validate(val, 64, rng) if quick else val
    fsel = select_format(fmt, 24, rng) if quick else fmt
    prepare_fixtures(vsel)
    root = tempfile.mkdtemp(prefix="verif_c20_")
    items = [("api", (j, w, fe, seed, root)) for j, (w, fe) in enumerate(zip(walks, fes))]
    n_docs = len(items)
    items += [("validate", (h, root, i, seed)) for i, h in enumerate(vsel)]
    items += [("format", (h, root, i, seed)) for i, h in enumerate(fsel)]
    items += [("schema", (h, root, i, seed)) for i, h in enumerate(sch)]
    try:
        with ProcessPoolExecutor(WORKERS, mp_context=multiprocessing.get_context("fork")) as ex:
            out = list(ex.map(work, items, chunksize=2))
    finally:
        shutil.rmtree(root, ignore_errors=True)
    t_replay = time.time() - t0 - t_tlc
    skipped = {}
    kinds_seen = set()
    calls = 0
    opt_sensitive = 0
    rewrites = same_size = 0
    def simplest_first(io):             # the first case reported under a signature should be a small one
        (kind, payload), _ = io
        return (0, 0) if kind == "api" else (1, len(payload[0][0].get("kinds", [])))
    for (kind, payload), (finds, info) in sorted(zip(items, out), key=simplest_first):
        if kind == "api":
            if info["skipped"]:
                skipped[info["skipped"]] = skipped.get(info["skipped"], 0) + 1
                continue
            calls += info["calls"]
            kinds_seen.update(info["present"])
            opt_sensitive += bool(info["order_sensitive"] and info["one_of_av_sc"])
            rewrites += info["rewrites"]
            same_size += info["same_size_rewrites"]
            ck.nontrivial([payload[1][:-1], payload[2][0]])
        else:
            ck.nontrivial(payload[0])
        ck.count()
        for sig, what, case in finds:
            ck.violation(sig, what, case)
    if sum(skipped.values()) > 0.2 * n_docs:
        raise common.MachineryFailure("too many generated documents skipped: %s" % skipped)
    for k, n in skipped.items():
        ck.notes.append("%d generated documents left to other properties: %s" % (n, k))
    if opt_sensitive < 5:
        raise common.MachineryFailure("only %d documents on which separate_complex_types / align_values can tell writers apart" % opt_sensitive)
    if same_size < 20:
        raise common.MachineryFailure("only %d saves to an already opened path that kept the size of the file" % same_size)
    missing = set(POOL) - kinds_seen
    if missing and not quick:
        raise common.MachineryFailure("string kinds never exercised: %s" % sorted(missing))
    if len({info["bytes"] for (kind, _), (_, info) in zip(items, out) if kind == "schema"}) < 3:
        raise common.MachineryFailure("exported schemas do not depend on the version")
    ck.sample({"api_behaviour": [a["a"] + ("/" + a["of"] if "of" in a else "") for a in fes[0]], "kinds": fes[0][0]["kinds"],
               "layout": fes[0][0]["lay"]})
    ck.sample({"validate": vsel[0]})
    ck.sample({"format": fsel[0]})
    ck.notes.append("wall: TLC (Frontend runs and document walks side by side) %.1fs, replay %.1fs" % (t_tlc, t_replay))
    ck.notes.append("the compiled Lark grammar is shared between the Parser objects the public functions build in 15 of 16 "
                    "api behaviours (see share_grammar); the command-line subprocesses and the format comparison run unshared")
    labels = {}
    for h in vsel:
        labels[validate_label(h)] = labels.get(validate_label(h), 0) + 1
    return ck.finish(exhaustive=False, coverage_extra={
        "validate_configurations": len(vsel), "validate_configurations_in_model": len(val), "validate_classes": labels,
        "format_configurations": len(fsel), "format_configurations_in_model": len(fmt),
        "schema_configurations": len(sch), "api_documents": n_docs - sum(skipped.values()), "api_calls": calls,
        "string_kinds_exercised": sorted(kinds_seen),
        "documents_where_one_of_align_separate_changes_the_text": opt_sensitive,
        "saves_to_a_path_opened_before": rewrites, "of_which_keep_the_file_size": same_size,
        "format_in_place_configurations": sum(1 for h in fsel if h[0]["target"] != "other"), "negative_models_rejected": [n for n, _, _ in NEGATIVES]})


def replay(path):
    """re-run the configuration / behaviour stored in a replay file"""
    with open(path) as f:
        rp = json.load(f)
    case = rp["case"]
    root = tempfile.mkdtemp(prefix="verif_c20_replay_")
    try:
        sc = case["scenario"]
        if sc == "api":
            finds, _ = api_case((case["j"], case["walk"], case["hist"], case["seed"], root))
        else:
            fn = {"validate": validate_case, "format": format_case, "schema": schema_case}[sc]
            finds, _ = fn(case["hist"], root, 0, rp.get("seed", 0))
    finally:
        shutil.rmtree(root, ignore_errors=True)
    hit = [f for f in finds if f[0] == rp["signature"]]
    finds = list({f[0]: f for f in reversed(finds)}.values())
    for sig, what, _ in finds:
        print("%s property=C20 replay=%s  # %s :: %s" % ("VIOLATION" if sig == rp["signature"] else "ALSO", path, sig, what))
    if not hit:
        print("C20 replay: %s not reproduced" % rp["signature"])
    return 1 if hit else 0
