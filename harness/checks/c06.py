"""C06 - formatting options never change content.

(M) TLC enumerates the full option cross product (spec/Options.tla; 720 sets in scope: a space as
    newlinechar only without END comments).
(T) verdict: each option set is applied to generated documents and corpus files; spec/TraceOptions.tla
    compares the typed projection of loads(dumps(d, options)) with that of loads(dumps(d)) and, under
    separate_complex_types, checks object by object that the key order is the stable partition
    (simple keys, then block-valued keys) of the default order.
"""
from __future__ import annotations
import copy
from .. import common, optrun, tracecheck, impl, project

RULE = ("project(loads(dumps(d, options))) == project(loads(dumps(d))) up to the stable partition allowed for "
        "separate_complex_types, decided by spec/TraceOptions.tla; distinct = (document, option set)")


def hash_of(s):
    import zlib
    return zlib.crc32(s.encode())


def run(tier):
    ck = common.Check("C06", tier, "model_checking", RULE)
    quick = tier == "quick"
    seed = ck.seed
    sets = optrun.option_sets(ck)
    docs_ = optrun.documents(40 if quick else 80, seed + 6, ck, corpus_n=15 if quick else 10**6, tag="c06docs", special_slots=True)
    cover = optrun.pairwise_cover(sets, seed, extra=8)
    loads = impl.loader(expand_includes=False)
    records, meta = [], {}
    for tid, text, d in docs_:
        is_corpus = tid.startswith("corpus")
        if is_corpus and optrun.has_quote_in_strings(d):
            continue                    # quote option only for documents without quote characters in strings
        try:
            base = loads(impl.PrettyPrinter().pprint(d))
        except Exception:  # noqa: BLE001
            continue                    # C01's business
        use = cover if (quick or is_corpus) else sets
        if tid.startswith("slot:"):
            use = cover[:8] if quick else cover
        if tid.startswith("slotc:"):
            sct = [o for o in cover if o["separate_complex_types"] and o["nl"] != "SP"]
            use = [sct[hash_of(tid) % len(sct)]] + ([] if quick else sct[:6])
        for oi, o in enumerate(use):
            itn = tracecheck.Interner()
            rec = {"tid": "%s|%d" % (tid, oi), "what": "options", "opts": o, "dflt": itn.value(project.project(base))}
            ck.count()
            try:
                out = impl.fresh_dumps(copy.deepcopy(d), **optrun.kwargs(o))
                rec["opt"] = itn.value(project.project(loads(out)))
                rec["accepted"] = True
            except Exception as ex:  # noqa: BLE001
                rec["opt"] = {"t": "none"}
                rec["accepted"] = False
                rec["err"] = "%s: %s" % (type(ex).__name__, str(ex)[:100])
                out = None
            records.append(rec)
            meta[rec["tid"]] = (text, o, out)
            ck.nontrivial(rec["tid"])
    def canary(r):
        o = r.get("opt")
        if not r.get("accepted") or o.get("t") != "dict" or len(o["items"]) < 2 or r["opts"]["separate_complex_types"]:
            return None
        o["items"][0], o["items"][1] = o["items"][1], o["items"][0]
        return r
    verdicts = tracecheck.validate("TraceOptions", records, "c06", ck=ck, chunk=500, canary=canary)
    for rid, v in verdicts.items():
        if v["verdict"] != "ok":
            text, o, out = meta[rid]
            diffs = ",".join("%s=%s" % (k, o[k]) for k in ("nl", "quote", "spacer") if o[k] not in ("LF", "DQ", "SP"))
            flags = ",".join(k for k in ("end_comment", "align_values", "separate_complex_types") if o[k])
            if v["verdict"].startswith("not-a-stable-partition"):
                diffs, flags = "", "separate_complex_types"
            ck.violation("C06|%s|%s|%s" % (v["verdict"], diffs, flags), "options change content: %s under %s" % (v["verdict"], o),
                         {"text": text if len(text) < 5000 else rid, "opts": o, "printed": (out or "")[:3000]})
    ck.sample({"tid": records[0]["tid"], "opts": records[0]["opts"]})
    return ck.finish(coverage_extra={"option_sets_enumerated": len(sets), "option_sets_used": len(cover) if quick else len(sets),
                                     "documents": len(docs_), "traces_validated_against_impl": len(verdicts)})
