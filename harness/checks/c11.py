"""C11 - any input is either parsed or rejected with a parse error, promptly.

(M) TLC checks spec/ParseLoop.tla: over every token soup of <= 3 classes (35-class alphabet) the
    retyping function is sound (RetypeSound, PrevIsLast) and Loads ends in "ok" or "larkerror"
    only (Contract), "ok" for the minimal document of every block type (MinimalAccepted).  Three
    broken variants of the spec (Loads may end in "other"; retyping a symbol attribute; retyping
    without a predecessor) must be rejected by TLC, else the run is a machinery failure.
(G) verdict: TLC emits
      - every soup of <= L classes (L = 3 quick, 4 thorough) at the bare root and after each
        root-opener class - the concrete root type rotates over all 19 block types, SYMBOLSET and
        the 4 key/value blocks - and (thorough) every soup of <= 5 classes over a 16-class core;
      - random soups of 8..64 classes (simulation);
      - the minimal document of each block type (19 + SYMBOLSET) with allowed = {"ok"};
      - class-level mutation behaviours: Delete / Duplicate / Swap / Truncate / Splice / Break
        (= unterminated string, regex, comment) of 12 canonical documents, every single mutation
        (quick) / every pair (thorough), and random triples;
      - index-level mutation behaviours over a 16-token window with a donor window, which the
        harness applies to the corpus (/repo/tests, /repo/docs, *.map, split by a simple
        tokeniser) and to documents generated from spec/Reader.tla (harness/docs.walks);
    every class gets a concrete lexeme (seeded), the text goes through the real parser +
    transformer (one Parser per worker process; default options, kept comments, positions; the
    public mappyfile.loads on a sample) and the outcome class must be one the spec allows:
    a dict / list of dicts or a LarkError, syntax errors with a usable line and column.
    INCLUDE expansion is kept out with expand_includes=False (C15 covers it).
(T) the iter_parse seam (harness/parseloop.py, installed at run time) records per token the
    terminal before/after the loop body and the value-stack top; spec/TraceParseLoop.tla replays
    the records through the spec's Retype/After and judges the recorded outcome with OutcomeOK.
    Mechanism disagreement is MECHANISM-DRIFT only; OutcomeOK must agree with the harness
    classifier on every sampled outcome (else machinery failure).
Timing clause: measured (CPU time per call over a x100 length range), not decided by the model -
see the evidence notes.
"""
from __future__ import annotations
import gc
import glob
import json
import multiprocessing
import os
import random
import time
from concurrent.futures import ThreadPoolExecutor

from .. import common, tlc, vocab, docs, concretise
from .. import parseloop as pl

RULE = ("outcome(loads(text)) in Allowed(tokens) from spec/ParseLoop.tla: a dict / list of dicts, or a "
        "lark.exceptions.LarkError (syntax errors with 1 <= line <= lines+1, column >= 1); the minimal document of "
        "each of the 19 block types (+SYMBOLSET) must be accepted; time within 20x of linear over a x100 length range (measured)")

CLASSES = ["OPN", "SYM", "STY", "GRD", "FEA", "END", "WRD", "SAT", "NAM", "NRM", "IMG", "STR", "INT", "FLT", "HEX", "REX", "BOO",
           "LSQ", "RSQ", "LPA", "RPA", "LBR", "RBR", "COM", "OP", "NOT", "KVO", "PRJ", "PTS", "CFG", "SET", "AUT",
           "CMT", "JNK", "USTR", "UREX", "UCMT"]
# the classes the loop / grammar distinguish most; used for the deeper exhaustive run (thorough)
CORE = ["OPN", "SYM", "STY", "GRD", "FEA", "END", "WRD", "NAM", "NRM", "IMG", "STR", "INT", "LPA", "PTS", "KVO", "JNK"]
ROOT_CLASSES = ["OPN", "SYM", "STY", "GRD", "SET", "KVO"]
WINDOW = 16
INVS = ["TypeOK", "Contract", "MinimalAccepted", "PrevIsLast", "RetypeSound"]


def consts(**kw):
    c = dict(Mode="soup", MaxLen=3, Roots={"-"}, Alphabet=set(CLASSES), N=WINDOW, MaxMut=1, Variant="spec")
    c.update(kw)
    return c


def tlc_run(tag, invariants, mode="check", workers=1, timeout=1800, **kw):
    c = kw.pop("c", {})
    cfg = tlc.cfg_text(constants=consts(**c), invariants=invariants)
    return tag, tlc.run("ParseLoop", cfg, tag="c11_" + tag, workers=workers, mode=mode, timeout=timeout, heap="6g", **kw)


def split_prints(r):
    """-> (header, list of behaviours)"""
    hdr = None
    out = []
    for p in r.prints:
        if isinstance(p, dict) and p.get("hdr") == "ParseLoop":
            hdr = p
        elif isinstance(p, list):
            out.append(" ".join(p))        # compact (millions of soups are kept for the forked workers)
        elif isinstance(p, dict):
            out.append(p)
    return hdr, out


def load_corpus(quick, seed):
    files = sorted(glob.glob(os.path.join(common.REPO, "tests", "**", "*.map"), recursive=True) +
                   glob.glob(os.path.join(common.REPO, "docs", "**", "*.map"), recursive=True))
    out = []
    for f in files:
        try:
            with open(f, encoding="utf-8") as fh:
                text = fh.read()
        except (OSError, UnicodeDecodeError):
            continue
        if quick and len(text) > 12000:
            continue
        toks, trailing = pl.tokenise(text)
        if len(toks) >= WINDOW:
            out.append((os.path.relpath(f, common.REPO), toks, trailing))
    return out


def walk_docs(ck, n, seed):
    hs = docs.walks(n, max_steps=30, step_posts=False, seed=seed + 11, tag="c11_walks", ck=ck)
    out = []
    for j, h in enumerate(hs):
        conc = concretise.Concretiser(seed * 1000 + j)
        toks = conc.tokens(concretise.with_root(h, docs.root_type(h)))
        text, _ = concretise.assemble(toks)
        tk, trailing = pl.tokenise(text)
        if len(tk) >= WINDOW:
            out.append(("walk:%d" % j, tk, trailing))
    return out


CANARIES = [
    # (events, outcome, expected drift, expected contract)
    ([{"ev": "tok", "before": "SYMBOL", "after": "SYMBOL", "v": "SYMBOL", "lv": "symbol", "top": {"k": "none", "ty": "", "v": ""}},
      {"ev": "tok", "before": "UNQUOTED_STRING", "after": "UNQUOTED_STRING", "v": "circle", "lv": "circle",
       "top": {"k": "tok", "ty": "SYMBOL", "v": "SYMBOL"}}],
     {"ev": "out", "kind": "larkerror", "stage": "parse", "haspos": True, "line": 1, "col": 8, "nlines": 1, "isdict": False, "hasexp": False, "eline": 0, "ecol": 0},
     "retype", "ok"),
    ([{"ev": "tok", "before": "GRID", "after": "GRID", "v": "GRID", "lv": "grid", "top": {"k": "tok", "ty": "MAP", "v": "MAP"}}],
     {"ev": "out", "kind": "other", "stage": "parse", "haspos": False, "line": 0, "col": 0, "nlines": 1, "isdict": False, "hasexp": False, "eline": 0, "ecol": 0},
     "top", "kind"),
    ([{"ev": "tok", "before": "MAP", "after": "MAP", "v": "MAP", "lv": "map", "top": {"k": "none", "ty": "", "v": ""}}],
     {"ev": "out", "kind": "larkerror", "stage": "parse", "haspos": False, "line": 0, "col": 0, "nlines": 1, "isdict": False, "hasexp": False, "eline": 0, "ecol": 0},
     "", "position"),
    ([{"ev": "tok", "before": "MAP", "after": "MAP", "v": "MAP", "lv": "map", "top": {"k": "none", "ty": "", "v": ""}},
      {"ev": "tok", "before": "_END", "after": "_END", "v": "END", "lv": "end", "top": {"k": "tok", "ty": "MAP", "v": "MAP"}}],
     {"ev": "out", "kind": "larkerror", "stage": "parse", "haspos": True, "line": 5, "col": 1, "nlines": 2, "isdict": False, "hasexp": False, "eline": 0, "ecol": 0},
     "", "position"),
    ([], {"ev": "out", "kind": "larkerror", "stage": "transform", "haspos": False, "line": 0, "col": 0, "nlines": 2, "isdict": False, "hasexp": False, "eline": 0, "ecol": 0},
     "", "ok"),
    ([], {"ev": "out", "kind": "larkerror", "stage": "parse", "haspos": True, "line": 2, "col": 3, "nlines": 9, "isdict": False,
          "hasexp": True, "eline": 4, "ecol": 3}, "", "exact-position"),
    ([], {"ev": "out", "kind": "larkerror", "stage": "parse", "haspos": True, "line": 4, "col": 3, "nlines": 9, "isdict": False,
          "hasexp": True, "eline": 4, "ecol": 3}, "", "ok"),
    ([], {"ev": "time", "n0": 100, "t0us": 5000, "n1": 10000, "t1us": 10000100}, "", "time"),
    ([], {"ev": "time", "n0": 100, "t0us": 5000, "n1": 10000, "t1us": 9999999}, "", "ok"),
    ([], {"ev": "time", "n0": 100, "t0us": 100, "n1": 10000, "t1us": 900000}, "", "ok"),
    ([{"ev": "tok", "before": "MAP", "after": "MAP", "v": "MAP", "lv": "map", "top": {"k": "none", "ty": "", "v": ""}},
      {"ev": "tok", "before": "_END", "after": "_END", "v": "END", "lv": "end", "top": {"k": "tok", "ty": "MAP", "v": "MAP"}}],
     {"ev": "out", "kind": "ok", "stage": "none", "haspos": False, "line": 0, "col": 0, "nlines": 1, "isdict": True, "hasexp": False, "eline": 0, "ecol": 0},
     "", "ok"),
]


def validate_traces(ck, traces, times=(), tag="c11_trace"):
    """traces: list of (events, outcome, python signature or None, text, opt); times: list of "time"
    records.  -> (list of verdict dicts for the traces, list of verdict dicts for the time records)"""
    path = os.path.join(tlc.BUILD, "c11_traces.ndjson")
    ncan = len(CANARIES)
    with open(path, "w") as f:
        tid = 0
        for (evs, out, _d, _c) in CANARIES:
            tid += 1
            for e in evs:
                f.write(json.dumps(dict(e, tid=tid)) + "\n")
            f.write(json.dumps(dict(out, tid=tid)) + "\n")
        for (evs, out, _sig, _text, _opt) in traces:
            tid += 1
            for e in evs:
                f.write(json.dumps(dict(e, tid=tid)) + "\n")
            f.write(json.dumps(dict(out, tid=tid)) + "\n")
        for rec in times:
            tid += 1
            f.write(json.dumps(dict(rec, tid=tid)) + "\n")
        f.write(json.dumps({"tid": tid + 1, "ev": "eof"}) + "\n")
    cfg = tlc.cfg_text(constants=consts(), init="TraceInit", next_="TraceNext", postcondition="Consumed")
    r = tlc.run("TraceParseLoop", cfg, tag=tag, workers=1, timeout=1800, env={"TRACE_FILE": path}, heap="6g")
    ck.add_tlc("trace_validation", r)
    if r.violated:
        raise common.MachineryFailure("trace file not consumed by TraceParseLoop (%s)" % r.violated)
    vs = {p["tid"]: p for p in r.prints if isinstance(p, dict) and "tid" in p and "drift" in p}
    if len(vs) != ncan + len(traces) + len(times):
        raise common.MachineryFailure("TraceParseLoop gave %d verdicts for %d traces" % (len(vs), ncan + len(traces) + len(times)))
    for i, (_e, _o, d, c) in enumerate(CANARIES):
        v = vs[i + 1]
        if v["drift"] != d or v["contract"] != c:
            raise common.MachineryFailure("trace canary %d judged %s/%s, expected %s/%s" % (i, v["drift"], v["contract"], d, c))
    return ([vs[ncan + 1 + i] for i in range(len(traces))],
            [vs[ncan + len(traces) + 1 + i] for i in range(len(times))])


def time_record(ck, res, hdr, cover):
    """one measured shape -> the "time" record TimeOK (spec/ParseLoop.tla) judges, + evidence entry"""
    name = res["name"]
    pts = res["points"]
    (n0, c0, t0, w0, k0) = pts[0]
    (n1, c1, t1, w1, k1) = pts[-1]
    rec = {"ev": "time", "n0": int(n0), "t0us": max(100, int(t0 * 1e6)), "n1": int(n1), "t1us": min(int(t1 * 1e6), 2000000000)}
    ratio = (rec["t1us"] / float(n1 // n0)) / rec["t0us"]
    cover[name] = {"points": [[n, c, round(t, 5), round(w, 5), k] for (n, c, t, w, k) in pts],
                   "columns": ["tokens_or_units", "chars", "cpu_s", "wall_s", "outcome"],
                   "ratio_vs_linear": round(ratio, 2), "killed": res["killed"]}
    ck.count(len(pts))
    for (n, c, t, w, k) in pts:
        if k.startswith("other:"):
            ck.violation("C11|exc|%s|long=%s" % (k[6:], name), "%s escaped on the long input %s (%d tokens)" % (k[6:], name, n),
                         {"shape": name, "tokens": n})
    mirror = rec["t1us"] > hdr["timefloorus"] and rec["t1us"] // (n1 // n0) > hdr["timefactor"] * rec["t0us"]
    return rec, mirror


def time_verdict(ck, res, rec, mirror, vd, cover):
    name = res["name"]
    bad = vd["contract"] != "ok"
    if bad != mirror:
        raise common.MachineryFailure("TimeOK (TLC) and the harness disagree on %r: %s vs %s" % (rec, vd["contract"], mirror))
    if bad:
        pts = res["points"]
        ck.violation("C11|time|%s" % name,
                     "super-linear time on the repetitive input %r: %d tokens/units %.4fs, %d tokens/units %s%.1fs CPU = %s%.0fx the linear extrapolation"
                     % (name, pts[0][0], pts[0][2], pts[-1][0], ">" if res["killed"] else "", pts[-1][2],
                        ">" if res["killed"] else "", cover[name]["ratio_vs_linear"]),
                     {"shape": name, "sizes": [p[0] for p in pts], "points": cover[name]["points"]})


class _Count:
    """stands in for Check.distinct (only its length is used): millions of behaviours are counted, not hashed"""

    def __init__(self, n):
        self.n = n

    def __len__(self):
        return self.n

    def add(self, _x):
        pass


def run(tier):
    ck = common.Check("C11", tier, "model_checking", RULE)
    seed = ck.seed
    quick = tier == "quick"
    v = vocab.get()
    symattrs = [w.lower() for w in v["tokens"]["symbol_attributes"]]
    t_start = time.time()

    # ------------------------------------------------------------------ timing clause: started first, runs alongside
    ctx = multiprocessing.get_context("fork")
    tpool = ctx.Pool(3, initializer=pl.worker_init)
    shapes = pl.long_shapes()
    tsizes = [100, 1000, 10000] if quick else [1000, 10000, 100000]
    factor = 20.0
    order = ["regex-leading-star"] + [s for s in shapes if s != "regex-leading-star"]
    tasync = tpool.imap_unordered(pl.time_shape, [(s, tsizes, 3, factor) for s in order])

    # ------------------------------------------------------------------ TLC: model + behaviours
    L = 3 if quick else 4
    jobs = []
    jobs.append(("model", INVS, dict(workers=4, c=dict(Mode="model", MaxLen=3))))
    for vname, inv in (("neg_other", "Contract"), ("neg_symattr", "RetypeSound"), ("neg_first", "RetypeSound")):
        jobs.append((vname, INVS, dict(workers=2, c=dict(Mode="model", MaxLen=2, Variant=vname))))
    jobs.append(("soup_bare", ["EmitSoup"], dict(c=dict(MaxLen=L))))
    # after a root opener: every class-level root; the concrete block type rotates over all 19 (+4 kv)
    # (the openers the loop treats specially go one class deeper than the generic opener in thorough)
    jobs.append(("soup_blocks", ["EmitSoup"], dict(c=dict(MaxLen=L, Roots={"SYM", "STY"}))))
    jobs.append(("soup_blocks2", ["EmitSoup"], dict(c=dict(MaxLen=L, Roots={"GRD"}))))
    jobs.append(("soup_opn", ["EmitSoup"], dict(c=dict(MaxLen=2 if quick else 3, Roots={"OPN"}))))
    jobs.append(("soup_other", ["EmitSoup"], dict(c=dict(MaxLen=2 if quick else 3, Roots={"SET", "KVO"}))))
    if not quick:
        jobs.append(("soup_core5", ["EmitSoup"], dict(c=dict(MaxLen=5, Alphabet=set(CORE)))))
    jobs.append(("min", ["EmitMin", "Contract", "MinimalAccepted"], dict(c=dict(Mode="min"))))
    # single lexemes: delimiter x filler unit x closed/unterminated x context x length (exhaustive product)
    jobs.append(("lex", ["EmitLex", "Contract"], dict(c=dict(Mode="lex"))))
    jobs.append(("lextime", ["EmitLex", "Contract"], dict(c=dict(Mode="lextime"))))
    # behaviours with a determinate first offending token: junk inserted anywhere / one END too many
    jobs.append(("pos", ["EmitPos", "TypeOK", "RetypeSound"], dict(c=dict(Mode="pos"))))
    jobs.append(("posw", ["EmitPos", "TypeOK"], dict(c=dict(Mode="posw"))))
    jobs.append(("mut", ["EmitMut", "TypeOK", "PrevIsLast", "RetypeSound"], dict(c=dict(Mode="mut", MaxMut=1 if quick else 2))))
    nsim = 3000 if quick else 40000
    jobs.append(("mutsim", ["EmitMutDone", "TypeOK"],
                 dict(mode="simulate", simulate="num=%d" % nsim, depth=6, seed=seed + 1, c=dict(Mode="mutsim", MaxMut=3))))
    # index-level behaviours with 1, 2 and 3 mutations (every prefix of a simulated behaviour is emitted)
    nwin = 12000 if quick else 110000
    jobs.append(("mutw", ["EmitMut", "TypeOK"],
                 dict(mode="simulate", simulate="num=%d" % (nwin // 3), depth=6, seed=seed + 10, c=dict(Mode="mutw", MaxMut=3))))
    nlong = 7000 if quick else 70000       # random soups of 8, 16, 32 and 64 classes
    jobs.append(("sim", ["EmitSim", "TypeOK", "RetypeSound"],
                 dict(mode="simulate", simulate="num=%d" % nlong, depth=70, seed=seed + 2, c=dict(Mode="sim", MaxLen=64))))

    results = {}
    with ThreadPoolExecutor(max_workers=8 if quick else 6) as ex:
        futs = [ex.submit(tlc_run, tag, inv, **kw) for (tag, inv, kw) in jobs]
        wdocs_f = ex.submit(walk_docs, ck, 150 if quick else 1200, seed)
        corpus = load_corpus(quick, seed)
        for f in futs:
            tag, r = f.result()
            results[tag] = r
            ck.add_tlc(tag, r)
        wdocs = wdocs_f.result()
    t_tlc = time.time() - t_start

    # (M) verdicts of the model itself
    if results["model"].violated:
        ck.violation("C11|model|%s" % results["model"].violated, "ParseLoop invariant violated in the model",
                     {"trace": tlc.error_trace(results["model"])})
    for vname, inv in (("neg_other", "Contract"), ("neg_symattr", "RetypeSound"), ("neg_first", "RetypeSound")):
        if results[vname].violated != inv:
            raise common.MachineryFailure("negative variant %s was not rejected by %s (got %s): the invariants are vacuous"
                                          % (vname, inv, results[vname].violated))
    for tag, r in results.items():
        if tag not in ("neg_other", "neg_symattr", "neg_first", "model") and r.violated:
            raise common.MachineryFailure("ParseLoop invariant %s violated while generating %s" % (r.violated, tag))

    # ------------------------------------------------------------------ data for the workers
    hdr = None
    sizes = {}
    for tag, r in results.items():
        if tag.startswith(("soup_", "min", "mut", "sim", "lex", "pos")):
            h, beh = split_prints(r)
            hdr = hdr or h
            pl.DATA[tag] = beh
            sizes[tag] = len(beh)
            r.prints = []
            r.out = ""
    if not hdr or sorted(hdr["classes"]) != sorted(CLASSES):
        raise common.MachineryFailure("class alphabet of the spec and of the harness differ: %s" % (hdr,))
    expected_soups = sum(len(CLASSES) ** i for i in range(L + 1))
    if sizes["soup_bare"] != expected_soups:
        raise common.MachineryFailure("TLC emitted %d bare-root soups, expected %d" % (sizes["soup_bare"], expected_soups))
    want_roots = set(v["grammar"]["block_types"]) | {"symbolset"}
    if sizes["min"] != len(want_roots) or {b["t"] for b in pl.DATA["min"]} != want_roots:
        raise common.MachineryFailure("expected one minimal document per block type (%d), got %d" % (len(want_roots), sizes["min"]))
    if hdr.get("timefactor") != factor:
        raise common.MachineryFailure("TimeFactor of the spec (%s) and of the harness (%s) differ" % (hdr.get("timefactor"), factor))
    pl.DATA["lex"].sort(key=lambda b: (b["lex"]["d"], b["lex"]["u"], b["lex"]["closed"], b["lex"]["n"], b["lex"]["ctx"]))
    # the lexeme timing shapes join the timing pool now (it has been running the long shapes since the start)
    lsizes = [10, 100, 1000, 10000] if quick else [10, 100, 1000, 10000, 100000]
    rshapes = []
    for a, b in sorted(map(tuple, hdr["retypepairs"])):      # every retyping pair of the spec: dense and many-lines-per-token
        rshapes += ["retype:%s:%s" % (a, b), "retype:%s:%s:sparse" % (a, b)]
    if len(rshapes) < 8:
        raise common.MachineryFailure("the spec lists only %d retyping pairs" % (len(rshapes) // 2))
    tasync2 = tpool.imap_unordered(pl.time_shape, [(r, tsizes, 3, factor) for r in rshapes] +
                                   [(pl.lex_name(dict(b["lex"], ctx="value", n=0)), lsizes, 3, factor) for b in pl.DATA["lextime"]])
    pl.CFG.update(seed=seed, allowed=hdr["allowed"], symattrs=symattrs)
    pl.CORPUS[:] = corpus + wdocs
    rng = random.Random(seed * 7919 + 5)
    ncorp = len(corpus)
    for tag in ("mutw",):
        plan = []
        for i in range(sizes[tag]):
            # two thirds corpus files, one third generated documents
            di = rng.randrange(ncorp) if (i % 3 and ncorp) or not wdocs else ncorp + rng.randrange(len(wdocs))
            dj = rng.randrange(len(pl.CORPUS))
            plan.append((di, rng.randrange(len(pl.CORPUS[di][1]) - WINDOW + 1), dj,
                         rng.randrange(len(pl.CORPUS[dj][1]) - WINDOW + 1)))
        pl.DATA[tag + ":plan"] = plan
    # junk / extra END at determinate places of generated documents (their tokens are known exactly)
    plan = []
    if wdocs:
        for i in range(2500 if quick else 25000):
            di = ncorp + rng.randrange(len(wdocs))
            plan.append((di, rng.randrange(len(pl.CORPUS[di][1]) - WINDOW + 1), rng.randrange(sizes["posw"]), rng.randrange(1 << 30)))
    pl.DATA["posw:plan"] = plan

    # ------------------------------------------------------------------ pools (forked now: workers inherit DATA)
    t_fork = time.time()
    gc.collect()
    gc.freeze()
    pool = ctx.Pool(13, initializer=pl.worker_init)
    work = []
    total_soups = sum(n for t, n in sizes.items() if t.startswith("soup_"))
    rec_soups = max(1, total_soups // (3500 if quick else 20000))
    pub_every = 1000 if quick else 4000

    def add(fn, tag, chunk, **kw):
        n = sizes[tag]
        for lo in range(0, n, chunk):
            work.append((fn, dict(kw, tag=tag, lo=lo, hi=min(n, lo + chunk))))

    add(pl.class_batch, "min", 5, rooted=False, texts=6, rec_every=1, pub_every=3, limit=20.0)
    for tag in sizes:
        if tag.startswith("soup_"):
            add(pl.class_batch, tag, 4000, rooted=(tag not in ("soup_bare", "soup_core5")), texts=1, rec_every=rec_soups,
                pub_every=pub_every, limit=20.0)
    add(pl.class_batch, "mut", 2000, rooted=False, texts=2 if quick else 3, rec_every=40, pub_every=pub_every, limit=20.0)
    add(pl.class_batch, "mutsim", 1000, rooted=False, texts=2, rec_every=40, pub_every=pub_every, limit=20.0)
    add(pl.class_batch, "sim", 500, rooted=False, texts=1, rec_every=25, pub_every=pub_every, limit=20.0)
    add(pl.window_batch, "mutw", 150, n=WINDOW, rec_every=60 if quick else 200, limit=60.0)
    add(pl.lex_batch, "lex", 144, limit=3.0)
    add(pl.class_batch, "pos", 20, rooted=False, texts=20 if quick else 120, rec_every=0, pub_every=0, limit=20.0)
    for lo in range(0, len(plan), 250):
        work.append((pl.posw_batch, dict(tag="posw", lo=lo, hi=min(len(plan), lo + 250), n=WINDOW, limit=20.0)))
    # the slow corpus jobs first
    work.sort(key=lambda w: 0 if w[0] is pl.window_batch else 1)
    asyncs = [(fn.__name__, job["tag"], pool.apply_async(fn, (job,))) for (fn, job) in work]

    counts = {}
    traces = []
    roots_ok = set()
    per_origin = {}
    cpu_origin = {}
    sig_seen = {}
    allbad = []
    determinate = 0
    for fname, tag, a in asyncs:
        res = a.get(timeout=3600)
        ck.count(res["n"])
        determinate += res.get("determinate", 0)
        per_origin[tag] = per_origin.get(tag, 0) + res["n"]
        cpu_origin[tag] = round(cpu_origin.get(tag, 0.0) + res["cpu"], 2)
        for k, n in res["counts"].items():
            counts[k] = counts.get(k, 0) + n
        roots_ok |= res["roots_ok"]
        traces += res["traces"]
        allbad += res["bad"]
    # a failure that also happens with the default options is reported once, without the option suffix
    sigs = {b[0] for b in allbad}
    for sig, what, case in allbad:
        if "|opts=" in sig and sig.split("|opts=")[0] in sigs:
            continue
        fam = "|".join(sig.split("|")[:3])
        sig_seen.setdefault(fam, set())
        if sig in sig_seen[fam] or len(sig_seen[fam]) < 12:     # at most 12 contexts per failure family
            sig_seen[fam].add(sig)
            ck.violation(sig, what, case)
    pool.close()
    pool.join()
    t_pool = time.time() - t_fork
    if determinate < 500:
        raise common.MachineryFailure("only %d behaviours with a determinate offending token had a well-formed remainder" % determinate)
    ck.notes.append("exact position: %d rejected inputs whose first unshiftable token is determined by the behaviour (junk inserted into / "
                    "END appended to a well-formed document, multi-line comments and strings in front) - the error must point at it" % determinate)
    for tag, n in sizes.items():
        if not tag.endswith(":plan"):
            ck.nontrivial("%s:%d" % (tag, n))
    # distinct behaviours that reached the parser: exhaustive runs emit each state once, simulated
    # behaviours are deduplicated here
    ndistinct = 0
    for tag, n in sizes.items():
        if tag == "lextime":
            continue
        data = pl.DATA[tag]
        if tag in ("mutsim", "mutw", "sim"):
            n = len({b if isinstance(b, str) else json.dumps([b["s"], b.get("muts")], sort_keys=True) for b in data})
        ndistinct += n
    ck.distinct = _Count(ndistinct)

    # the 19 block types (+SYMBOLSET) as root: must all have been seen accepted
    for t in sorted(want_roots - roots_ok):
        ck.violation("C11|root-rejected|%s" % t, "block type %s was never accepted as the root of a partial Mapfile" % t,
                     {"text": "%s END" % t.upper(), "opt": ""})

    # ------------------------------------------------------------------ timing clause (measured), judged by TimeOK in TLC
    tcover = {}
    t_wait = time.time()
    tres = []
    for res in list(tasync) + list(tasync2):
        rec, mirror = time_record(ck, res, hdr, tcover)
        tres.append((res, rec, mirror))
    tpool.close()
    tpool.join()
    t_waited = time.time() - t_wait

    # ------------------------------------------------------------------ (T) trace validation
    drift_n = 0
    if len(traces) > (9000 if quick else 40000):
        random.Random(seed).shuffle(traces)
        traces = traces[: (9000 if quick else 40000)]
    verdicts, tverdicts = validate_traces(ck, traces, [t[1] for t in tres])
    for (res, rec, mirror), vd in zip(tres, tverdicts):
        time_verdict(ck, res, rec, mirror, vd, tcover)
    if traces:
        agree = 0
        for (evs, out, pysig, text, opt), vd in zip(traces, verdicts):
            py_bad = pysig is not None and not pysig.startswith("C11|root-rejected")
            tlc_bad = vd["contract"] != "ok"
            if py_bad != tlc_bad:
                raise common.MachineryFailure("harness classifier and OutcomeOK disagree on %r: python=%s tlc=%s"
                                              % (out, pysig, vd["contract"]))
            agree += 1
            if vd["drift"]:
                drift_n += 1
                if len(ck.drift) < 20:
                    ck.drift.append({"clause": vd["drift"], "text": text, "opt": opt,
                                     "events": [e for e in evs if e["before"] != e["after"] or e["top"]["ty"] in ("SYMBOL", "STYLE")][:6],
                                     "coincides_with_outcome_violation": tlc_bad})
        ck.notes.append("trace validation: %d traces (%d token events) replayed through Retype/After by TLC, %d with mechanism drift; "
                        "OutcomeOK (TLC) and the harness classifier agreed on all %d sampled outcomes"
                        % (len(traces), sum(len(t[0]) for t in traces), drift_n, agree))
        retyped = sum(1 for t in traces for e in t[0] if e["after"] == "UNQUOTED_STRING_VALUE")
        ck.notes.append("retyping decisions observed in the sampled traces: %d tokens retyped to UNQUOTED_STRING_VALUE" % retyped)
        if drift_n:
            print("MECHANISM-DRIFT property=C11 %d of %d sampled traces disagree with Retype/After of spec/ParseLoop.tla (first: %s)"
                  % (drift_n, len(traces), json.dumps(ck.drift[0])[:300]))
    else:
        ck.notes.append("the iter_parse seam produced no events (seam absent after a refactoring?): only outcomes were judged")

    nlex = sum(1 for k in tcover if k.startswith("lexeme:"))
    ck.notes.append("TIMING: the TLA+ model does not decide the 'time roughly proportional to length' clause; it is measured: "
                    "%d repetitive shapes at %s tokens (expression nesting / operator chains <= 100) and %d single-lexeme shapes "
                    "(delimiter x filler unit x closed/unterminated, LexTimed of the spec) at %s filler units; process CPU time per "
                    "call (wall time also recorded; the host is shared); each (n0, t0, n1, t1) pair is judged by TimeOK of "
                    "spec/ParseLoop.tla in TLC (t1 <= 1 s, or t1/(n1/n0) <= %d x t0); a call is abandoned once it exceeds that bound"
                    % (len(tcover) - nlex, tsizes, nlex, lsizes, int(factor)))
    ck.notes.append("include expansion kept out with expand_includes=False (reused Parser/MapfileToDict per worker; public mappyfile.loads sampled)")
    ck.sample({"outcome_counts": {"%s/%s" % k: n for k, n in sorted(counts.items())}})
    ck.sample({"behaviours": sizes, "evaluations_per_origin": per_origin})
    ck.sample({"timing": {k: tcover[k]["ratio_vs_linear"] for k in sorted(tcover) if not k.startswith("lexeme:")},
               "lexeme_timing_max_ratio": max([tcover[k]["ratio_vs_linear"] for k in tcover if k.startswith("lexeme:")] or [0])})
    return ck.finish(exhaustive=False, coverage_extra={
        "distinct_nontrivial": ndistinct,
        "soup_alphabet": len(CLASSES), "soup_max_len": L, "behaviours_replayed": ndistinct,
        "corpus_files": ncorp, "generated_docs": len(wdocs), "roots_accepted": sorted(roots_ok),
        "traces_tlc_validated": len(traces), "mechanism_drift_traces": drift_n,
        "timing": {k: x for k, x in tcover.items() if not k.startswith("lexeme:") or x["ratio_vs_linear"] > 3 or x["killed"]},
        "lexeme_timing_ratio": {k[7:]: x["ratio_vs_linear"] for k, x in sorted(tcover.items()) if k.startswith("lexeme:")},
        "phase_wall_s": {"tlc": round(t_tlc, 1), "replay_pool": round(t_pool, 1),
                                           "waiting_for_timing": round(t_waited, 1)},
        "replay_cpu_s_per_origin": cpu_origin})


def replay(path):
    with open(path) as f:
        rp = json.load(f)
    case = rp["case"]
    pl.worker_init()
    if "shape" in case:
        sizes = case.get("sizes") or [100, 1000, 10000]
        res = pl.time_shape((case["shape"], sizes, 3, 20.0))
        print(json.dumps(res))
        (n0, _c, t0, _w, _k), (n1, _c1, t1, _w1, _k1) = res["points"][0], res["points"][-1]
        bad = res["killed"] or t1 > 20.0 * t0 * n1 / n0
        print("replay: %s" % ("still super-linear" if bad else "within 20x of linear"))
        return 1 if bad else 0
    v = vocab.get()
    pl.CFG.update(seed=0, allowed=["ok", "larkerror"], symattrs=[w.lower() for w in v["tokens"]["symbol_attributes"]])
    out, ev = pl.classify(case["text"], case.get("opt", ""), True, 60.0)
    allowed = ["ok"] if rp["signature"].startswith("C11|root-rejected") else ["ok", "larkerror"]
    vd = pl.verdict(out, allowed, case.get("opt", ""), root=rp["signature"].split("|")[2] if allowed == ["ok"] else None)
    print("replay outcome: %s" % json.dumps({k: out[k] for k in ("kind", "exc", "line", "col", "nlines", "where", "msg")}))
    if vd:
        print("VIOLATION property=C11 replay=%s  # %s :: %s" % (path, vd[0], vd[1]))
        return 1
    print("replay: no violation")
    return 0
