"""C19 - grammar, keyword tables and schemas describe one vocabulary.

(M) verdict, part 1: spec/VocabRules.tla - TLC evaluates the rules relating the extracted tables (grammar
    block types, tokens.py / parser.py tables, schemas) and emits the offending elements.
(G) verdict, part 2: the finite product block type x (root | each parent context) x keyword slot x value
    alternative x position, enumerated exhaustively by TLC (spec/SlotProbe.tla); every point is rendered with a
    schema-valid representative written the way MapServer writes it and goes through loads, dumps (the
    printer's schema lookup must find the keyword), loads again and validate.  create(type, version) for all
    types x versions must print, re-load and validate apart from missing required keywords; every declared
    default must be valid for its own keyword.
"""
from __future__ import annotations
import copy
import logging
from .. import common, docs, concretise, impl, vocab, tlc, faults, project

RULE = ("all rules of spec/VocabRules.tla hold on the extracted tables; every slot probe (type x parent context x keyword x "
        "alternative x position) loads, prints (keyword found in the schema), re-loads and validates; create() x versions; exhaustive")

VERSIONS = [None, 5.0, 6.0, 7.0, 7.6, 8.0, 8.2, 8.4]


def skeleton_expected(av):
    """keys / nesting of the dict spec/Reader.tla predicts (values abstracted away)"""
    if av["py"] == "dict":
        return ("dict", av["type"], [(k if isinstance(k, str) else "*", skeleton_expected(v)) for k, v in av["items"]])
    if av["py"] == "list" and av["elems"] and av["elems"][0]["py"] == "dict":
        return [skeleton_expected(e) for e in av["elems"]]
    return "leaf"


def skeleton_real(p):
    if isinstance(p, tuple) and p and p[0] == "dict":
        kv = p[1] in ("metadata", "validation", "values", "connectionoptions") or p[1] == ""
        return ("dict", p[1], [("*" if kv else k, skeleton_real(v)) for k, v in p[2]])
    if isinstance(p, list) and p and isinstance(p[0], tuple) and p[0] and p[0][0] == "dict":
        return [skeleton_real(e) for e in p]
    return "leaf"


class LogCatcher(logging.Handler):
    def __init__(self):
        super().__init__()
        self.records = []

    def emit(self, record):
        self.records.append(record.getMessage())


def run(tier):
    ck = common.Check("C19", tier, "model_checking", RULE)
    seed = ck.seed
    v = vocab.get()
    # ---- part 1: rules over the extracted tables, evaluated by TLC
    r = tlc.run("VocabRules", tlc.cfg_text(init="VInit", next_="VNext"), tag="vocabrules")
    ck.add_tlc("vocabrules", r)
    rep = [p for p in r.prints if isinstance(p, dict) and "R1_NoSchema" in p]
    if not rep:
        raise common.MachineryFailure("VocabRules produced no report")
    for rule, offenders in sorted(rep[0].items()):
        ck.count()
        for o in offenders:
            name = ".".join(o[:2]) if isinstance(o, list) else str(o)
            ck.violation("C19|rule|%s|%s" % (rule, name), "vocabulary rule %s violated by %r" % (rule, o), {"rule": rule, "offender": o})
    # ---- part 2: the slot product
    sl = docs.slots(ck=ck)
    loads = impl.loader(expand_includes=False)
    dumps = impl.dumper()
    val = impl.validator()
    ref = faults.Reference()
    mlog = logging.getLogger("mappyfile")
    catcher = LogCatcher()
    catcher.setLevel(logging.ERROR)
    mlog.addHandler(catcher)
    old_level = mlog.level
    mlog.setLevel(logging.ERROR)
    parents = v["parents"]
    singletons = set(v["tokens"]["singleton_composite_names"])
    nctx = 0
    byname = {}
    import mappyfile
    try:
        for h in sl:
            info = h[-1]["info"]
            slot, pos = info["slot"], info["pos"]
            t = slot[0]
            contexts = [None]
            if pos == "alone" or (pos == "first" and slot[2] in ("block", "blocklist", "kv", "points", "projection", "enum")):
                # nested one level: the same probe as the first thing inside every parent that can hold this block type
                contexts += [tuple(p) for p in parents.get(t, [])]
            if slot[2] == "char" and pos == "alone":
                contexts = contexts + ["blank"]        # the same probe with a blank as the character (LABEL WRAP ' ')
            for ctxp in contexts:
                conc = faults.ValidRenderer(seed, avoid_quote="\"")   # strings containing the output quote are outside the guarantee
                ctxp_name = ctxp if isinstance(ctxp, str) else ""
                if ctxp == "blank":
                    conc.chars = [" "]
                    ctxp = None
                acts = concretise.with_root(copy.deepcopy(h), t)
                if t == "layer" and slot[1] != "type":
                    tattr = {"a": "attr", "key": "type", "kc": "U", "val": {"sh": "enum", "w": "point", "cs": "U"}}
                    if pos in ("first", "alone"):
                        # keep the probed keyword the very first thing in the block: the required TYPE goes last
                        k = next((i for i, a in enumerate(acts) if a["a"] == "finish"), len(acts))
                        acts.insert(k, tattr)
                    else:
                        acts.insert(1, tattr)
                root = t
                if ctxp is not None:
                    pt = ctxp[0]
                    # wrap: PARENT <t block> END   (a LAYER parent also needs TYPE)
                    inner = acts
                    inner[0] = {"a": "open", "type": t, "kc": "U"}
                    pre = [{"a": "root", "type": pt, "kc": "U"}]
                    if pt == "layer":
                        pre.append({"a": "attr", "key": "type", "kc": "U", "val": {"sh": "enum", "w": "point", "cs": "U"}})
                    acts = pre + [a for a in inner if a["a"] != "finish"] + [{"a": "end", "kc": "U"}]
                    root = pt
                    nctx += 1
                where = "%s.%s:%s:%s@%s%s" % (slot[0], slot[1], slot[2], slot[3], pos, ("<" + ctxp[0]) if ctxp else "")
                text, _ = concretise.assemble(conc.tokens(acts))
                ck.count()
                ck.nontrivial(where)
                try:
                    d = loads(text)
                except Exception as ex:  # noqa: BLE001
                    ck.violation("C19|parse|%s|%s" % (where, type(ex).__name__), "schema keyword/alternative not parseable here: %s" % str(ex)[:100],
                                 {"text": text})
                    continue
                if ctxp is None and not (t == "layer" and slot[1] != "type"):   # (the inserted TYPE is not part of the predicted dict)
                    # stored where the contract (and every parent schema) says: singleton vs plural list key
                    es, rs = skeleton_expected(h[-1]["post"]), skeleton_real(project.project(d))
                    if es != rs:
                        ck.violation("C19|storage|%s" % where, "stored under different keys / nesting than the schema and the text-to-dict contract say: expected %r got %r" % (es, rs),
                                     {"text": text})
                    elif slot[2] in ("char", "str", "strpat") and ctxp_name == "blank":
                        # the representative must arrive as written (a blank is a value, not padding)
                        dfv = project.diff(conc.expected(h[-1]["post"]), project.project(d))
                        if dfv:
                            ck.violation("C19|parse-value|%s" % where, "the representative is not stored as written: %r" % (dfv,), {"text": text})
                            continue
                del catcher.records[:]
                try:
                    out = dumps(d)
                    d2 = loads(out)
                except Exception as ex:  # noqa: BLE001
                    ck.violation("C19|print-reload|%s|%s" % (where, type(ex).__name__), "printing / re-loading failed: %s" % str(ex)[:100], {"text": text})
                    continue
                notfound = [m for m in catcher.records if "was not found in the JSON schema" in m]
                if notfound:
                    ck.violation("C19|printer-lookup|%s" % where, "the printer's schema lookup does not find the keyword: %s" % notfound[0], {"text": text})
                df = project.diff(project.project(d), project.project(d2))
                if df and df[1] not in ("value",):
                    ck.violation("C19|reload-differs|%s|%s" % (where, df[1]), "re-loaded dict differs structurally: %r" % (df,), {"text": text, "printed": out})
                if ref.errors(d, root):
                    continue        # the representative is not schema-valid (overlapping oneOf alternatives ...): no claim
                try:
                    msgs = val.validate(d, schema_name=root)
                except Exception as ex:  # noqa: BLE001
                    ck.violation("C19|validate-raised|%s|%s" % (where, type(ex).__name__), "validate raised %s" % ex, {"text": text})
                    continue
                if msgs:
                    ck.violation("C19|validate|%s" % where, "a schema-valid representative does not validate: %r" % [m["error"][:80] for m in msgs[:2]], {"text": text})
                    continue
                # the module-level function picks the schema from the root object's type
                try:
                    pub = mappyfile.validate(d)
                except Exception as ex:  # noqa: BLE001
                    ck.violation("C19|validate-raised|module-api|%s|%s" % (root, type(ex).__name__), "mappyfile.validate raised %s" % ex, {"text": text})
                    continue
                if pub:
                    ck.violation("C19|validate|module-api|%s" % root, "mappyfile.validate rejects a schema-valid %s at the root: %r" % (root.upper(), [m["error"][:80] for m in pub[:2]]),
                                 {"text": text})
                if ctxp is None and pos == "alone":
                    byname.setdefault(slot[1], []).append((t, d))
    finally:
        mlog.removeHandler(catcher)
        mlog.setLevel(old_level)
    # ---- one print of several root objects: a keyword that several block types define (differently) is looked up per
    # block type, so dumps([a, b, ...]) is the concatenation of the single prints, in any order
    ngroups = 0
    for kw, group in sorted(byname.items()):
        if len(set(t for t, _ in group)) < 2:
            continue
        ngroups += 1
        for order in (group, group[::-1]):
            ck.count()
            try:
                whole = dumps([d for _, d in order])
                parts = "\n".join(dumps(d) for _, d in order)
            except Exception as ex:  # noqa: BLE001
                ck.violation("C19|printer-lookup|shared-keyword|%s|%s" % (kw, type(ex).__name__), "printing objects of several types in one call raised %s" % ex, {"keyword": kw})
                break
            if whole != parts:
                ck.violation("C19|printer-lookup|shared-keyword|%s" % kw,
                             "keyword %s is printed differently when objects of the types %s are written in one call" % (kw.upper(), sorted(set(t for t, _ in group))),
                             {"keyword": kw, "one_call": whole[:1500], "single_calls": parts[:1500]})
                break
    # ---- the auto-creating dict: reading the storage key of a child block type that is not there yet gives the container
    # the transformer / printer / parent schema use (list under the plural key, dict under the singleton key), and
    # a child appended to that list prints and re-loads like the nested text
    nauto = 0
    for ct, plist in sorted(parents.items()):
        for pinfo in plist:
            pt = pinfo[0]
            if pt == ct and False:
                continue
            ck.count()
            nauto += 1
            key = ct if ct in singletons else faults.plural(ct)
            try:
                base = loads("%s END" % pt.upper())
                got = base[key]
            except Exception as ex:  # noqa: BLE001
                ck.violation("C19|auto-create|%s<%s|%s" % (ct, pt, type(ex).__name__), "reading %s[%r] raised %s" % (pt, key, ex), {})
                continue
            want_list = ct not in singletons
            if isinstance(got, list) != want_list or (not want_list and not hasattr(got, "keys")):
                ck.violation("C19|auto-create|%s<%s" % (ct, pt), "%s[%r] auto-creates a %s; the transformer, printer and schema use a %s there"
                             % (pt, key, type(got).__name__, "list" if want_list else "dict"), {"parent": pt, "key": key})
                continue
            if want_list:
                # an auto-created, still empty list says nothing: the text is that of the untouched object
                try:
                    t_empty = dumps(base)
                    same = not project.diff(project.project(loads(t_empty)), project.project(loads("%s END" % pt.upper())))
                except Exception as ex:  # noqa: BLE001
                    same = False
                if not same:
                    ck.violation("C19|auto-create|%s<%s|empty-list-printed" % (ct, pt), "after reading %s[%r] (an empty list is auto-created) the object no longer prints / re-loads as before"
                                 % (pt, key), {"parent": pt, "key": key})
                    continue
                try:
                    got.append(loads("%s END" % ct.upper()))
                    d_auto = loads(dumps(base))
                    d_text = loads("%s %s END END" % (pt.upper(), ct.upper()))
                except Exception as ex:  # noqa: BLE001
                    ck.violation("C19|auto-create|%s<%s|%s" % (ct, pt, type(ex).__name__), "appending a %s to the auto-created %s[%r] then printing raised %s" % (ct, pt, key, ex), {})
                    continue
                if project.diff(project.project(d_auto), project.project(d_text)):
                    ck.violation("C19|auto-create|%s<%s|differs" % (ct, pt), "a %s appended to the auto-created list re-loads differently from the nested text" % ct, {"parent": pt, "key": key})
    # ---- part 3: defaults and create()
    ncreate = 0
    for t in sorted(v["schema"]["types"]):
        if t == "symbolset":
            continue
        for ver in VERSIONS:
            ck.count()
            ncreate += 1
            try:
                d = mappyfile.create(t, version=ver)
            except Exception as ex:  # noqa: BLE001
                ck.violation("C19|create-raised|%s|%s" % (t, type(ex).__name__), "create(%r, %r) raised %s" % (t, ver, ex), {})
                continue
            try:
                out = dumps(d)
                d2 = loads(out)
            except Exception as ex:  # noqa: BLE001
                ck.violation("C19|create-print|%s|%s" % (t, type(ex).__name__), "create(%r, %r) cannot be printed / re-loaded: %s" % (t, ver, str(ex)[:100]), {"dict": dict(d)})
                continue
            try:
                msgs = val.validate(d, schema_name=t, version=ver)
            except Exception as ex:  # noqa: BLE001
                ck.violation("C19|create-validate-raised|%s|%s" % (t, type(ex).__name__), "validate(create(%r, %r)) raised %s" % (t, ver, ex), {})
                continue
            bad = [m for m in msgs if "is a required property" not in m["error"]]
            for m in bad:
                kw = m["message"].rsplit(" ", 1)[-1].lower()
                ck.violation("C19|default-invalid|%s.%s" % (t, kw), "the declared default of %s.%s is not valid for its own keyword: %s" % (t, kw, m["error"][:100]),
                             {"type": t, "version": ver})
    ck.sample({"probe": sl[3][-1]["info"], "versions": [str(x) for x in VERSIONS]})
    return ck.finish(exhaustive=True, coverage_extra={"rules": len(rep[0]), "slot_probes": len(sl), "parent_context_probes": nctx, "shared_keyword_groups": ngroups, "auto_create_probes": nauto,
                                                       "create_calls": ncreate})
