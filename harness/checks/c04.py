"""C04 - formatting is a deterministic normal form (idempotent).

(T) verdict: for every (document, option set): pass1 = dumps(loads(src), opts), pass2 =
    dumps(loads(pass1), opts); spec/TraceOptions.tla (JudgeIdem) requires equal byte digests, exactly equal
    reloaded projections, the same text when the same dict is dumped again in this process and when
    pass1 is re-formatted in a second interpreter with a different PYTHONHASHSEED.
    TLC cannot hash bytes: digests are computed by the harness and interned; the TLA+ side contributes the
    enumeration of the option space, the clause structure and the structural comparison that localises a failure.
"""
from __future__ import annotations
import copy
from .. import common, optrun, tracecheck, impl, project

RULE = ("dumps(loads(t1), o) == t1 bytewise for t1 = dumps(d, o); loads(t1) == loads(t2); same dict+options -> same text "
        "(same and other process); decided by spec/TraceOptions.tla JudgeIdem; distinct = (document, option set)")


def vocab_slots():
    from .. import vocab
    return [tuple(x[:3]) for x in vocab.slot_shapes(vocab.get())]


def run(tier):
    ck = common.Check("C04", tier, "model_checking", RULE)
    quick = tier == "quick"
    seed = ck.seed
    sets = optrun.option_sets(ck)
    docs_ = optrun.documents(40 if quick else 200, seed + 4, ck, corpus_n=20 if quick else 10**6, tag="c04docs")
    cover = optrun.pairwise_cover(sets, seed, extra=6)
    loads = impl.loader(expand_includes=False)
    # every expression-valued slot with every expression of the pool (canonical parenthesisation is a normal form)
    from .. import docs as _docs, concretise
    sl = _docs.slots(ck=ck)
    # ... and expressions as a user writes them (not yet in the stored normal form): the builders must reach a fixed point
    src_exprs = ['(([a] = 1 AND [b] = 2 OR [c] = 3) AND [d] = 4)', '([a] = 1 OR [b] = 2 AND [c] = 3)', '(NOT [a] = 1 AND [b] = 2)',
                 '(("[name]" = "SALT AND PEPPER" OR [c] = 1) AND [d] = 2)', '(([a] = 1 OR [b] = 2 AND [c] = 3) OR [d] = 4)',
                 '([a] + 1 * 2 > 3 AND ([b] - 1) / 2 < 4)', '(!([a] = 1) && [b] != 2 || [c] >= 3)', '((([a] = 1)))',
                 '(length([n]) > 2 AND tostring([x],"%.1f") = "1.0")', '([a] IN "1,2,3" OR [b] ~ "^x")', '(-[a] + -2 < 0)',
                 '(([a] = 1 AND ([b] = 2 OR ([c] = 3 AND [d] = 4))) OR NOT ([e] = 5))',
                 '(- -5 > [a])', '([a] * - -2.5 > 1)', '(- -2 * [width] < 3)', '([a] > 1e16 AND [b] < 1.5e-07)']
    for e_i, ex in enumerate(list(concretise.EXPR_POOL) + src_exprs):
        conc = concretise.Concretiser(seed, exprs=[ex], avoid_quote="\"'")
        for h in sl:
            info = h[-1]["info"]
            if info["slot"][2] != "expr" or info["pos"] != "middle":
                continue
            text, _ = concretise.assemble(conc.tokens(concretise.with_root(h, _docs.root_type(h))))
            try:
                docs_.append(("expr:%d:%s.%s" % (e_i, info["slot"][0], info["slot"][1]), text, loads(text)))
            except Exception:  # noqa: BLE001
                continue
    # boundary strings in every string-valued slot and in key-value blocks: escaped quotes of either kind and
    # backslashes must neither grow nor shrink when formatted text is formatted again (quote option " and ')
    specials = ['The \\"best\\" roads', "it\\'s here", "..\\symbols\\star.png"]
    multi = {}
    for s_ in vocab_slots():
        multi.setdefault((s_[0], s_[1]), set()).add(s_[2])
    strslots = [h for h in sl if h[-1]["info"]["slot"][2] == "str" and h[-1]["info"]["pos"] == "alone"]
    for k, sp in enumerate(specials):
        concs = concretise.Concretiser(seed, strings=[sp])
        for i, h in enumerate(strslots):
            info = h[-1]["info"]
            if quick and len(multi.get((info["slot"][0], info["slot"][1]), ())) < 2 and (i + seed + k) % 4:
                continue
            text, _ = concretise.assemble(concs.tokens(concretise.with_root(h, _docs.root_type(h))))
            try:
                docs_.append(("special:%d:%s.%s" % (k, info["slot"][0], info["slot"][1]), text, loads(text)))
            except Exception:  # noqa: BLE001
                continue
        q = "'" if '"' in sp else '"'
        for kvt in ("METADATA", "VALIDATION", "CONNECTIONOPTIONS", "VALUES"):
            parent = {"VALUES": "SCALETOKEN", "CONNECTIONOPTIONS": "LAYER"}.get(kvt, "LAYER")
            text = "%s\n  %s\n    %skey_a%s %s%s%s\n    'key_b' 'plain'\n  END\nEND\n" % (parent, kvt, q, q, q, sp, q)
            try:
                docs_.append(("special:%d:kv.%s" % (k, kvt.lower()), text, loads(text)))
            except Exception:  # noqa: BLE001
                continue
    quote_sets = [next(o for o in sets if o["quote"] == qq and o["nl"] == "LF" and not o["separate_complex_types"] and not o["align_values"]
                       and o["indent"] == 4 and not o["end_comment"] and o["spacer"] == "SP") for qq in ("DQ", "SQ")]
    records, meta, other = [], {}, []
    for tid, text, d in docs_:
        is_corpus = tid.startswith("corpus")
        if is_corpus and optrun.has_quote_in_strings(d):
            continue
        use = cover if (quick or is_corpus) else sets[:: 6]
        if tid.startswith("expr:"):
            use = use[:6] if quick else use[:40]
        if tid.startswith("special:"):
            use = quote_sets
        for oi, o in enumerate(use):
            kw = optrun.kwargs(o)
            itn = tracecheck.Interner()
            rec = {"tid": "%s|%d" % (tid, oi), "what": "idem", "opts": o, "digest_other": 0}
            ck.count()
            try:
                t1 = impl.fresh_dumps(copy.deepcopy(d), **kw)
            except Exception:  # noqa: BLE001
                continue          # a document that cannot be formatted at all is C01's and C03's business
            try:
                d1 = loads(t1)
            except Exception as ex:  # noqa: BLE001
                # "for any text t produced by dumps": t must be a Mapfile again (a space as newlinechar joins comments)
                if o["nl"] != "SP":
                    flags = ",".join(k for k in ("end_comment", "align_values", "separate_complex_types") if o[k])
                    ck.violation("C04|formatted-text-rejected|nl=%s|%s" % (o["nl"], flags), "the text dumps produced is not accepted by loads (%s) under %s" % (type(ex).__name__, o),
                                 {"text": text if len(text) < 5000 else tid, "opts": o, "pass1": t1[:3000]})
                continue
            try:
                t2 = impl.fresh_dumps(copy.deepcopy(d1), **kw)
                d2 = loads(t2)
                # "the same dictionary and options always produce the same text": the very same object, dumped twice
                # (separate_complex_types reorders its argument on the first call, which the second call then keeps)
                same = copy.deepcopy(d)
                impl.fresh_dumps(same, **kw)
                t1b = impl.fresh_dumps(same, **kw)
                rec.update(accepted=True, digest1=itn.s(optrun.digest(t1)), digest2=itn.s(optrun.digest(t2)),
                           digest_again=itn.s(optrun.digest(t1b)),
                           proj1=itn.value(project.project(d1)), proj2=itn.value(project.project(d2)))
                # candidates for the second interpreter: option sets that reorder keys first (their result must not depend
                # on hash seeds), documents with several block-valued keys first
                weight = (2 if o["separate_complex_types"] else 0) + (1 if t1.count("END") >= 3 else 0)
                other.append((weight, len(other), rec, itn, t1, kw))
            except Exception as ex:  # noqa: BLE001
                # a document that cannot be formatted / re-read at all is C01's and C06's business
                t1 = t2 = None
                continue
            records.append(rec)
            meta[rec["tid"]] = (text, o, t1, t2)
            ck.nontrivial(rec["tid"])
    # second interpreter, different hash seed: re-format pass1
    other.sort(key=lambda x: (-x[0], x[1]))
    other = other[:(120 if quick else 3000)]
    digs = optrun.other_process([(t1, kw) for (_, _, _, _, t1, kw) in other])
    for (_, _, rec, itn, t1, kw), dg in zip(other, digs):
        rec["digest_other"] = itn.s(dg)
    def canary(r):
        r["digest2"] = r["digest1"] + 1000
        return r
    verdicts = tracecheck.validate("TraceOptions", records, "c04", ck=ck, chunk=500, canary=canary)
    for rid, v in verdicts.items():
        if v["verdict"] != "ok":
            text, o, t1, t2 = meta[rid]
            flags = ",".join(k for k in ("end_comment", "align_values", "separate_complex_types") if o[k])
            ck.violation("C04|%s|nl=%s|%s" % (v["verdict"].split("@")[0], o["nl"], flags),
                         "formatting is not idempotent/deterministic: %s under %s" % (v["verdict"], o),
                         {"text": text if len(text) < 5000 else rid, "opts": o, "pass1": (t1 or "")[:3000], "pass2": (t2 or "")[:3000]})
    ck.sample({"tid": records[0]["tid"], "opts": records[0]["opts"]})
    return ck.finish(coverage_extra={"option_sets_enumerated": len(sets), "documents": len(docs_),
                                     "second_process_cases": len(other), "traces_validated_against_impl": len(verdicts)})
