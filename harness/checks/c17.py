"""C17 - Mapfile dicts behave as case-insensitive, insertion-ordered dicts.

(M) TLC explores spec/DictObj.tla exhaustively up to a history bound and checks KeysLowerUnique,
    HeapClosed, FirstInsertionOrder, CopyLaws (copy shares values, deepcopy/pickle share none, class and
    hook kept), AutoCreation and the refinement Plain!Spec (spec/PlainOD.tla, an ordinary ordered dict
    keyed by the lower-cased keys).
(G) verdict: the same run prints every transition of the reachable graph exactly once
    (ACTION_CONSTRAINT EmitEdge, observation variables hidden by VIEW).  For every transition the
    replayer builds the pre-state on the real class by replaying the operations of a shortest path from the
    empty dict (parents of the BFS), applies the operation and compares result / exception class,
    list(d.items()) with value identities, type and default_factory of copies with what the spec says.
    Random behaviours of depth 40 (TLC -simulate, continuing on copies / constructed dicts) are
    replayed the same way, the state being compared after every action.
"""
from __future__ import annotations
import copy
import hashlib
import json
import os
import pickle
from .. import common, impl, tlc, tlcx, vocab

RULE = ("every transition of the TLC-explored state graph of spec/DictObj.tla (all operation sequences up to the "
        "history bound over 3 keys x case, both default hooks, values 0/1/2/None/[]/{}/[{}]/[[1]]/{k1:[[1],2]}; printed "
        "once each by an ACTION_CONSTRAINT) and "
        "every action of TLC-simulated walks of depth 40: real result/exception class, list(d.items()) with "
        "value identities, class and default_factory of copies == the spec's; spec refines PlainOD")

CLASSES = {"ci": impl.CaseInsensitiveOrderedDict, "dod": impl.DefaultOrderedDict}
KEYS_CI = {"a", "A", "b", "B", "layers", "LAYERS"}
KEYS_DUNDER = {"a", "A", "__type__", "__TYPE__", "layers", "LAYERS"}     # bookkeeping keys are keys like any other
# dictionaries the library itself hands out: (document, path to the dict inside the loaded tree)
ORIGIN_DOCS = {
    "loads:map": ('MAP NAME "m" END', []),
    "loads:layer": ('LAYER NAME "l" TYPE POINT END', []),
    "loads:metadata": ('METADATA "wms_title" "t" END', []),
    "loads:validation": ('VALIDATION "p" "^a$" END', []),
    "loads:map.web.metadata": ('MAP WEB METADATA "wms_title" "t" END END END', ["web", "metadata"]),
    "loads:layer.connectionoptions": ('LAYER CONNECTIONOPTIONS "k" "v" END END', ["connectionoptions"]),
    "loads:layer.class.style": ('LAYER CLASS STYLE WIDTH 1 END END END', ["classes", 0, "styles", 0]),
    "loads:scaletoken.values": ('SCALETOKEN NAME "%x%" VALUES "0" "a" END END', ["values"]),
}
KEYS_DOD = {"a", "b", "layers"}
INVARIANTS = ["KeysLowerUnique", "HeapClosed"]
PROPERTIES = ["FirstInsertionOrder", "CopyLaws", "AutoCreation", "Refines"]


def constants(cls="ci", keys=None, steps=3, pairs=1, setvals=("i1", "i2", "list", "dict", "ldict", "llist", "dll"),
              pairvals=("i1", "list"), factories=("None", "Dict"), adopt=False, mode="graph", bug="none", mixed=False, origins=("ctor",)):
    keys = keys or (KEYS_CI if cls == "ci" else KEYS_DOD)
    nk = len({k.lower() for k in keys})
    return {"Keys": set(keys), "Cls": cls, "MaxId": 6 * nk + 3 * pairs + 4, "MaxSteps": steps, "MaxPairs": pairs,
            "SetVals": set(setvals), "PairVals": set(pairvals), "Factories": set(factories),
            "AdoptSet": "@{FALSE, TRUE}" if adopt else "@{FALSE}", "Mode": mode, "Bug": bug, "Mixed": mixed, "Origins": set(origins)}


def graph_job(tag, **kw):
    cfg = tlc.cfg_text(constants=constants(mode="graph", **kw), invariants=INVARIANTS, properties=PROPERTIES,
                       action_constraints=["EmitEdge"], view="View")
    return dict(module="DictObj", cfg=cfg, tag=tag, workers=1, timeout=3000, heap="3g")


def walk_job(tag, n, depth, seed, **kw):
    cfg = tlc.cfg_text(constants=constants(mode="walk", steps=depth, adopt=True, mixed=True, **kw),
                       invariants=INVARIANTS + ["EmitWalk"], properties=PROPERTIES)
    return dict(module="DictObj", cfg=cfg, tag=tag, workers=1, mode="simulate", simulate="num=%d" % n,
                depth=depth + 1, seed=seed, timeout=3000, heap="2g")


# ----------------------------------------------------------------------------- the real side
class Mismatch(Exception):
    def __init__(self, aspect, detail):
        Exception.__init__(self, detail)
        self.aspect = aspect
        self.detail = detail


class Binding:
    """spec object id <-> Python object (by identity)"""

    def __init__(self):
        self.obj = {}
        self.sid = {}

    def bind(self, i, o):
        self.obj[i] = o
        self.sid[id(o)] = i

    def prune(self, live):
        for i in [i for i in self.obj if i not in live]:
            del self.sid[id(self.obj[i])]
            del self.obj[i]


def heap_of(dense):
    return {i: o for i, o in dense}


def materialise(cls, v, hp, B):
    """argument value handed to the real code: the bound object, or a new one built as the spec describes it"""
    t = v["t"]
    if t == "int":
        return v["n"]
    if t == "none":
        return None
    i = v["n"]
    if i in B.obj:
        return B.obj[i]
    o = hp[i]
    if o["k"] == "list":
        x = [materialise(cls, e, hp, B) for e in o["elems"]]
    elif o["k"] in ("dict", "ci"):                  # the elems of a dict object are stored under k1, k2, ...
        x = {} if o["k"] == "dict" else CLASSES[cls]()
        for j, e in enumerate(o["elems"]):
            x["k%d" % (j + 1)] = materialise(cls, e, hp, B)
    else:
        raise common.MachineryFailure("argument refers to a free heap cell %s" % i)
    B.bind(i, x)
    return x


def compare_value(cls, v, x, hp, B, where):
    t = v["t"]
    if t == "int":
        if type(x) is not int or x != v["n"]:
            raise Mismatch("value", "%s: expected %r got %r" % (where, v["n"], x))
        return
    if t == "none":
        if x is not None:
            raise Mismatch("value", "%s: expected None got %r" % (where, x))
        return
    if t == "bool":
        if x is not bool(v["n"]):
            raise Mismatch("value", "%s: expected %r got %r" % (where, bool(v["n"]), x))
        return
    if t != "ref":
        raise common.MachineryFailure("unknown value tag %r" % t)
    i = v["n"]
    if i in B.obj:
        if B.obj[i] is not x:
            raise Mismatch("identity", "%s: expected the object known as #%d, got %s" % (
                where, i, ("object #%d" % B.sid[id(x)]) if id(x) in B.sid else "another object %r" % (x,)))
        return
    if id(x) in B.sid:
        raise Mismatch("identity", "%s: expected a new object, got the existing object #%d" % (where, B.sid[id(x)]))
    o = hp[i]
    want = {"list": list, "dict": dict, "ci": CLASSES[cls]}.get(o["k"])
    if want is None:
        raise common.MachineryFailure("value refers to a free heap cell %s" % i)
    if type(x) is not want:
        raise Mismatch("value", "%s: expected a %s, got %s %r" % (where, want.__name__, type(x).__name__, x))
    if o["k"] == "ci" and x.default_factory is not None:
        raise Mismatch("value", "%s: auto-created dict carries a default_factory" % where)
    B.bind(i, x)
    if o["k"] == "list":
        if len(x) != len(o["elems"]):
            raise Mismatch("value", "%s: expected a list of %d, got %r" % (where, len(o["elems"]), x))
        for j, e in enumerate(o["elems"]):
            compare_value(cls, e, x[j], hp, B, "%s[%d]" % (where, j))
    else:
        want_keys = ["k%d" % (j + 1) for j in range(len(o["elems"]))]
        if list(x.keys()) != want_keys:
            raise Mismatch("value", "%s: expected a dict with keys %r, got %r" % (where, want_keys, x))
        for j, e in enumerate(o["elems"]):
            compare_value(cls, e, dict.__getitem__(x, want_keys[j]), hp, B, "%s[%r]" % (where, want_keys[j]))


def compare_dict(cls, items, factory, d, hp, B, where):
    if type(d) is not CLASSES[cls]:
        raise Mismatch("class", "%s: expected class %s got %s" % (where, CLASSES[cls].__name__, type(d).__name__))
    wantf = CLASSES[cls] if factory == "Dict" else None
    if d.default_factory is not wantf:
        raise Mismatch("factory", "%s: expected default_factory %r got %r" % (where, wantf, d.default_factory))
    got = list(d.items())
    keys = [k for k, _ in got]
    if keys != list(d.keys()) or keys != list(iter(d)) or len(d) != len(got) or [id(v) for _, v in got] != [id(v) for v in d.values()]:
        raise Mismatch("views", "%s: items()/keys()/values()/iter/len disagree: %r" % (where, got))
    for k in keys:
        if isinstance(k, str) and k != k.lower():
            raise Mismatch("keycase", "%s: key %r is stored with upper-case letters" % (where, k))
    want = [k for k, _ in items]
    if keys != want:
        if sorted(keys) == sorted(want):
            raise Mismatch("order", "%s: expected key order %r got %r" % (where, want, keys))
        raise Mismatch("keys", "%s: expected keys %r got %r" % (where, want, keys))
    for (k, v), (_, x) in zip(items, got):
        compare_value(cls, v, x, hp, B, "%s[%r]" % (where, k))


def call(cls, d, op, hp, B):
    """apply one operation to the real dict; returns (result, exception class name or None)"""
    n, k = op["name"], op["k"]
    C = CLASSES[cls]
    try:
        if n == "GetItem":
            return d[k], None
        if n == "SetItem":
            d[k] = materialise(cls, op["v"], hp, B)
            return None, None
        if n == "DelItem":
            del d[k]
            return None, None
        if n == "Contains":
            return (d.has_key(k) if op["form"] == "has_key" else (k in d)), None
        if n == "Get":
            return (d.get(k, 9) if op["hasd"] else d.get(k)), None
        if n == "Pop":
            return (d.pop(k, 9) if op["hasd"] else d.pop(k)), None
        if n == "SetDefault":
            return (d.setdefault(k, materialise(cls, op["v"], hp, B)) if op["hasd"] else d.setdefault(k)), None
        if n in ("Update", "Construct"):
            pairs = [(pk, materialise(cls, pv, hp, B)) for pk, pv in op["pairs"]]
            form = op["form"]
            if form.endswith("+kw"):         # one call with a positional argument and keyword arguments
                kw = dict((pk, materialise(cls, pv, hp, B)) for pk, pv in op["kw"])
                pos = pairs if form == "pairs+kw" else dict(pairs)
                if n == "Update":
                    return d.update(pos, **kw), None
                return C(C if op["f"] == "Dict" else None, pos, **kw), None
            if n == "Update":
                if form == "pairs":
                    return d.update(pairs), None
                if form == "dict":
                    return d.update(dict(pairs)), None
                return d.update(**dict(pairs)), None
            f = C if op["f"] == "Dict" else None
            if form == "pairs":
                return C(f, pairs), None
            if form == "dict":
                return C(f, dict(pairs)), None
            return C(f, **dict(pairs)), None
        if n == "Copy":
            return (d.copy() if op["form"] == "copy()" else copy.copy(d)), None
        if n == "DeepCopy":
            return copy.deepcopy(d), None
        if n == "Pickle":
            return pickle.loads(pickle.dumps(d, protocol=int(op["form"][1:]))), None
        if n == "Keys":
            return list(d.keys()), None
    except Exception as ex:  # noqa: BLE001
        return None, type(ex).__name__
    raise common.MachineryFailure("unknown operation %r" % n)


def step(cls, d, e, B):
    """one spec step e = {op, ret, hp, items, factory} on the real dict d; returns the dict the behaviour goes on with"""
    op, ret = e["op"], e["ret"]
    hp = heap_of(e["hp"])
    res, exc = call(cls, d, op, hp, B)
    t = ret["t"]
    if t == "KeyError":
        if exc != "KeyError":
            raise Mismatch("exception", "expected KeyError, got %s" % (exc or "result %r" % (res,)))
    elif exc is not None:
        raise Mismatch("exception", "unexpected %s (expected a result of kind %s)" % (exc, t))
    elif t == "keys":
        if res != ret["ks"]:
            raise Mismatch("order" if sorted(map(str, res)) == sorted(ret["ks"]) else "keys", "keys(): expected %r got %r" % (ret["ks"], res))
    elif t == "dictobj":
        if res is d:
            raise Mismatch("identity", "the copy is the original object")
        compare_dict(cls, ret["items"], ret["f"], res, hp, B, "result")
        if op["name"] != "Construct" and not (res == d and d == res):
            raise Mismatch("equal", "the copy does not compare equal to the original")
    else:
        compare_value(cls, ret, res, hp, B, "result")
    nd = res if op["adopt"] else d
    compare_dict(cls, e["items"], e["factory"], nd, hp, B, "dict after the operation")
    return nd


def fresh(cls, factory, source="ctor"):
    """the dictionary under test: constructed directly, or one the library hands out (emptied through its own API)"""
    if source == "ctor":
        C = CLASSES[cls]
        return C(C) if factory == "Dict" else C()
    text, path = ORIGIN_DOCS[source]
    d = impl.loader(expand_includes=False)(text)
    for p in path:
        d = d[p]
    for k in list(d.keys()):
        del d[k]
    return d


# ----------------------------------------------------------------------------- signatures, reproductions
def key_class(pre_items, op):
    if op["name"] in ("Update", "Construct"):
        ks = [k for k, _ in op["pairs"]] + [k for k, _ in op.get("kw", [])]
        dup = len({k.lower() for k in ks}) < len(ks)
        return "%s%s%s" % (op["form"], "-mixedcase" if any(k != k.lower() for k in ks) else "", "-dupfold" if dup else "")
    if op["name"] in ("Copy", "DeepCopy", "Pickle"):
        return op["form"] + ("-adopt" if op["adopt"] else "")
    if op["name"] == "Keys":
        return "-"
    k = op["k"]
    hit = any(pk == k.lower() for pk, _ in pre_items)
    return "%s-%s%s" % ("upper" if k != k.lower() else "lower", "hit" if hit else "miss",
                        ("-default" if op["hasd"] else "") if op["name"] in ("Get", "Pop", "SetDefault") else "")


def signature(cls, factory, pre_items, op, aspect):
    return "C17|%s|%s|%s/%s|%s" % (op["name"], key_class(pre_items, op), cls, factory, aspect)


def src_value(v, hp):
    if v["t"] == "int":
        return str(v["n"])
    if v["t"] == "none":
        return "None"
    o = hp.get(v["n"])
    if o is None:
        return "obj%d" % v["n"]
    if o["k"] == "list":
        return "[%s]" % ", ".join(src_value(x, hp) for x in o["elems"])
    inner = "{%s}" % ", ".join("'k%d': %s" % (j + 1, src_value(x, hp)) for j, x in enumerate(o["elems"]))
    return inner if o["k"] == "dict" else ("C(None, %s)" % inner if o["elems"] else "C()")


def src(cls, e):
    op = e["op"]
    hp = heap_of(e["hp"])
    n, k = op["name"], op["k"]
    if n == "GetItem":
        return "d[%r]" % k
    if n == "SetItem":
        return "d[%r] = %s" % (k, src_value(op["v"], hp))
    if n == "DelItem":
        return "del d[%r]" % k
    if n == "Contains":
        return "d.has_key(%r)" % k if op["form"] == "has_key" else "%r in d" % k
    if n in ("Get", "Pop"):
        return "d.%s(%r%s)" % (n.lower(), k, ", 9" if op["hasd"] else "")
    if n == "SetDefault":
        return "d.setdefault(%r%s)" % (k, (", " + src_value(op["v"], hp)) if op["hasd"] else "")
    if n in ("Update", "Construct"):
        ps = "[%s]" % ", ".join("(%r, %s)" % (pk, src_value(pv, hp)) for pk, pv in op["pairs"])
        kws = "[%s]" % ", ".join("(%r, %s)" % (pk, src_value(pv, hp)) for pk, pv in op.get("kw", []))
        arg = {"pairs": ps, "dict": "dict(%s)" % ps, "kwargs": "**dict(%s)" % ps, "pairs+kw": "%s, **dict(%s)" % (ps, kws),
               "dict+kw": "dict(%s), **dict(%s)" % (ps, kws)}[op["form"]]
        if n == "Update":
            return "d.update(%s)" % arg
        return "%sC(%s, %s)" % ("d = " if op["adopt"] else "", "C" if op["f"] == "Dict" else "None", arg)
    pre = "d = " if op["adopt"] else "c = "
    if n == "Copy":
        return pre + ("d.copy()" if op["form"] == "copy()" else "copy.copy(d)")
    if n == "DeepCopy":
        return pre + "copy.deepcopy(d)"
    if n == "Pickle":
        return pre + "pickle.loads(pickle.dumps(d, %s))" % op["form"][1:]
    return "list(d.keys())"


def reproduction(cls, f0, steps, source="ctor"):
    C = CLASSES[cls].__name__
    head = "import mappyfile, copy, pickle; from mappyfile.ordereddict import %s as C" % C
    if source == "ctor":
        first = "d = C(C)" if f0 == "Dict" else "d = C()"
    else:
        text, path = ORIGIN_DOCS[source]
        first = "d = mappyfile.loads(%r)%s; [d.pop(k) for k in list(d)]" % (text, "".join("[%r]" % p for p in path))
    return [head, first] + [src(cls, e) for e in steps]


def run_behaviour(ck, cls, f0, steps, check_from=0, origin="graph", source="ctor"):
    """replay steps on a fresh dict; violations are reported for steps >= check_from (earlier steps are the
    path to the pre-state: each of them is a transition tested in its own right).  Returns False when the
    behaviour could not be followed to its end."""
    d = fresh(cls, f0, source)
    B = Binding()
    pre_items = []
    for i, e in enumerate(steps):
        try:
            d = step(cls, d, e, B)
        except Mismatch as m:
            if i >= check_from:
                sig = signature(cls, e["fpre"], pre_items, e["op"], m.aspect)
                if source != "ctor":
                    sig += "|" + source
                case = {"cls": cls, "f0": f0, "steps": steps[: i + 1], "origin": origin,
                        "source": source, "python": reproduction(cls, f0, steps[: i + 1], source), "expected": {"ret": e["ret"], "items": e["items"]}}
                if origin.startswith("walk") and os.path.exists(replay_path(sig)):
                    case = None          # keep the (shorter) reproduction a graph run wrote for the same signature
                ck.violation(sig, "%s on %s(%s): %s" % (src(cls, e), CLASSES[cls].__name__, e["fpre"], m.detail), case)
            return False
        B.prune({j for j, _ in e["post"]} if "post" in e else live_ids(e))
        pre_items = e["items"]
    return True


def replay_path(sig):
    return os.path.join(common.REPLAYS, "C17", hashlib.sha1(sig.encode()).hexdigest()[:12] + ".json")


def live_ids(e):
    """ids reachable from the items after the step (walk records carry no post heap): closure over hp"""
    hp = heap_of(e["hp"])
    todo = [v["n"] for _, v in e["items"] if v["t"] == "ref"]
    seen = set()
    while todo:
        i = todo.pop()
        if i in seen or i not in hp:
            continue
        seen.add(i)
        todo += [x["n"] for x in hp[i]["elems"] if x["t"] == "ref"]
    return seen


def state_key(items, factory, heap, source="ctor"):
    return json.dumps([items, factory, heap, source], sort_keys=True)


def replay_graph(ck, cls, edges, origin):
    """one implementation test per printed transition; pre-states through BFS parents"""
    parent = {}
    n_skipped = 0
    inits = set()
    for ed in edges:
        pre = ed["pre"]
        if not pre["items"]:
            inits.add(state_key([], pre["factory"], [], pre["origin"]))
    for ed in edges:
        e = ed["e"]
        e["post"] = ed["post"]
        pk = state_key(ed["pre"]["items"], ed["pre"]["factory"], ed["pre"]["heap"], ed["pre"]["origin"])
        qk = state_key(e["items"], e["factory"], ed["post"], ed["pre"]["origin"])
        ed["pk"] = pk
        if qk not in parent and qk not in inits:
            parent[qk] = ed
    for ed in edges:
        path = []
        k = ed["pk"]
        while k not in inits:
            p = parent.get(k)
            if p is None:
                raise common.MachineryFailure("transition printed for a state without a printed path: %s" % k[:200])
            path.append(p["e"])
            k = p["pk"]
        path.reverse()
        f0, source = json.loads(k)[1], json.loads(k)[3]
        ck.count()
        e = ed["e"]
        ck.nontrivial("%s|%s|%s|%s|%s" % (cls, e["fpre"], e["op"]["name"], key_class(ed["pre"]["items"], e["op"]), e["ret"]["t"]))
        if not run_behaviour(ck, cls, f0, path + [e], check_from=len(path), origin=origin, source=source):
            n_skipped += 1
    return n_skipped


def nonstring_keys(ck):
    """non-string keys are outside the property, but _k must let them through unchanged and not crash
    (d[k] and setdefault(k) on an existing key are not probed: DefaultOrderedDict.__getitem__ calls key.lower()
    unconditionally - outside the property)"""
    C = impl.CaseInsensitiveOrderedDict
    for k in (1, None, (1, "A"), 2.5, True, frozenset([1])):
        ck.count()
        try:
            d = C(C)
            d[k] = 1
            ok = C._k(k) is k and k in d and d.get(k) == 1 and list(d.keys()) == [k] and d.pop(k) == 1 and len(d) == 0
            if not ok:
                ck.violation("C17|nonstring-key|wrong", "non-string key %r not stored/found as given" % (k,), {"key": repr(k)})
        except Exception as ex:  # noqa: BLE001
            ck.violation("C17|nonstring-key|crash", "non-string key %r raises %s" % (k, type(ex).__name__), {"key": repr(k)})


def model_violation(ck, name, r):
    if r.violated:
        ck.violation("C17|model|%s" % r.violated, "spec/DictObj.tla: %s violated in run %s" % (r.violated, name),
                     {"trace": tlc.error_trace(r) if hasattr(r, "rc") and r.out else []})
        return True
    return False


NEGATIVE = {"kwfirst": "Refines(PlainOD)", "popnofold": "Refines(PlainOD)", "shallowdeep": "CopyLaws", "movetoend": "FirstInsertionOrder",
            "nofoldstore": "KeysLowerUnique"}
JVM = {"JAVA_TOOL_OPTIONS": "-XX:ParallelGCThreads=2 -XX:CICompilerCount=2"}      # several TLCs side by side


def plan(tier, seed):
    jobs = []
    if tier == "quick":
        for f in ("None", "Dict"):
            jobs.append(("graph", "ci", "h3p1-" + f, graph_job("c17_g_ci_h3_%s" % f, cls="ci", steps=3, pairs=1, factories=(f,), keys=KEYS_DUNDER,
                                                               setvals=("i1", "list", "ldict", "llist", "dll"), pairvals=("i2", "list"))))
            jobs.append(("graph", "ci", "h2p2-" + f, graph_job("c17_g_ci_h2p2_%s" % f, cls="ci", steps=2, pairs=2,
                                                               setvals=("i0", "dict", "llist"), factories=(f,),
                                                               pairvals=("i1", "list") if f == "None" else ("i2",))))
        jobs.append(("graph", "dod", "h3p1", graph_job("c17_g_dod", cls="dod", steps=3, pairs=1,
                                                       setvals=("i1", "list", "ldict", "llist"))))
        # update / constructor called with a positional argument and keyword arguments in one call
        jobs.append(("graph", "ci", "mixed-h2p1", graph_job("c17_g_ci_mixed", cls="ci", steps=2, pairs=1, mixed=True,
                                                            keys={"a", "A", "b", "B"}, setvals=("i1",), pairvals=("i2", "list"))))
        jobs.append(("graph", "dod", "mixed-h2p1", graph_job("c17_g_dod_mixed", cls="dod", steps=2, pairs=1, mixed=True,
                                                             keys={"a", "b"}, setvals=("i1",), pairvals=("i2", "list"))))
        # dictionaries handed out by loads (root blocks, key/value blocks, nested blocks) as subjects
        jobs.append(("graph", "ci", "loads-h2p1", graph_job("c17_g_ci_loads", cls="ci", steps=2, pairs=1, origins=tuple(ORIGIN_DOCS),
                                                            keys={"a", "A", "__type__", "__Type__", "layers", "LAYERS"},
                                                            setvals=("i1", "list"), pairvals=("i1",))))
        nw, nwd = 60, 20
    else:
        for f in ("None", "Dict"):
            jobs.append(("graph", "ci", "h4p1-" + f, graph_job("c17_g_ci_h4_%s" % f, cls="ci", steps=4, pairs=1, factories=(f,), keys=KEYS_DUNDER,
                                                               setvals=("i1", "i2", "list", "ldict", "llist", "dll"))))
            jobs.append(("graph", "ci", "h3p2-" + f, graph_job("c17_g_ci_h3p2_%s" % f, cls="ci", steps=3, pairs=2,
                                                               setvals=("i0", "list", "llist", "dll"), factories=(f,))))
            jobs.append(("graph", "ci", "4keys-" + f, graph_job("c17_g_ci_4k_%s" % f, cls="ci", steps=3, pairs=1, setvals=("i1", "llist"),
                                                                keys=KEYS_CI | {"classes", "Classes"}, factories=(f,))))
        jobs.append(("graph", "dod", "h4p1", graph_job("c17_g_dod", cls="dod", steps=4, pairs=1, setvals=("i1", "list", "ldict", "llist"))))
        jobs.append(("graph", "ci", "mixed-h3p1-2keys", graph_job("c17_g_ci_mixed", cls="ci", steps=3, pairs=1, mixed=True,
                                                                  keys={"a", "A", "b", "B"}, setvals=("i1",), pairvals=("i2", "list"))))
        jobs.append(("graph", "ci", "mixed-h2p1", graph_job("c17_g_ci_mixed2", cls="ci", steps=2, pairs=1, mixed=True,
                                                            setvals=("i1",), pairvals=("i2", "list"))))
        jobs.append(("graph", "dod", "mixed-h3p1", graph_job("c17_g_dod_mixed", cls="dod", steps=3, pairs=1, mixed=True,
                                                             setvals=("i1",), pairvals=("i2", "list"))))
        jobs.append(("graph", "ci", "loads-h3p1", graph_job("c17_g_ci_loads", cls="ci", steps=3, pairs=1, origins=tuple(ORIGIN_DOCS),
                                                            keys={"a", "A", "__type__", "__Type__", "layers", "LAYERS"},
                                                            setvals=("i1", "list"), pairvals=("i1",))))
        nw, nwd = 1000, 300
    nsplit = 3 if tier == "quick" else 6
    for i in range(nsplit):
        jobs.append(("walk", "ci", "d40-%d" % i, walk_job("c17_w_ci_%d" % i, nw // nsplit, 40, seed * 100 + i + 1, cls="ci", pairs=2,
                                                          keys=KEYS_DUNDER | {"__Type__", "classes", "Classes"},
                                                          origins=("ctor",) + tuple(ORIGIN_DOCS))))
    jobs.append(("walk", "dod", "d40", walk_job("c17_w_dod", nwd, 40, seed * 100 + 50, cls="dod", pairs=2)))
    # negative configs: deliberately wrong variants of the spec that TLC has to reject (non-vacuity of (M))
    for bug in NEGATIVE:
        jobs.append(("negative", "ci", bug, graph_job("c17_neg_%s" % bug, cls="ci", steps=3, pairs=1, bug=bug,
                                                      keys={"a", "A", "layers", "LAYERS"}, setvals=("i1", "list"), pairvals=("i1",),
                                                      mixed=(bug == "kwfirst"))))
    for j in jobs:
        j[3]["env"] = JVM
    jobs.sort(key=lambda j: 0 if j[0] == "walk" else 1)        # the walks take longest: start them first
    return jobs


def work(args):
    """one TLC run and the replay of what it printed (runs in a forked worker process)"""
    tier, (kind, cls, name, job) = args
    ck = common.Check("C17", tier, "model_checking", RULE)
    rn = "%s-%s-%s" % (kind, cls, name)
    r = tlcx.run(**job)
    cov = {"transitions_replayed": 0, "walks": 0, "walk_steps": 0, "prefix_not_followed": 0}
    if kind == "negative":
        if r.violated != NEGATIVE[name]:
            raise common.MachineryFailure("negative config %s: TLC reported %r, expected a violation of %s" % (name, r.violated, NEGATIVE[name]))
        s = r.summary()
        s["run"] = rn + " (wrong variant, rejected as expected)"
        return {"tlc": s, "cov": cov, "violations": {}, "known": {}, "n": 0, "distinct": set(), "samples": []}
    if not model_violation(ck, rn, r):
        if kind == "graph":
            edges = [p for p in r.prints if isinstance(p, dict) and "pre" in p]
            if len(edges) != (r.states or 0) - len({(p["pre"]["factory"], p["pre"]["origin"]) for p in edges if not p["pre"]["items"]}):
                raise common.MachineryFailure("%s: %d transitions printed but TLC generated %s states" % (rn, len(edges), r.states))
            cov["transitions_replayed"] = len(edges)
            cov["prefix_not_followed"] = replay_graph(ck, cls, edges, rn)
            if edges:
                mid = edges[len(edges) // 2]
                ck.sample({"run": rn, "transition": {"pre": mid["pre"]["items"], "python": src(cls, mid["e"]), "ret": mid["e"]["ret"]}})
        else:
            walks = [p for p in r.prints if isinstance(p, dict) and "walk" in p]
            if not walks:
                raise common.MachineryFailure("%s: no walk printed" % rn)
            for w in walks:
                cov["walks"] += 1
                cov["walk_steps"] += len(w["walk"])
                ck.count(len(w["walk"]))
                ck.nontrivial([e["op"] for e in w["walk"]])
                run_behaviour(ck, cls, w["f0"], w["walk"], origin=rn, source=w["origin"])
            ck.sample({"run": rn, "walk": reproduction(cls, walks[0]["f0"], walks[0]["walk"], walks[0]["origin"])[:10]})
    s = r.summary()
    s["run"] = rn
    return {"tlc": s, "cov": cov, "violations": ck.violations, "known": ck.known_hits, "n": ck.evaluations,
            "distinct": ck.distinct, "samples": ck.samples}


def run(tier):
    import multiprocessing
    ck = common.Check("C17", tier, "model_checking", RULE)
    vocab.get()
    jobs = plan(tier, ck.seed)
    with multiprocessing.get_context("fork").Pool(processes=8) as pool:
        results = pool.map(work, [(tier, j) for j in jobs], chunksize=1)
    cov = {"transitions_replayed": 0, "walks": 0, "walk_steps": 0, "prefix_not_followed": 0}
    for res in results:
        ck.tlc.append(res["tlc"])
        for k in cov:
            cov[k] += res["cov"][k]
        for s, v in res["violations"].items():
            if s not in ck.violations or (ck.violations[s][1] is None and v[1] is not None):
                ck.violations[s] = v
        ck.known_hits.update(res["known"])
        ck.evaluations += res["n"]
        ck.distinct |= res["distinct"]
        for x in res["samples"][:1]:
            ck.sample(x, limit=6)
    for s, (w, pth) in list(ck.violations.items()):
        if pth is None and os.path.exists(replay_path(s)):
            ck.violations[s] = (w, replay_path(s))
    nonstring_keys(ck)
    if cov["prefix_not_followed"] and not ck.violations and not ck.known_hits:
        raise common.MachineryFailure("a path to a pre-state could not be followed although every transition agreed")
    return ck.finish(exhaustive=True, coverage_extra=cov)


def replay(path):
    with open(path) as f:
        rec = json.load(f)
    case = rec["case"]
    ck = common.Check("C17", "replay", "model_checking", RULE)
    if "steps" in case:
        print("\n".join(case.get("python", [])))
        run_behaviour(ck, case["cls"], case["f0"], case["steps"], origin="replay", source=case.get("source", "ctor"))
    else:
        nonstring_keys(ck)
    for s, (w, _) in ck.violations.items():
        print("VIOLATION property=C17 replay=%s  # %s :: %s" % (path, s, w))
    for s, w in ck.known_hits.items():
        print("KNOWN-FINDING: property=C17 %s [%s]" % (w, s))
    return 1 if ck.violations else 0
