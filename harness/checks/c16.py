"""C16 - pretty-printer layout contract.

(T) verdict: the printed text is the trace.  For every (document, option set) the independent reader
    measures each physical line (nesting level from the open/END structure, leading white space, value
    offset, END comment); spec/TraceLayout.tla re-derives what each must be from the option set
    (spec/Options.tla: IndentLen, AlignColumn) and runs the open/END stack machine over the lines.
(M) TLC enumerates the option space (720 valid sets) and checks the alignment formula's own laws;
    spec/Writer.tla (WriterBalanced) shows the contract's line sequences are balanced.
"""
from __future__ import annotations
from .. import common, optrun, tracecheck, impl, mapreader

RULE = ("every line of dumps(d, options) satisfies spec/TraceLayout.tla (indent = level x indent x spacer, END at "
        "opener indentation, END comment, alignment column, line breaks = newlinechar); distinct = (document, option set)")


def run(tier):
    ck = common.Check("C16", tier, "model_checking", RULE)
    quick = tier == "quick"
    seed = ck.seed
    sets = optrun.option_sets(ck)
    docs_ = optrun.documents(40 if quick else 100, seed + 5, ck, corpus_n=12 if quick else 10**6, tag="c16docs")
    cover = optrun.pairwise_cover(sets, seed, extra=6)
    records, meta = [], {}
    # documents that carry comments (loaded with include_comments=True): comment lines are exempt from the per-line
    # rules, but their line breaks are line breaks of the output
    from . import c14
    from .. import comments as cm, concretise, docs as _docs
    loads_c = impl.loader(include_comments=True, expand_includes=False)
    for j, b in enumerate(c14.behaviours(200 if quick else 1500, seed + 16, ck, max_comments=5, tag="c16comments")):
        conc = concretise.Concretiser(seed * 971 + j, avoid_quote="\"'")
        text, _ = cm.render(conc, b["hist"], _docs.root_type(b["hist"]), b["comments"], salt=seed + j)
        try:
            docs_.append(("commented:%d" % j, text, loads_c(text)))
        except Exception:  # noqa: BLE001
            continue
    # key-value blocks as the root object, and lists of blocks at the root (partial Mapfiles)
    loads_p = impl.loader(expand_includes=False)
    roots = ['METADATA\n "wms_title" "a b"\n "k" "v"\nEND', "VALIDATION\n 'qstring' '^[a-z]+$'\nEND", 'CONNECTIONOPTIONS\n "FLATTEN" "YES"\n "A" "1"\nEND',
             'CLASS\n NAME "a"\n STYLE\n WIDTH 1\n END\nEND\nCLASS\n NAME "bb"\n MAXSCALEDENOM 0\nEND',
             'METADATA\n "a" "b"\nEND\nLAYER\n NAME "x"\n TYPE POINT\n METADATA\n "c" "d"\n END\nEND',
             'LAYER\n NAME "x"\n MINSCALEDENOM 0\n TEMPLATE ""\n TYPE POINT\nEND']
    for j, text in enumerate(roots):
        docs_.append(("root:%d" % j, text, loads_p(text)))
    # every scalar keyword as the first simple keyword BEHIND a block-valued item of its object (spec/SlotProbe.tla, position
    # "aftercomplex"): the alignment column of the object must not be disturbed by the nested block before it
    concs = concretise.Concretiser(seed, avoid_quote="\"'")
    nac = 0
    for i, h in enumerate(_docs.slots(ck=ck, tag="c16slots", with_complex=True)):
        info = h[-1]["info"]
        if info["pos"] != "aftercomplex" or (quick and (i + seed) % 3):
            continue
        text, _ = concretise.assemble(concs.tokens(concretise.with_root(h, _docs.root_type(h))))
        try:
            docs_.append(("slotc:%d" % i, text, loads_p(text)))
            nac += 1
        except Exception:  # noqa: BLE001
            continue
    aligned = [o for o in sets if o["align_values"] and not o["separate_complex_types"] and o["nl"] != "SP" and o["indent"] in (2, 4)]
    skipped_joined = 0
    for di, (tid, text, d) in enumerate(docs_):
        is_corpus = tid.startswith("corpus")
        use = cover if (quick or is_corpus or tid.startswith("commented")) else sets
        if tid.startswith("slotc:"):
            use = [aligned[(di + k) % len(aligned)] for k in range(1 if quick else 3)]
        for oi, o in enumerate(use):
            if o["nl"] == "SP":
                continue                      # the per-line rules need line breaks
            if is_corpus and optrun.has_quote_in_strings(d):
                continue
            kw = optrun.kwargs(o)
            import copy
            dd = copy.deepcopy(d) if o["separate_complex_types"] else d
            ck.count()
            try:
                out = impl.fresh_dumps(dd, **kw)
            except Exception as ex:  # noqa: BLE001
                ck.violation("C16|dumps-raised|%s" % type(ex).__name__, "dumps raised %s" % ex, {"text": text, "opts": o})
                continue
            if tid.startswith("commented") and c14.hash_then_open_c_comment(out):
                # C14's listed finding (a multi-line C comment joined behind a # comment on a keyword line): the tail of the
                # comment is no comment line any more; comment lines are outside C16's per-line rules, so not judged here
                skipped_joined += 1
                continue
            try:
                lines, bad, problems = optrun.layout_lines(out, o)
            except mapreader.ReaderError as ex:
                ck.violation("C16|unreadable", "reader cannot tokenise output: %s" % ex, {"printed": out, "opts": o})
                continue
            rid = "%s|%d" % (tid, oi)
            records.append({"tid": rid, "opts": o, "lines": lines, "badbreaks": bad})
            meta[rid] = (text, o, out)
            ck.nontrivial(rid + str(o))
    def canary(r):
        for ln in r["lines"]:
            if ln["kind"] == "attr":
                ln["wslen"] += 1
                return r
        return None
    verdicts = tracecheck.validate("TraceLayout", records, "c16", ck=ck, chunk=600, canary=canary)
    for rid, v in verdicts.items():
        if v["verdict"] != "ok":
            text, o, out = meta[rid]
            flags = ",".join(k for k in ("end_comment", "align_values", "separate_complex_types") if o[k])
            clause = v["verdict"]
            ck.violation("C16|%s|indent=%s|%s" % (clause, "0" if o["indent"] == 0 else "n", flags),
                         "layout clause %s violated (options %s)" % (clause, o), {"text": text if len(text) < 5000 else rid, "opts": o, "printed": out[:3000]})
    ck.sample({"tid": records[0]["tid"], "opts": records[0]["opts"], "lines": records[0]["lines"][:4]})
    return ck.finish(coverage_extra={"option_sets_enumerated": len(sets), "option_sets_used": len(cover) if quick else len(sets),
                                     "documents": len(docs_), "commented_outputs_skipped_joined_comment": skipped_joined, "traces_validated_against_impl": len(verdicts)})
