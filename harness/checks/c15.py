"""C15 - INCLUDE expansion equals textual substitution, bounded at 5 levels.

(M) TLC model-checks spec/Includes.tla: over all include graphs of the bounded builder (trees with
    fan-out <= 2, depth <= 7, <= 1 back edge, <= 1 name that denotes no file) the stack machine
    writes exactly Flatten(fs, root) when it finishes, never stacks more than 6 files, raises the
    depth error iff some chain of directives is longer than 5 (cycles included), the missing-file
    error only for a name met within the expanded levels, and - the one liveness property of the
    suite - every started expansion halts (PROPERTY Halts under SPECIFICATION Spec with weak
    fairness of the machine step only, the environment changing the working directory at will).
    The universe also holds what only matters to a wrong implementation: a line ending per file
    (chunks are written out with the line ending of the file they stand in), chunks that mention
    the word "include" without being a directive, and decoy files (the same relative name exists
    below the including file's / another directory).
    Files may be named by several directives (a DAG: the chunks then come twice in the expected
    sequence) and chunks may show block-comment look-alikes (/* and */ inside string values or
    # comments).
    Negative configurations (a never-unwound "seen" set refusing a file named twice, a textual /* */
    scan switching directive recognition off, machine limit 4 / 6, resolving against the cwd / the including file's
    directory, includer-first / cwd-first lookup, included files read with translated line ends,
    the limit fired by the mere word at level 5, no fairness) must be rejected by TLC.
(G) verdict: TLC emits each graph with its expected outcome (the flattened chunk sequence, or the
    set of permitted error classes).  The graph is realised in a temporary directory tree: a
    generated document (spec/Reader.tla walk rendered by harness/concretise.py, string values that
    span lines included, no INCLUDE keyword as data) is cut at item-line boundaries - never inside
    a value - into the chunks, laid over the content lines in the order of the expected sequence,
    every file written with its own line ending; the root is loaded through mappyfile.open / load
    / loads from differing working directories.  Expected dict = dict of the substituted text
    (the chunks in the expected order, each with the line ending the spec attaches to it) loaded
    by the same mappyfile.  With expand_includes=False the directives
    must come back as `include` lists and dumps must write them back.
"""
from __future__ import annotations
import concurrent.futures
import io
import json
import multiprocessing
import os
import random
import shutil
import tempfile

from .. import common, docs, concretise, project, impl, tlc, vocab

RULE = ("open/load/loads of a realised include graph == loads(textual substitution) (typed, ordered dict), "
        "relative names resolved against the root file's directory (cwd for strings); error class as "
        "spec/Includes.tla permits (depth/cycle: an exception, missing: OSError); expand_includes=False keeps "
        "the directives as include lists and dumps writes them back; Includes invariants + Halts hold in TLC")

PLACE = "{{TMP}}"          # stands for the temporary root in stored replay cases
START_ROLES = {"opener", "end", "key", "kvopen", "projopen", "ptsopen"}

BASE = dict(MaxFiles=4, MaxFan=2, MaxLines=3, MaxDepth=7, MaxBack=1, MaxMissing=1, MaxNested=5, PropNested=5,
            Dirs={0}, Styles={"rel"}, Quotes={"none"}, Cms={False}, Wants={0}, Caps={8}, Entries={"file"},
            Mode="all", ExactDefects=False, EnvChdir=False, ResolveAgainst="root",
            Nls={"lf"}, Words={False}, MaxDecoy=0, ReadMode="verbatim", DepthGuard="directive",
            MaxShare=0, Looks={"none"}, CycleGuard="none", CommentScan="none")


# ------------------------------------------------------------------------------------------- (M)
def model_configs(tier):
    """(tag, constant overrides, liveness?, timeout)"""
    if tier == "quick":
        return [
            ("shape", dict(MaxFiles=3), False),
            ("shape4", dict(MaxFiles=4, MaxLines=2), False),
            ("chain", dict(MaxFiles=8, MaxFan=1, MaxLines=2, MaxBack=0), False),
            ("deepfan", dict(MaxFiles=7, MaxFan=2, MaxLines=2, Wants={5}, MaxBack=0, MaxMissing=0), False),
            ("resolve", dict(MaxFiles=3, MaxLines=2, Dirs={0, 1}, Styles={"rel", "abs"},
                             Entries={"file", "string"}, MaxBack=0), False),
            ("surface", dict(MaxFiles=3, MaxLines=2, MaxFan=1, Dirs={0, 1}, MaxBack=0, MaxMissing=0, MaxDecoy=2,
                             Nls={"lf", "crlf"}), False),
            ("words", dict(MaxFiles=3, MaxLines=2, MaxFan=1, MaxBack=0, Words={False, True},
                           Looks={"none", "open", "close"}), False),
            ("share", dict(MaxFiles=4, MaxLines=2, MaxMissing=0, MaxShare=2), False),
            ("live_chdir", dict(MaxFiles=3, MaxLines=2, MaxFan=1, MaxMissing=0, Dirs={0, 1}, EnvChdir=True), True),
            ("live_chain", dict(MaxFiles=8, MaxFan=1, MaxLines=1), True),
        ]
    return [
        ("shape", dict(MaxFiles=5), False),
        ("chain", dict(MaxFiles=8, MaxFan=1, MaxLines=3), False),
        ("deepfan", dict(MaxFiles=8, MaxFan=2, MaxLines=2, Wants={5}, MaxMissing=0), False),
        ("resolve", dict(MaxFiles=3, MaxLines=3, Dirs={0, 1}, Styles={"rel", "abs"},
                         Entries={"file", "string"}, MaxBack=0), False),
        ("surface", dict(MaxFiles=3, MaxLines=2, MaxFan=1, Dirs={0, 1}, MaxBack=0, MaxMissing=0, MaxDecoy=2,
                         Nls={"lf", "crlf"}, Words={False, True}, Entries={"file", "string"}), False),
        ("words", dict(MaxFiles=4, MaxLines=2, Words={False, True}, Looks={"none", "open", "close"}), False),
        ("share", dict(MaxFiles=5, MaxLines=2, MaxShare=2), False),
        ("live_chdir", dict(MaxFiles=3, MaxLines=3, Dirs={0, 1}, EnvChdir=True), True),
        ("live_chain", dict(MaxFiles=8, MaxFan=1, MaxLines=2, MaxMissing=0), True),
    ]


def negative_configs(tier):
    """(tag, overrides, spec, properties, what TLC has to report)"""
    chain = dict(MaxFiles=8, MaxFan=1, MaxLines=1, MaxBack=0, MaxMissing=0)
    res = dict(MaxFiles=2, MaxLines=1, Dirs={0, 1}, MaxBack=0, MaxMissing=0, Entries={"file", "string"})
    neg = [
        ("neg_nested4", dict(chain, MaxNested=4), None, [], {"ErrDepthSound", "DepthIff"}),
        ("neg_nested6", dict(chain, MaxNested=6), None, [], {"Equiv", "Bounded", "DepthIff"}),
    ]
    neg += [
        ("neg_unfair", dict(MaxFiles=2, MaxLines=1, MaxBack=0, MaxMissing=0), "SpecUnfair", ["Halts"], {"temporal"}),
        # the three machine variants below agree with the property on every graph without a decoy / a CRLF
        # file / a chunk mentioning the word: they are told apart only because the universe holds those
        ("neg_includer_first", dict(MaxFiles=3, MaxFan=1, MaxLines=2, Dirs={0, 1}, MaxBack=0, MaxMissing=0, MaxDecoy=1,
                                    ResolveAgainst="includer-first"), None, [], {"Equiv", "PrefixOK"}),
        ("neg_translate", dict(MaxFiles=2, MaxFan=1, MaxLines=2, MaxBack=0, MaxMissing=0, Nls={"lf", "crlf"},
                               ReadMode="translate-included"), None, [], {"Equiv", "PrefixOK"}),
        ("neg_word_guard", dict(chain, MaxFiles=6, Words={False, True}, DepthGuard="word"), None, [],
         {"ErrDepthSound", "DepthIff"}),
        # (told apart only by a file named twice / a chunk showing a block-comment opener)
        ("neg_seen", dict(MaxFiles=3, MaxFan=2, MaxLines=2, MaxBack=0, MaxMissing=0, MaxShare=1, CycleGuard="seen"),
         None, [], {"ErrDepthSound", "DepthIff"}),
        ("neg_comment_scan", dict(MaxFiles=2, MaxFan=1, MaxLines=2, MaxBack=0, MaxMissing=0,
                                  Looks={"none", "open", "close", "pair"}, CommentScan="textual"),
         None, [], {"Equiv", "PrefixOK"}),
    ]
    if tier != "quick":
        neg += [
            ("neg_cwd", dict(res, ResolveAgainst="cwd", EnvChdir=True), None, [],
             {"Equiv", "ErrMissingSound", "MissingIff", "PrefixOK"}),
            ("neg_includer", dict(res, ResolveAgainst="includer"), None, [],
             {"Equiv", "ErrMissingSound", "MissingIff", "PrefixOK"}),
            ("neg_cwd_first", dict(res, MaxFiles=2, MaxDecoy=1, ResolveAgainst="cwd-first", EnvChdir=True), None, [],
             {"Equiv", "PrefixOK", "ErrMissingSound", "MissingIff"}),
            ("neg_fair_next", dict(MaxFiles=2, MaxLines=1, MaxBack=0, MaxMissing=0, Dirs={0, 1}, EnvChdir=True),
             "SpecNextFair", ["Halts"], {"temporal"}),
        ]
    return neg


SEPARATE_INVS = ["TypeOK", "Equiv", "PrefixOK", "Bounded", "DepthCounter", "ErrDepthSound", "ErrMissingSound",
                 "DepthIff", "MissingIff"]


def constants(over):
    c = dict(BASE)
    c.update(over)
    if "Caps" not in over:
        c["Caps"] = {c["MaxFiles"]}
    return c


def tlc_run(cfg, tag, workers, timeout):
    """tlc.run, reading TLC 1.8's "Temporal property X was violated" as a violated property"""
    try:
        return tlc.run("Includes", cfg, tag=tag, workers=workers, timeout=timeout)
    except tlc.TLCFailure as ex:
        msg = str(ex)
        if "Error: Temporal property" in msg and "was violated" in msg and msg.count("Error:") == 1:
            r = tlc.Result()
            r.out = msg
            tlc.parse_output(r)
            r.rc = 13
            r.violated = "temporal"
            return r
        raise


def run_model(tag, over, live, workers, timeout):
    c = constants(over)
    cfg = tlc.cfg_text(constants=c, invariants=SEPARATE_INVS, properties=["Halts"] if live else [],
                       spec="Spec" if live else None)
    return tlc_run(cfg, "c15_" + tag, workers, timeout)


def run_negative(tag, over, spec, props, workers, timeout):
    c = constants(over)
    cfg = tlc.cfg_text(constants=c, invariants=SEPARATE_INVS, properties=props, spec=spec)
    return tlc_run(cfg, "c15_" + tag, workers, timeout)


# ------------------------------------------------------------------------------------------- (G) graphs
def batches(tier):
    """(tag, overrides, number of simulated graphs)"""
    q = tier == "quick"
    fan = 3 if q else 4
    w = dict(MaxFiles=12, MaxFan=fan, MaxLines=2 * fan + 1, MaxDepth=7, MaxBack=0, MaxMissing=0,
             Dirs={0, 1, 2, 3}, Styles={"rel", "abs"}, Quotes={"none", "single", "double"}, Cms={False, True},
             Wants={0, 1, 2, 3, 4, 5}, Caps={2, 3, 4, 6, 8, 10, 12}, Entries={"file", "string"}, Mode="walk",
             ExactDefects=True, Nls={"lf", "crlf"}, Words={False, True}, MaxDecoy=3,
             Looks={"none", "none", "open", "close", "pair"})
    k = 1 if q else 70
    return [
        ("ok", dict(w, MaxDepth=5), 150 * k),
        ("share", dict(w, MaxDepth=4, MaxShare=2, Wants={0, 1, 2, 3}, Caps={3, 4, 6, 8, 10}), 90 * k),
        ("deep", dict(w, Wants={4, 5, 6, 7}, Caps={6, 8, 10, 12}), 80 * k),
        ("cycle", dict(w, MaxBack=1, Wants={0, 1, 2, 3, 4}), 50 * k),
        ("missing", dict(w, MaxMissing=1, Wants={0, 1, 2, 3, 4, 5, 6}), 60 * k),
        ("both", dict(w, MaxBack=1, MaxMissing=1), 20 * k),
    ]


def emit_batch(tag, over, n, seed):
    c = dict(BASE)
    c.update(over)
    cfg = tlc.cfg_text(constants=c, invariants=["Emit"] + SEPARATE_INVS)
    r = tlc.run("Includes", cfg, tag="c15_emit_" + tag, mode="simulate", simulate="num=%d" % n, depth=1500,
                seed=seed, timeout=3000, workers=1)
    if r.violated:
        raise common.MachineryFailure("Includes invariant %s violated while emitting graphs" % r.violated)
    gs = [g for g in r.prints if isinstance(g, dict) and "fs" in g]
    if len(gs) < n * 0.8:
        raise common.MachineryFailure("TLC emitted %d graphs in batch %s, wanted %d" % (len(gs), tag, n))
    for g in gs:
        g["batch"] = tag
    return r, gs


def submit_emission(ex, tier, seed, per_run=2500):
    futs = []
    j = 0
    for tag, over, n in batches(tier):
        part = 0
        while n > 0:
            m = min(n, per_run)
            j += 1
            futs.append(("emit_%s_%d" % (tag, part), ex.submit(emit_batch, "%s_%d" % (tag, part), over, m, seed * 1000 + j)))
            n -= m
            part += 1
    return futs


# ------------------------------------------------------------------------------------------- documents
def include_free(hist):
    """the document without its INCLUDE-as-data items (the quantifier: directives only where the graph
    puts them); the expected dict comes from loading the whole text, not from the behaviour's post"""
    return [a for a in hist if not (a["a"] == "repeated" and a["key"] == "include")]


def has_include(hist):
    return any(a["a"] == "repeated" and a["key"] == "include" for a in hist)


def render(hist, cseed):
    """-> (lines of the whole document, cut candidates (0-based line indexes where a piece may start, > 0),
           insertion candidates for directives kept as data (line index, enclosing block type),
           number of open blocks before each cut candidate)"""
    conc = concretise.Concretiser(cseed, strings=STRINGS)
    toks = conc.tokens(concretise.with_root(include_free(hist), docs.root_type(hist)))
    text, pos = concretise.assemble(toks)
    lines = text.split("\n")
    assert lines[-1] == ""
    lines.pop()
    cuts = []
    inserts = []
    stack = []
    depth_of = {0: 0, len(lines): 0}
    # (a singleton block given twice keeps the last one only: directives are not put where the
    #  contract drops the whole block)
    singles = set(vocab.get()["tokens"]["singleton_composite_names"])
    for t, (ln, _col) in zip(toks, pos):
        if t.first and t.role in START_ROLES:
            if ln > 1:
                cuts.append(ln - 1)
                depth_of[ln - 1] = len(stack)
                if stack and not any(b in singles for b in stack[1:]):
                    inserts.append((ln - 1, stack[-1]))
        if t.role == "opener":
            stack.append(t.extra)
        elif t.role == "end":
            stack.pop()
    return lines, cuts, inserts, depth_of


# string contents of the documents: the shared pool, with more values that span lines (their line
# breaks are written with the line ending of the file the value ends up in) and values / keys that
# merely contain the word include; no continuation line starts with the word (the quantifier:
# directives on their own line outside strings)
STRINGS = [x[0] for x in concretise.STR_POOL] + [
    "multi\nline", "first line\nsecond line", "a\n\nb", "x\ny\nz", "abstract:\n  indented\n", "\nleading break",
    "two\nlines 'quoted'", "tab\there\nand a break", "one\ntwo", "para 1\n\npara 2\n",
    "tiles/*.tif", "shp/*.shp", "a */ b", "*/*", "/* both */", "/*",
    "please include me", "wms_include_items", "gml_include_items all", "do not INCLUDE \"x.map\""]
assert not any(ln.strip().lower().startswith("include") for x in STRINGS for ln in x.split("\n")[1:])
LOOK_LINES = {"open": ["# tiles/*.tif", "  # see data/* for the rest", "#/*", "\t# DATA \"shp/*.shp\""],
              "close": ["# */ done", "  # glob: */x.tif", "#*/"],
              "pair": ["# /* old */", "  # a/*b*/c", "# */ and /* */"]}
WORD_LINES = ["# include the roads here", "  # INCLUDE 'old/layers.map'", "#include", "\t# was: Include \"x.map\" # twice",
              "# gml_include_items", "  ## do not include"]

# ------------------------------------------------------------------------------------------- realisation
KEYWORDS = ["INCLUDE", "INCLUDE", "include", "Include", "InClUdE"]
INDENTS = ["", "", "  ", "    ", "\t"]
COMMENTS_SP = [" # layers", "  # see 'x' and \"y\"", " #", "\t# a # b", " # include \"other.map\""]
COMMENTS_NOSP = ["# glued", "#"]
EXTS = [".map", ".map", ".inc", ".txt", ".lay"]


def directive_text(rng, ln, name):
    q = {"none": "", "single": "'", "double": '"'}[ln["q"]]
    s = rng.choice(INDENTS) + rng.choice(KEYWORDS) + rng.choice([" ", " ", "  ", "\t"]) + q + name + q
    if ln["cm"]:
        # a comment glued to the closing quote is still a comment; after a bare name keep a blank
        pool = COMMENTS_SP + (COMMENTS_NOSP if q else [])
        s += rng.choice(pool)
    elif rng.random() < 0.2:
        s += rng.choice([" ", "\t"])
    return s


def lay_out(rng, lines, cuts, depth_of, order):
    """Cut the document into one piece per distinct chunk of `order` (the substitution sequence, in which a
    chunk of a file that is named twice comes twice).  A chunk that comes once may be any run of whole
    items; a chunk that comes again must be balanced (whole items and whole blocks, starting inside the
    root block), so that the text is a document again when it is repeated; chunks repeated after the last
    fresh chunk are empty.  -> {chunk: lines} or None when no chunk comes just once."""
    first = list(dict.fromkeys(order))
    k = len(first)
    if k == 0:
        return {}
    count = {}
    for c in order:
        count[c] = count.get(c, 0) + 1
    rep_ = {c for c in first if count[c] > 1}
    cand = sorted(set(cuts))
    if len(cand) >= k - 1:
        tg = sorted(rng.sample(cand, k - 1))
        if tg and rng.random() < 0.15:
            tg[rng.randrange(len(tg))] = tg[0]          # an empty chunk now and then
            tg.sort()
    else:
        tg = sorted(rng.choice(cand) if cand else len(lines) for _ in range(k - 1))
    tg.append(len(lines))
    if not rep_:
        bounds = [0] + tg
        return {c: list(lines[bounds[j]:bounds[j + 1]]) for j, c in enumerate(first)}
    fresh = [j for j, c in enumerate(first) if c not in rep_]
    if not fresh:
        return None
    tail_owner = fresh[-1]
    seen_first = set()
    last_first = 0
    for p, c in enumerate(order):
        if c not in seen_first:
            seen_first.add(c)
            last_first = p
    empty = {c for c in order[last_first + 1:]} | {c for c in first[tail_owner + 1:]}
    piece = {}
    pos = 0
    for j, c in enumerate(first):
        if j == tail_owner:
            end = len(lines)
        elif c in empty:
            end = pos
        elif c in rep_:
            ends = [pos]
            if depth_of[pos] >= 1:
                for b in cand:
                    if b <= pos:
                        continue
                    if depth_of[b] < depth_of[pos]:
                        break
                    if depth_of[b] == depth_of[pos]:
                        ends.append(b)
            end = rng.choice(ends[1:7]) if len(ends) > 1 and rng.random() < 0.85 else pos
        else:
            end = max(pos, tg[j])
        piece[c] = list(lines[pos:end])
        pos = end
    return piece


def build_case(g, hist, cseed, rseed, idx):
    """Lay the document over the graph.  Pure: returns a JSON-able case (paths relative to PLACE)."""
    rng = random.Random(rseed)
    n = g["n"]
    # directories: id -> nested relative path
    incs = [(f, i, ln) for f in range(n) for i, ln in enumerate(g["fs"][f]) if ln["k"] == "i"]
    ndirs = max([max(g["dir"]), g["cwd0"], g["base"]] + [ln["altdir"] for _f, _i, ln in incs]) + 1
    NL = {"lf": "\n", "crlf": "\r\n"}
    dpath = []
    for d in range(ndirs):
        parent = "" if (d == 0 or rng.random() < 0.35) else dpath[rng.randrange(d)]
        dpath.append(os.path.join(parent, "d%d%s" % (d, rng.choice(["", "_maps", ".d"]))))
    extra_dirs = ["elsewhere", os.path.join(dpath[0], "deeper", "still")]
    fname = ["root%s" % rng.choice([".map", ".MAP", ".txt"])] + ["f%d%s" % (f, rng.choice(EXTS)) for f in range(2, n + 1)]
    fpath = [os.path.join(dpath[g["dir"][f]], fname[f]) for f in range(n)]        # index f-1
    base = dpath[g["base"]]

    names = {}

    def name_of(ln, key):
        if key not in names:
            names[key] = name_of_(ln)
        return names[key]

    def name_of_(ln):
        if ln["t"] == 0:
            target = os.path.join(dpath[rng.randrange(ndirs)], rng.choice(["nothing.map", "gone/x.map", "f0.map"]))
        else:
            target = fpath[ln["t"] - 1]
        if ln["st"] == "abs":
            return PLACE + "/" + target
        rel = os.path.relpath(target, dpath[ln["base"]])
        if rng.random() < 0.15 and not rel.startswith("."):
            rel = "./" + rel
        return rel

    lines, cuts, inserts, depth_of = render(hist, cseed)
    order = [(x[0], x[1]) for x in (g["full"] or g["flat"])]
    contents = [(f + 1, i + 1) for f in range(n) for i, ln in enumerate(g["fs"][f]) if ln["k"] == "c"]
    if not order:
        order = list(contents)                # cyclic graphs: the layout is immaterial
    order += [c for c in contents if c not in order]
    piece = lay_out(rng, lines, cuts, depth_of, order)
    if piece is None:
        if not g["allowed"]:
            return None                       # every chunk comes twice: no document can be laid over it
        piece = lay_out(rng, lines, cuts, depth_of, list(dict.fromkeys(order)))
    k = len(piece)
    # comment look-alikes inside # comments (string values showing them come from the string pool)
    for (f, i) in contents:
        lk = g["fs"][f - 1][i - 1].get("look", "none")
        if lk != "none":
            w = rng.choice(LOOK_LINES[lk])
            piece[(f, i)] = [w] + piece[(f, i)] if rng.random() < 0.4 else piece[(f, i)] + [w]
    # chunks that mention the word include without being a directive: a comment line at an item boundary
    for (f, i) in contents:
        if g["fs"][f - 1][i - 1].get("word"):
            w = rng.choice(WORD_LINES)
            piece[(f, i)] = [w] + piece[(f, i)] if rng.random() < 0.5 else piece[(f, i)] + [w]
    files = {}
    for f in range(n):
        out = []
        e = NL[g["nl"][f]]
        for i, ln in enumerate(g["fs"][f]):
            if ln["k"] == "c":
                out += piece[(f + 1, i + 1)]
            else:
                out.append(directive_text(rng, ln, name_of(ln, (f, i))))
        text = e.join(out)
        if out and rng.random() < 0.8:
            text += e
        files[fpath[f]] = text
    # decoys: the same relative name exists below another directory, with other content
    decoy_dirs = []
    # (paths that must stay absent: what the names denoting no file resolve to under the property)
    absent = {os.path.normpath(os.path.join(dpath[ln["base"]], name_of(ln, (f, i)))) if ln["st"] == "rel"
              else name_of(ln, (f, i))[len(PLACE) + 1:] for f, i, ln in incs if ln["t"] == 0}
    for f, i, ln in incs:
        if ln["alt"] and ln["st"] == "rel":
            dp = os.path.normpath(os.path.join(dpath[ln["altdir"]], name_of(ln, (f, i))))
            if dp.startswith("..") or os.path.isabs(dp) or dp in files or dp in absent:
                continue                      # (would leave the tree / hit a real file: not planted)
            files[dp] = "# decoy %d\n" % ln["alt"]
            decoy_dirs.append(dpath[ln["altdir"]])
    # the substituted text: every chunk with the line ending the specification attaches to it
    whole = "".join(x + NL[c[2]] for c in g["flat"] for x in piece[(c[0], c[1])])
    # directives kept as data: every directive of the graph written into the whole document, inside
    # blocks whose schema has an INCLUDE slot
    inc_types = include_types()
    spots = [ln for ln, typ in inserts if typ in inc_types]
    keep = None
    if spots and incs:
        at = sorted(rng.choice(spots) for _ in incs)
        nms = [name_of(ln, (f, i)) for f, i, ln in incs]
        keep = {"lines": lines, "at": at, "dtext": [directive_text(rng, ln, nm) for (_f, _i, ln), nm in zip(incs, nms)],
                "names": nms, "surface": [[ln["st"], ln["q"], "cm" if ln["cm"] else "nocm"] for _f, _i, ln in incs]}
    styles = sorted({ln["st"] for _f, _i, ln in incs})
    cwds = [extra_dirs[0], "", dpath[rng.randrange(ndirs)], extra_dirs[1], "/"] + decoy_dirs * 2
    nls = sorted(set(g["nl"]))
    return {"idx": idx, "graph": g, "dirs": dpath + extra_dirs, "files": files, "root": fpath[0],
            "rootdir": dpath[g["dir"][0]], "base": base, "whole": whole, "plain": NL[g["nl"][0]].join(lines) + NL[g["nl"][0]],
            "nl": NL[g["nl"][0]], "nlname": nls[0] if len(nls) == 1 else "mixed", "styles": "+".join(styles) or "none",
            "cwd_open": rng.choice(cwds), "cwd_load": rng.choice(cwds),
            "root_rel_open": rng.random() < 0.5, "root_rel_load": rng.random() < 0.5,
            "keep": keep, "chunks": k}


_inc_types = None


def include_types():
    global _inc_types
    if _inc_types is None:
        _inc_types = {s[0] for s in vocab.slot_shapes(vocab.get()) if s[1] == "include" and s[2] == "repeated"}
    return _inc_types


def materialise(case, tmp):
    for d in case["dirs"]:
        os.makedirs(os.path.join(tmp, d), exist_ok=True)
    for p, text in case["files"].items():
        full = os.path.join(tmp, p)
        os.makedirs(os.path.dirname(full), exist_ok=True)
        with io.open(full, "w", encoding="utf-8", newline="") as f:
            f.write(text.replace(PLACE, tmp))


# ------------------------------------------------------------------------------------------- running a case
def classify(fn):
    """-> (kind, dict or exception): ok | oserror | parse | recursion | error"""
    try:
        return "ok", fn()
    except RecursionError as ex:
        return "recursion", ex
    except OSError as ex:
        return "oserror", ex
    except impl.LarkError as ex:
        return "parse", ex
    except Exception as ex:  # noqa: BLE001
        return "error", ex


def api_calls(case, tmp, public):
    """the entry points to exercise: (api name, cwd, thunk)"""
    import mappyfile
    root = os.path.join(tmp, case["root"])
    text = case["files"][case["root"]].replace(PLACE, tmp)
    g = case["graph"]
    if public:
        f_open = lambda p: mappyfile.open(p)                      # noqa: E731
        f_load = lambda fp: mappyfile.load(fp)                    # noqa: E731
        f_loads = lambda s: mappyfile.loads(s)                    # noqa: E731
    else:
        p, m = _worker()
        f_open = lambda fn: m.transform(p.parse_file(fn))         # noqa: E731  (what open does after building p)
        f_load = lambda fp: m.transform(p.load(fp))               # noqa: E731
        f_loads = lambda s: m.transform(p.parse(s))               # noqa: E731

    def cwd_of(rel):
        return rel if rel == "/" else os.path.join(tmp, rel)

    calls = []
    if g["entry"] == "file":
        c1 = cwd_of(case["cwd_open"])
        p1 = os.path.relpath(root, c1) if case["root_rel_open"] else root
        calls.append(("open", c1, lambda: f_open(p1)))
        c2 = cwd_of(case["cwd_load"])
        p2 = os.path.relpath(root, c2) if case["root_rel_load"] else root

        def do_load():
            with io.open(p2, "r", encoding="utf-8", newline="") as fp:
                return f_load(fp)
        calls.append(("load", c2, do_load))
        # the same text as a plain string: relative names are then relative to the working directory
        calls.append(("loads", os.path.join(tmp, case["rootdir"]), lambda: f_loads(text)))
    else:
        c = os.path.join(tmp, case["base"])
        calls.append(("loads", c, lambda: f_loads(text)))
        calls.append(("load-stringio", c, lambda: f_load(io.StringIO(text))))
    return calls


_w = None


def _worker():
    global _w
    if _w is None:
        _w = (impl.Parser(expand_includes=True), impl.MapfileToDict())
    return _w


def strip_includes(p):
    """projection without the include lists"""
    if isinstance(p, tuple) and p and p[0] == "dict":
        return ("dict", p[1], [(k, strip_includes(v)) for k, v in p[2] if k != "include"])
    if isinstance(p, list):
        return [strip_includes(x) for x in p]
    return p


def collect_includes(d, acc):
    if isinstance(d, dict):
        for k, v in d.items():
            if k == "include":
                acc += list(v) if isinstance(v, (list, tuple)) else [v]
            else:
                collect_includes(v, acc)
    elif isinstance(d, (list, tuple)):
        for x in d:
            collect_includes(x, acc)
    return acc


def unquote(s):
    s = s.strip()
    if len(s) >= 2 and s[0] == s[-1] and s[0] in "'\"":
        return s[1:-1]
    return s


def run_case(case, tmp, public=True, keep_public=False):
    """-> (evaluations, [(signature, what, extra)])"""
    found = []
    evals = 0
    g = case["graph"]
    allowed = sorted(g["allowed"])
    loads0 = impl.loader(expand_includes=False)
    materialise(case, tmp)
    here = os.getcwd()
    tail = "%s|%s" % (case["styles"], case["nlname"])
    exp = None
    if not allowed:
        if case["chunks"] == 0:
            return 0, []                    # nothing but directives and empty files: no document to speak of
        try:
            exp = project.project(loads0(case["whole"]))
        except Exception:  # noqa: BLE001
            return 0, [("SKIP", "whole document rejected", None)]     # C02's business
    try:
        for api, cwd, thunk in api_calls(case, tmp, public):
            os.chdir(cwd)
            try:
                kind, val = classify(thunk)
            finally:
                os.chdir(here)
            evals += 1
            info = {"api": api, "cwd": cwd.replace(tmp, PLACE)}
            if not allowed:
                if kind != "ok":
                    found.append(("C15|expand-raised|%s|%s|%s" % (api, type(val).__name__, tail),
                                  "%s raised %s on an include graph that must expand (depth %d, %d files): %s" % (
                                      api, type(val).__name__, max(g["level"]), g["n"], str(val)[:100].replace(tmp, PLACE)),
                                  info))
                    continue
                df = project.diff(exp, project.project(val))
                if df:
                    path, dk, e, got = df
                    found.append(("C15|dict-differs|%s|%s" % (api, tail),
                                  "%s of the include graph differs from loads(substituted text) at %s: %s expected %s got %s" % (
                                      api, list(path), dk, e, got), info))
            elif allowed == ["depth"]:
                if kind == "ok":
                    found.append(("C15|depth|expected-error-got-ok|%s" % api,
                                  "%s expanded an include chain longer than 5 (or a cycle) instead of raising" % api, info))
                elif kind == "parse":
                    found.append(("C15|depth|expected-error-got-parse-error|%s" % api,
                                  "%s went past 5 levels and failed in the parser: %s" % (api, str(val)[:80]), info))
                elif kind == "recursion":
                    found.append(("C15|depth|recursion-error|%s" % api, "%s recursed until RecursionError" % api, info))
                elif kind == "oserror":
                    found.append(("C15|depth|unexpected-oserror|%s|%s" % (api, tail),
                                  "%s raised %s although every named file exists: %s" % (
                                      api, type(val).__name__, str(val)[:100].replace(tmp, PLACE)), info))
            elif allowed == ["missing"]:
                if kind == "ok":
                    found.append(("C15|missing|expected-error-got-ok|%s" % api,
                                  "%s returned a dict although an included file does not exist" % api, info))
                elif kind != "oserror":
                    found.append(("C15|missing|wrong-exception|%s" % api,
                                  "%s raised %s instead of an OSError for a missing include: %s" % (
                                      api, type(val).__name__, str(val)[:80]), info))
            else:                                   # both defects present: either error class
                if kind == "ok":
                    found.append(("C15|depth+missing|expected-error-got-ok|%s" % api,
                                  "%s returned a dict for a graph with a too long chain and a missing file" % api, info))
                elif kind in ("parse", "recursion"):
                    found.append(("C15|depth+missing|wrong-exception|%s" % api,
                                  "%s raised %s" % (api, type(val).__name__), info))
        if allowed:
            # the directives as data never touch the file system
            evals += 1
            os.chdir(os.path.join(tmp, case["dirs"][-2]))
            try:
                root_text = case["files"][case["root"]].replace(PLACE, tmp)
                k0, v0 = classify(lambda: loads0(root_text))
            finally:
                os.chdir(here)
            if k0 in ("oserror", "recursion") or (k0 == "error" and isinstance(v0, ValueError)):
                found.append(("C15|noexpand|touched-files|%s" % type(v0).__name__,
                              "expand_includes=False raised %s on the root of a graph that cannot be expanded" %
                              type(v0).__name__, {"api": "loads"}))
        # ---- directives kept as data
        if case["keep"]:
            evals += 1
            found += check_keep(case, tmp, loads0, keep_public)
    finally:
        os.chdir(here)
    return evals, found


def keep_text(keep, nl, only=None):
    """the whole document with the directives written in (only = index of the single directive to write)"""
    out = []
    j = 0
    for li, s in enumerate(keep["lines"]):
        while j < len(keep["at"]) and keep["at"][j] == li:
            if only is None or only == j:
                out.append(keep["dtext"][j])
            j += 1
        out.append(s)
    return nl.join(out) + nl


def check_keep(case, tmp, loads0, public):
    import mappyfile
    found = []
    keep = case["keep"]
    text = keep_text(keep, case["nl"]).replace(PLACE, tmp)
    names = [x.replace(PLACE, tmp) for x in keep["names"]]
    try:
        whole = project.project(loads0(case["plain"]))
    except Exception:  # noqa: BLE001
        return []

    def culprit():
        """the first directive that is not kept when it is the only one in the document"""
        for j, nm in enumerate(names):
            k, d = classify(lambda: loads0(keep_text(keep, case["nl"], only=j).replace(PLACE, tmp)))
            if k != "ok" or collect_includes(d, []) != [nm]:
                return "|".join(keep["surface"][j])
        return "interaction"

    def same(got):
        return sorted(got) == sorted(names)

    loaders = [("loads", lambda: loads0(text))]
    if public:
        p = os.path.join(tmp, "keep.map")
        with io.open(p, "w", encoding="utf-8", newline="") as f:
            f.write(text)
        loaders = [("loads", lambda: mappyfile.loads(text, expand_includes=False)),
                   ("open", lambda: mappyfile.open(p, expand_includes=False))]
    for api, fn in loaders:
        kind, d = classify(fn)
        info = {"api": api, "keep_text": text.replace(tmp, PLACE)}
        if kind != "ok":
            found.append(("C15|noexpand|%s|directive-not-kept" % culprit(),
                          "expand_includes=False: %s raised %s on a document with INCLUDE directives: %s" % (
                              api, type(d).__name__, str(d)[:100].replace(tmp, PLACE)), info))
            continue
        got = collect_includes(d, [])
        if not same(got):
            found.append(("C15|noexpand|%s|directive-not-kept" % culprit(),
                          "expand_includes=False: include values %s, written names %s" % (
                              [x.replace(tmp, PLACE) for x in got][:8], keep["names"][:8]), info))
            continue
        df = project.diff(whole, strip_includes(project.project(d)))
        if df:
            found.append(("C15|noexpand|rest-differs|%s" % project.path_sig(df[0]),
                          "expand_includes=False: the dict without its include lists differs from the document "
                          "without directives at %s: %s" % (list(df[0]), df[1]), info))
            continue
        kind, out = classify(lambda: mappyfile.dumps(d))
        if kind != "ok":
            continue                                      # (printing as such: C01/C03)
        written = [unquote(l.strip()[len("include"):]) for l in out.split("\n") if l.strip().lower().startswith("include")]
        if not same(written):
            found.append(("C15|noexpand|dumps-differs",
                          "dumps wrote INCLUDE lines %s for the names %s" % (
                              [x.replace(tmp, PLACE) for x in written][:8], keep["names"][:8]), info))
            continue
        kind, d2 = classify(lambda: loads0(out))
        if kind == "ok" and not same(collect_includes(d2, [])):
            found.append(("C15|noexpand|dumps-roundtrip", "the include lists of loads(dumps(d)) differ from those of d", info))
    return found


# ------------------------------------------------------------------------------------------- pool
_POOL_TMP = None


def _pool_init(tmp):
    global _POOL_TMP
    _POOL_TMP = tmp


def _pool_job(job):
    g, hist, cseed, rseed, idx, public, keep_public = job
    tmp = tempfile.mkdtemp(prefix="g%05d_" % idx, dir=_POOL_TMP)
    try:
        case = build_case(g, hist, cseed, rseed, idx)
        if case is None:
            return idx, 0, [("SKIP", "no document can be laid over the graph", None)], None
        ev, found = run_case(case, tmp, public=public, keep_public=keep_public)
        found = [(sig, what, replay_case_of(case, extra) if sig not in ("SKIP",) else None) for sig, what, extra in found]
        sample = {"graph": {k: g[k] for k in ("fs", "dir", "entry", "allowed", "flat")}, "files": case["files"]} if idx < 2 else None
    except Exception as ex:  # noqa: BLE001
        import traceback
        return idx, 0, [("MACHINERY", traceback.format_exc()[-1500:] + str(ex), None)], None
    finally:
        shutil.rmtree(tmp, ignore_errors=True)
    return idx, ev, found, sample


def replay_case_of(case, extra):
    c = {k: case[k] for k in ("files", "root", "rootdir", "base", "whole", "plain", "nlname", "styles", "dirs", "cwd_open",
                               "cwd_load", "root_rel_open", "root_rel_load", "keep", "chunks", "idx", "nl")}
    c["graph"] = {k: v for k, v in case["graph"].items() if k != "machine"}
    c["observed"] = extra
    return c


# ------------------------------------------------------------------------------------------- no-expand, Reader side
def check_reader_includes(ck, hs, seed):
    """documents whose INCLUDE items are data (spec/Reader.tla predicts the include lists): loaded with
    expand_includes=False through the three entry points, no file is looked for, dumps writes them back"""
    import mappyfile
    loads0 = impl.loader(expand_includes=False)
    tmp = tempfile.mkdtemp(prefix="c15_reader_", dir="/tmp")
    here = os.getcwd()
    nchk = 0
    try:
        os.chdir(tmp)
        for j, h in enumerate(hs):
            conc = concretise.Concretiser(seed * 1000 + j, no_multiline=True, avoid_quote='"')   # (quoting: C04)
            root = docs.root_type(h)
            text, _ = concretise.assemble(conc.tokens(concretise.with_root(h, root)))
            exp = conc.expected(h[-1]["post"])
            names = collect_includes_proj(exp, [])
            if not names:
                continue
            nchk += 1
            ck.count()
            api = ["loads", "open", "load"][j % 3] if j < 24 else "parse"
            p = os.path.join(tmp, "doc%d.map" % j)
            if api in ("open", "load"):
                with io.open(p, "w", encoding="utf-8", newline="") as f:
                    f.write(text)

            def go():
                if api == "loads":
                    return mappyfile.loads(text, expand_includes=False)
                if api == "open":
                    return mappyfile.open(p, expand_includes=False)
                if api == "load":
                    with io.open(p, "r", encoding="utf-8") as fp:
                        return mappyfile.load(fp, expand_includes=False)
                return loads0(text)
            kind, d = classify(go)
            if kind != "ok":
                ck.violation("C15|noexpand|reader|raised|%s|%s" % (api if api != "parse" else "loads", type(d).__name__),
                             "expand_includes=False: %s raised %s on a document holding INCLUDE items: %s" % (
                                 api, type(d).__name__, str(d)[:100]), {"text": text})
                continue
            df = project.diff(exp, project.project(d))
            if df:
                ck.violation("C15|noexpand|reader|%s|%s" % (df[1], project.path_sig(df[0])),
                             "expand_includes=False: dict differs from the Reader contract at %s: %s expected %s got %s" % (
                                 list(df[0]), df[1], df[2], df[3]), {"text": text})
                continue
            kind, out = classify(lambda: mappyfile.dumps(d))
            if kind != "ok":
                continue                                  # (printing as such: C01/C03)
            written = sorted(unquote(l.strip()[len("include"):]) for l in out.split("\n")
                             if l.strip().lower().startswith("include"))
            if written != sorted(names):
                ck.violation("C15|noexpand|reader|dumps-differs",
                             "dumps wrote INCLUDE lines %s for the include values %s" % (written[:6], sorted(names)[:6]),
                             {"text": text, "printed": out})
                continue
            kind, d2 = classify(lambda: loads0(out))
            if kind == "ok" and sorted(collect_includes(d2, [])) != sorted(names):
                ck.violation("C15|noexpand|reader|dumps-roundtrip",
                             "the include lists of loads(dumps(d)) differ from the Reader contract",
                             {"text": text, "printed": out})
    finally:
        os.chdir(here)
        shutil.rmtree(tmp, ignore_errors=True)
    return nchk


def collect_includes_proj(p, acc):
    if isinstance(p, tuple) and p and p[0] == "dict":
        for k, v in p[2]:
            if k == "include":
                acc += list(v)
            else:
                collect_includes_proj(v, acc)
    elif isinstance(p, list):
        for x in p:
            collect_includes_proj(x, acc)
    return acc


# ------------------------------------------------------------------------------------------- run
def run(tier):
    ck = common.Check("C15", tier, "model_checking", RULE)
    seed = ck.seed
    quick = tier == "quick"
    vocab.get()
    tmp = tempfile.mkdtemp(prefix="c15_", dir="/tmp")
    # (the worker processes are forked before any thread exists)
    pool = multiprocessing.get_context("fork").Pool(14, initializer=_pool_init, initargs=(tmp,))
    # TLC runs in background threads: graph emission and documents first, then (M) and the negative
    # configurations, which go on while the graphs are replayed
    ex = concurrent.futures.ThreadPoolExecutor(max_workers=8)
    mw = 4 if quick else 6
    mt = 900 if quick else 9000
    ndocs = 260 if quick else 3000
    fut_e = submit_emission(ex, tier, seed)
    fut_d = ex.submit(docs.walks, ndocs, max_steps=45, step_posts=False, seed=seed + 15, tag="c15_docs", ck=ck, timeout=3000)
    fut_m = [(tag, ex.submit(run_model, tag, over, live, mw, mt)) for tag, over, live in model_configs(tier)]
    fut_n = [(tag, want, ex.submit(run_negative, tag, over, spec, props, 2, mt))
             for tag, over, spec, props, want in negative_configs(tier)]
    stats = {"ok": 0, "depth": 0, "missing": 0, "depth+missing": 0, "skipped_docs": 0}
    graphs = []
    try:
        for tag, f in fut_e:
            r, gs = f.result()
            ck.add_tlc(tag, r)
            graphs += gs
        hs = fut_d.result()
        usable = [h for h in hs if len(include_free(h)) >= 8]
        if len(usable) < ndocs * 0.3:
            raise common.MachineryFailure("only %d usable documents" % len(usable))
        rng = random.Random(seed * 7919 + 15)
        # (the public functions build a Parser per call, 165 ms: every third graph in the quick tier, the
        #  first 1500 and every twentieth afterwards in the thorough tier; the others go through the same
        #  Parser methods - parse_file, load, parse - on a reused Parser)
        jobs = []
        for idx, g in enumerate(graphs):
            h = usable[rng.randrange(len(usable))]
            public = (idx % 3 == 0) if quick else (idx < 1500 or idx % 20 == 0)
            jobs.append((g, h, seed * 100000 + idx, seed * 100003 + idx, idx, public, idx % (8 if quick else 16) == 0))
        with pool:
            for idx, ev, found, sample in pool.imap_unordered(_pool_job, jobs, chunksize=4):
                g = graphs[idx]
                ck.count(ev)
                if sample:
                    ck.sample(sample)
                if ev:
                    stats["+".join(sorted(g["allowed"])) or "ok"] += 1
                    ck.nontrivial(json.dumps([g["fs"], g["dir"], g["entry"], g["cwd0"]], sort_keys=True))
                for sig, what, rcase in found:
                    if sig == "MACHINERY":
                        raise common.MachineryFailure(what)
                    if sig == "SKIP":
                        stats["skipped_docs"] += 1
                        continue
                    ck.violation(sig, what, rcase)
        if stats["skipped_docs"] > 0.2 * len(jobs):
            raise common.MachineryFailure("%d of %d documents rejected by the loader" % (stats["skipped_docs"], len(jobs)))
        for want in ("ok", "depth", "missing"):
            if stats[want] < 10:
                raise common.MachineryFailure("vacuous: only %d graphs of class %s" % (stats[want], want))
        # directives as data on the Reader side
        nreader = check_reader_includes(ck, [h for h in hs if has_include(h)][:60 if quick else 1500], seed)
        # ---- collect the model-checking results
        for tag, f in fut_m:
            r = f.result()
            ck.add_tlc("model_" + tag, r)
            if not r.violated and (r.distinct or 0) < 300:
                raise common.MachineryFailure("model configuration %s explored %s states only" % (tag, r.distinct))
            if r.violated:
                ck.violation("C15|model|%s|%s" % (tag, r.violated),
                             "Includes property %s violated in the model (config %s)" % (r.violated, tag),
                             {"trace": tlc.error_trace(r)[-6:]})
        negs = {}
        for tag, want, f in fut_n:
            r = f.result()
            ck.add_tlc(tag, r)
            negs[tag] = r.violated
            if r.violated not in want:
                raise common.MachineryFailure("negative configuration %s: TLC reported %s, expected one of %s" % (
                    tag, r.violated, sorted(want)))
    finally:
        pool.terminate()
        ex.shutdown(wait=True, cancel_futures=True)
        shutil.rmtree(tmp, ignore_errors=True)
    return ck.finish(exhaustive=False, coverage_extra={
        "graphs": len(graphs), "graphs_by_expected_outcome": stats, "reader_include_documents": nreader,
        "negative_configs_rejected": negs,
        "max_depth_seen": max(max(g["level"]) for g in graphs),
        "max_fanout_seen": max(sum(1 for ln in f if ln["k"] == "i") for g in graphs for f in g["fs"])})


def replay(path):
    with open(path) as f:
        rec = json.load(f)
    case = rec["case"]
    if "files" not in case:
        print(json.dumps(case, indent=1)[:3000])
        return 1
    tmp = tempfile.mkdtemp(prefix="c15_replay_", dir="/tmp")
    try:
        ev, found = run_case(case, tmp, public=True, keep_public=True)
    finally:
        shutil.rmtree(tmp, ignore_errors=True)
    hit = [x for x in found if x[0] == rec["signature"]]
    for sig, what, extra in found:
        print("%s :: %s %s" % (sig, what, extra))
    print("replay: %d evaluations, signature %s %s" % (ev, rec["signature"], "reproduced" if hit else "NOT reproduced"))
    return 1 if hit else 0
