"""C18 - update / find helpers of mappyfile.dictutils obey their documented laws.

(M) TLC checks the laws on spec/DictUtils.tla itself for every enumerated case: UpdateLaws (untouched keys
    untouched, overwrite=False never replaces, None skips an index, extras appended, deletes delete, key
    order) relate the recursive Update operator to a relational statement of the contract; FindLaws
    (find = first hit, findall = all hits in list order, findunique sorted distinct, findkey = path
    descent).
(G) verdict: every case TLC enumerates - (d1, d2, overwrite) with the expected result, (list, key, value)
    with the expected hits - is printed with the expected result and the expected state of the
    arguments afterwards, concretised as plain dicts AND as Mapfile dicts
    (CaseInsensitiveOrderedDict with default factory), run through the real helpers and compared.
    Patch histories (TLC -simulate) apply each patch to the object the previous call returned.
"""
from __future__ import annotations
import json
from collections.abc import Mapping
from .. import common, impl, tlc, tlcx

RULE = ("all (d1,d2,overwrite) of spec/DictUtils.tla's bounded universes (TLC enumerates the initial states; depth<=2, "
        "<=MaxMention keys per patch incl. deletions/None placeholders/one or two extras/new keys/new object lists; "
        "existing values incl. the falsy '' 0 None) and all (list,key,value) with lists of <=3 (4) items with and "
        "without the key, scalar, falsy and list-valued keywords, scalar and list search values: update/find/findall/findunique/findkey on plain dicts and on "
        "Mapfile dicts return the spec's result and leave the arguments in the spec's post-state; random patch "
        "histories (TLC -simulate) chained on the returned object; the spec satisfies UpdateLaws/FindLaws")

CI = impl.CaseInsensitiveOrderedDict
STR = {0: "", 1: "ab", 2: "abc", 3: "b"}   # interned text: id order = sort order; 1 and 3 are substrings of 2; 0 is falsy
# interned numbers: id order = numeric order, but not the order of their texts (digit counts, signs, a float)
INT = {-2: -10, -1: -2, 0: 0, 1: 1, 2: 2, 3: 3.5, 4: 12, 5: 500, 6: 1000, 7: 25000}
VARIANTS = ("plain", "mapfile")
JVM = {"JAVA_TOOL_OPTIONS": "-XX:ParallelGCThreads=2 -XX:CICompilerCount=2"}
NEGATIVE = {"noneReplaces": ("u", "UpdateLaws"), "ignoreOverwrite": ("u", "UpdateLaws"),
            "extrasDropped": ("u", "UpdateLaws"), "findallReversed": ("f", "FindLaws"),
            "findByMembership": ("f", "FindLaws")}


# ----------------------------------------------------------------------------- concretisation / projection
def build(v, variant):
    t = v["t"]
    if t == "str":
        return STR[v["n"]]
    if t == "int":
        return INT[v["n"]]
    if t == "none":
        return None
    if t == "del":
        return "__delete__"
    if t == "deld":
        d = CI(CI) if variant == "mapfile" else {}
        d["__delete__"] = True
        return d
    if t == "list":
        return [build(e, variant) for e in v["elems"]]
    if t == "dict":
        d = CI(CI) if variant == "mapfile" else {}
        for k, x in v["items"]:
            d[k] = build(x, variant)
        return d
    raise common.MachineryFailure("unknown value tag %r" % t)


def diff(exp, got, path=()):
    """first difference between a spec value and a real value: (path, kind, detail) or None"""
    t = exp["t"]
    if t in ("str", "int"):
        want = STR[exp["n"]] if t == "str" else INT[exp["n"]]
        if type(got) is not type(want) or got != want:
            return path, "value", "expected %r got %r" % (want, got)
        return None
    if t == "none":
        return None if got is None else (path, "value", "expected None got %r" % (got,))
    if t == "del":
        return None if got == "__delete__" else (path, "value", "expected '__delete__' got %r" % (got,))
    if t == "deld":
        ok = isinstance(got, Mapping) and list(got.items()) == [("__delete__", True)]
        return None if ok else (path, "value", "expected {'__delete__': True} got %r" % (got,))
    if t == "list":
        if not isinstance(got, list):
            return path, "type", "expected a list got %s %r" % (type(got).__name__, got)
        if len(got) != len(exp["elems"]):
            return path, "length", "expected %d items got %d: %r" % (len(exp["elems"]), len(got), got)
        for i, e in enumerate(exp["elems"]):
            d = diff(e, got[i], path + (i,))
            if d:
                return d
        return None
    if t == "dict":
        if not isinstance(got, Mapping):
            return path, "type", "expected a dict got %s %r" % (type(got).__name__, got)
        want = [k for k, _ in exp["items"]]
        have = list(got.keys())
        if want != have:
            kind = "order" if sorted(want) == sorted(map(str, have)) else ("extra-key" if set(want) < set(have) else "keys")
            return path, kind, "expected keys %r got %r" % (want, have)
        for k, e in exp["items"]:
            d = diff(e, got[k] if not isinstance(got, CI) else dict.__getitem__(got, k), path + (k,))
            if d:
                return d
        return None
    raise common.MachineryFailure("unknown value tag %r" % t)


def rule_at(d2, path):
    """name of the patch rule responsible for the place where result and expectation differ"""
    node = d2
    rule = "top"
    for p in path:
        if node["t"] == "dict":
            nxt = [x for k, x in node["items"] if k == p]
            if not nxt:
                return rule + ">untouched-key"
            node = nxt[0]
        elif node["t"] == "list":
            ts = {e["t"] for e in node["elems"]}
            if "deld" in ts:
                return rule + ">list-with-delete"
            if not isinstance(p, int) or p >= len(node["elems"]):
                return rule + ">list-beyond-patch"
            node = node["elems"][p]
        else:
            break
        t = node["t"]
        if t == "dict":
            rule = "dict-merge"
        elif t == "list":
            rule = "objlist" if all(e["t"] in ("none", "dict", "deld") for e in node["elems"]) else "scalarlist-replace"
        elif t == "none":
            rule = "list-none-skip"
        elif t in ("del", "deld"):
            rule = "delete"
        else:
            rule = "scalar-replace"
    return rule


def py(v, variant):
    """Python source of a concretised value (for reproductions)"""
    t = v["t"]
    if t in ("str", "int", "none", "del"):
        return repr(build(v, "plain"))
    if t == "deld":
        return "{'__delete__': True}" if variant == "plain" else "M({'__delete__': True})"
    if t == "list":
        return "[%s]" % ", ".join(py(e, variant) for e in v["elems"])
    inner = "{%s}" % ", ".join("%r: %s" % (k, py(x, variant)) for k, x in v["items"])
    return inner if variant == "plain" else "M(%s)" % inner


HEAD = {"plain": "import mappyfile",
        "mapfile": "import mappyfile; from mappyfile.ordereddict import CaseInsensitiveOrderedDict as C; M = lambda d: C(C, d)"}


# ----------------------------------------------------------------------------- update
def check_update(ck, case, variant, d1=None, origin="enum", follow=True, earlier_patches=None, keep=None):
    """run one (d1, d2, ow) case; returns the object the real update returned (None after a violation)"""
    v2 = "mapfile" if variant == "mapfile2" else "plain"
    v1 = "mapfile" if variant.startswith("mapfile") else "plain"
    if d1 is None:
        d1 = build(case["d1"], v1)
    d2 = build(case["d2"], v2)
    if keep is not None:
        keep.append((case["d2"], d2))
    ow = case["ow"]
    ck.count()
    repro = [HEAD["mapfile" if "mapfile" in (v1, v2) else "plain"],
             "d1 = %s; d2 = %s" % (py(case["d1"], v1), py(case["d2"], v2)),
             "print(mappyfile.update(d1, d2%s))   # contract: %s" % ("" if ow else ", overwrite=False", py(case["res"], "plain"))]
    info = {"variant": variant, "case": case, "python": repro, "origin": origin}
    tops = "+".join(sorted({x["t"] for _, x in case["d2"]["items"]}))
    try:
        res = impl.dictutils.update(d1, d2, ow) if not ow else impl.dictutils.update(d1, d2)
    except Exception as ex:  # noqa: BLE001
        ck.violation("C18|update|%s|raised-%s|patch=%s|ow=%s" % (variant, type(ex).__name__, tops, ow),
                     "update raised %s: %s" % (type(ex).__name__, str(ex)[:100]), info)
        return None
    if res is not d1:
        ck.violation("C18|update|%s|returns-other-object" % variant, "update did not return d1", info)
        return None
    df = diff(case["res"], res)
    if df:
        path, kind, detail = df
        ck.violation("C18|update|%s|%s|%s|ow=%s" % (variant, rule_at(case["d2"], path), kind, ow),
                     "update result differs from the contract at %s: %s" % (list(path), detail), info)
        return None
    df = diff(case["d2"], d2)
    if df:
        ck.violation("C18|update|%s|d2-mutated" % variant, "the patch dictionary was changed at %s: %s" % (list(df[0]), df[2]), info)
        return None
    for earlier_spec, earlier in earlier_patches or ():
        df = diff(earlier_spec, earlier)
        if df:
            ck.violation("C18|update|%s|earlier-patch-changed-by-later-update" % variant,
                         "a patch used in an earlier call was changed at %s by this call: %s" % (list(df[0]), df[2]), info)
            return None
    then = case.get("then")
    if follow and then and then.get("t") == "update":
        # second call on the returned object, about the object the first patch introduced
        d3 = build(then["d2"], v2)
        info2 = dict(info, python=repro[:2] + ["d1 = mappyfile.update(d1, d2%s); mappyfile.update(d1, %s); print(d1, d2)   # contract: d2 unchanged"
                                               % ("" if ow else ", overwrite=False", py(then["d2"], v2))])
        ck.count()
        try:
            res2 = impl.dictutils.update(res, d3)
        except Exception as ex:  # noqa: BLE001
            ck.violation("C18|update|%s|follow-up|raised-%s" % (variant, type(ex).__name__), "follow-up update raised %s" % ex, info2)
            return None
        df = diff(then["res"], res2)
        if df:
            ck.violation("C18|update|%s|follow-up|%s|%s" % (variant, rule_at(then["d2"], df[0]), df[1]),
                         "result of the follow-up update differs from the contract at %s: %s" % (list(df[0]), df[2]), info2)
            return None
        df = diff(case["d2"], d2)
        if df:
            ck.violation("C18|update|%s|follow-up|first-patch-changed" % variant,
                         "updating the result changed the dictionary used as the first patch at %s: %s (the result shares "
                         "objects with the patch)" % (list(df[0]), df[2]), info2)
            return None
    return res


# ----------------------------------------------------------------------------- find helpers
def key_arg(case):
    return case["key"].upper() if case.get("kc") == "U" else case["key"]


def lacks_key(case):
    return any(all(k != case["key"] for k, _ in it["items"]) for it in case["lst"]["elems"])


def check_find(ck, case, variant):
    kind = case["kind"]
    ck.count()
    if kind == "findkey":
        return check_findkey(ck, case, variant)
    lst = build(case["lst"], variant)
    key = key_arg(case)
    fn = getattr(impl.dictutils, kind)
    args = (lst, key) if kind == "findunique" else (lst, key, build(case["val"], "plain"))
    call = "mappyfile.%s(lst, %r%s)" % (kind, key, "" if kind == "findunique" else ", " + py(case["val"], "plain"))
    repro = [HEAD[variant], "lst = %s" % py(case["lst"], variant), "print(%s, lst)" % call]
    info = {"variant": variant, "case": case, "python": repro}
    missing = lacks_key(case)
    mclass = "missing-key" if missing else "all-have-key"
    try:
        res = fn(*args)
    except Exception as ex:  # noqa: BLE001
        en = type(ex).__name__
        if missing and en == "KeyError":
            sig = "C18|%s|missing-key|%s-KeyError" % (kind, variant)
        elif kind == "findall" and en == "TypeError" and (case["val"]["t"] == "int" or any(
                x["t"] == "int" for it in case["lst"]["elems"] for k, x in it["items"] if k == case["key"])):
            # `item[key] in value` with a number on either side (same root as the substring matching)
            sig = "C18|findall|nonstring-value|TypeError"
        else:
            sig = "C18|%s|%s|%s|raised-%s" % (kind, mclass, variant, en)
        ck.violation(sig, "%s raised %s: %s (contract: %s)" % (call, en, str(ex)[:80], expected_text(case)), info)
        return
    exp = case["res"]
    bad = None
    if exp["t"] == "none":
        if res is not None:
            bad = "expected None got %r" % (res,)
    elif exp["t"] == "item":
        if res is not lst[exp["i"] - 1]:
            bad = "expected the item at index %d, got %r" % (exp["i"] - 1, res)
    elif exp["t"] == "items":
        want = [lst[i - 1] for i in exp["idx"]]
        if not isinstance(res, list) or len(res) != len(want) or any(a is not b for a, b in zip(res, want)):
            bad = "expected the items at indexes %r, got %r" % ([i - 1 for i in exp["idx"]], res)
    elif exp["t"] == "values":
        want = [build(x, "plain") for x in exp["vals"]]
        if res != want or [type(x) for x in res] != [type(x) for x in want]:
            bad = "expected %r got %r" % (want, res)
    if bad:
        sig = "C18|%s|%s|%s|result" % (kind, mclass, variant)
        if kind == "findall" and case["val"]["t"] == "str" and isinstance(res, list):
            val = build(case["val"], "plain")
            extra = [x for x in res if not any(x is lst[i - 1] for i in exp["idx"])]
            kept = all(any(x is lst[i - 1] for x in res) for i in exp["idx"])
            if extra and kept and all(isinstance(x.get(case["key"]), str) and x.get(case["key"]) in val for x in extra):
                sig = "C18|findall|substring"
        ck.violation(sig, "%s: %s" % (call, bad), info)
    df = diff(case["lst"], lst)
    if df:
        path, k, detail = df
        if missing and variant == "mapfile" and k == "extra-key":
            sig = "C18|%s|missing-key|mapfile-dict-mutated" % kind
        else:
            sig = "C18|%s|%s|%s|list-changed" % (kind, mclass, variant)
        ck.violation(sig, "%s changed its list argument at %s: %s" % (call, list(path), detail), info)


def expected_text(case):
    e = case["res"]
    if e["t"] == "none":
        return "None"
    if e["t"] == "item":
        return "lst[%d]" % (e["i"] - 1)
    if e["t"] == "items":
        return "[%s]" % ", ".join("lst[%d]" % (i - 1) for i in e["idx"])
    return repr([build(x, "plain") for x in e.get("vals", [])])


def check_findkey(ck, case, variant):
    if case.get("only", "both") not in ("both", variant):
        return
    d = build(case["d"], variant)
    up = case.get("kc") == "U"
    path = [(p["k"].upper() if up else p["k"]) if p["t"] == "key" else p["i"] - 1 for p in case["path"]]
    repro = [HEAD[variant], "d = %s" % py(case["d"], variant), "print(mappyfile.findkey(d, *%r))" % (path,)]
    info = {"variant": variant, "case": case, "python": repro}
    want = d
    for p in path:                       # the very object at the path (navigation with the dict / list API)
        want = want[p]
    try:
        res = impl.dictutils.findkey(d, *path)
    except Exception as ex:  # noqa: BLE001
        ck.violation("C18|findkey|%s|%s|raised-%s" % (variant, path_class(case), type(ex).__name__),
                     "findkey(d, *%r) raised %s: %s" % (path, type(ex).__name__, ex), info)
        return
    df = diff(case["res"], res)
    if df or (res is not want and isinstance(res, (Mapping, list))):
        ck.violation("C18|findkey|%s|%s|result" % (variant, path_class(case)),
                     "findkey(d, *%r): %s" % (path, df[2] if df else "returned a copy, not the element"), info)
    df = diff(case["d"], d)
    if df:
        ck.violation("C18|findkey|%s|argument-changed" % variant, "findkey changed its argument at %s" % (list(df[0]),), info)


def path_class(case):
    ks = [p["k"] for p in case["path"] if p["t"] == "key"]
    if case.get("kc") == "U":
        return "upper-case-path"
    return "mixed-case-key" if any(k != k.lower() for k in ks) else "lower-case-path"


# ----------------------------------------------------------------------------- TLC jobs
def constants(big=False, mention=2, maxlist=2, vary=3, kinds=("find", "findall", "findunique", "findkey"), ow=(False, True), names=(0, 1, 2, 3), hist=3, bug="none"):
    return {"Big": big, "MaxMention": mention, "MaxList": maxlist, "Vary": vary, "FindKinds": set(kinds),
            "OwSet": "@{%s}" % ", ".join("TRUE" if o else "FALSE" for o in ow), "NameOpts": set(names),
            "MaxHist": hist, "Bug": bug}


def update_job(tag, **kw):
    cfg = tlc.cfg_text(init="UInit", next_="Stay", constants=constants(**kw), invariants=["UpdateLaws", "Emit"])
    return dict(module="DictUtils", cfg=cfg, tag=tag, workers=1, timeout=3000, heap="3g", env=JVM)


def find_job(tag, **kw):
    cfg = tlc.cfg_text(init="FInit", next_="Stay", constants=constants(**kw), invariants=["FindLaws", "Emit"])
    return dict(module="DictUtils", cfg=cfg, tag=tag, workers=1, timeout=3000, heap="3g", env=JVM)


def hist_job(tag, n, seed, hist=4, **kw):
    cfg = tlc.cfg_text(init="HInit", next_="HNext", constants=constants(hist=hist, **kw), invariants=["UpdateLaws", "EmitHist"])
    return dict(module="DictUtils", cfg=cfg, tag=tag, workers=1, mode="simulate", simulate="num=%d" % n, depth=hist + 2,
                seed=seed, timeout=3000, heap="2g", env=JVM)


def find_jobs(name, **kw):
    return [("find", "%s-%s" % (name, "+".join(k)), find_job("c18_f_%s" % k[0], kinds=k, **kw))
            for k in (("find",), ("findall",), ("findunique", "findkey"))]


def plan(tier, seed):
    jobs = []
    if tier == "quick":
        # v = number of d1 keys that leave their default form (3 = full product of d1 forms)
        for ow in (False, True):
            jobs.append(("update", "m2-l1-v1-ow%d" % ow, update_job("c18_u21_%d" % ow, mention=2, maxlist=1, vary=1, ow=(ow,))))
        jobs.append(("update", "m1-l2-v1", update_job("c18_u12", mention=1, maxlist=2, vary=1)))
        jobs.append(("update", "m1-l1-v3", update_job("c18_u11", mention=1, maxlist=1, vary=3)))
        jobs.append(("update", "big-m1-l2-v1", update_job("c18_ub12", big=True, mention=1, maxlist=2, vary=1)))
        jobs += find_jobs("lists3")
        jobs.append(("history", "h4", hist_job("c18_h", 300, seed + 1)))
    else:
        for ow in (False, True):
            for nm in (0, 1, 2, 3):
                jobs.append(("update", "m2-l2-v2-n%d-ow%d" % (nm, ow), update_job("c18_u22_%d_%d" % (nm, ow), mention=2, maxlist=2,
                                                                                vary=2, names=(nm,), ow=(ow,))))
                jobs.append(("update", "big-m2-l2-v1-n%d-ow%d" % (nm, ow), update_job("c18_ub22_%d_%d" % (nm, ow), big=True, mention=2,
                                                                                    maxlist=2, vary=1, names=(nm,), ow=(ow,))))
                jobs.append(("update", "m4-l1-v3-n%d-ow%d" % (nm, ow), update_job("c18_u41_%d_%d" % (nm, ow), mention=4, maxlist=1,
                                                                                vary=3, names=(nm,), ow=(ow,))))
        jobs += find_jobs("lists4", big=True, maxlist=1)
        for i in range(4):
            jobs.append(("history", "h5-%d" % i, hist_job("c18_h%d" % i, 2500, seed * 10 + i + 1, hist=5, big=True)))
    for bug, (which, _) in NEGATIVE.items():
        if which == "u":
            jobs.append(("negative", bug, update_job("c18_neg_%s" % bug, mention=1, maxlist=1, vary=1, bug=bug)))
        else:
            jobs.append(("negative", bug, find_job("c18_neg_%s" % bug, kinds=("find",) if bug == "findByMembership" else ("findall",),
                                                   bug=bug)))
    return jobs


def work(args):
    tier, (kind, name, job) = args
    ck = common.Check("C18", tier, "model_checking", RULE)
    rn = "%s-%s" % (kind, name)
    r = tlcx.run(**job)
    s = r.summary()
    s["run"] = rn
    cov = {"update_cases": 0, "find_cases": 0, "histories": 0}
    if kind == "negative":
        if r.violated != NEGATIVE[name][1]:
            raise common.MachineryFailure("negative config %s: TLC reported %r, expected a violation of %s" % (name, r.violated, NEGATIVE[name][1]))
        s["run"] = rn + " (wrong variant, rejected as expected)"
    elif r.violated:
        ck.violation("C18|model|%s" % r.violated, "spec/DictUtils.tla: %s violated in run %s" % (r.violated, rn),
                     {"trace": tlc.error_trace(r)})
    elif kind == "update":
        cases = [p for p in r.prints if isinstance(p, dict) and p.get("kind") == "update"]
        if len(cases) != r.distinct:
            raise common.MachineryFailure("%s: %d cases printed, %s distinct initial states" % (rn, len(cases), r.distinct))
        for c in cases:
            cov["update_cases"] += 1
            ck.nontrivial("%s|%s" % (rule_signature(c), c["ow"]))
            for variant in ("plain", "mapfile", "mapfile2"):
                check_update(ck, c, variant)
        ck.sample({"run": rn, "case": cases[len(cases) // 2]})
    elif kind == "find":
        cases = [p for p in r.prints if isinstance(p, dict) and p.get("kind", "").startswith("find")]
        if len(cases) != r.distinct:
            raise common.MachineryFailure("%s: %d cases printed, %s distinct initial states" % (rn, len(cases), r.distinct))
        for c in cases:
            cov["find_cases"] += 1
            ck.nontrivial("%s|%s|%s" % (c["kind"], json.dumps(c["res"], sort_keys=True)[:60], lacks_key(c) if "lst" in c else ""))
            for variant in VARIANTS:
                check_find(ck, c, variant)
        ck.sample({"run": rn, "case": cases[len(cases) // 2]})
    else:
        hs = [p for p in r.prints if isinstance(p, list)]
        if not hs:
            raise common.MachineryFailure("%s: no history printed" % rn)
        for j, h in enumerate(hs):
            cov["histories"] += 1
            ck.nontrivial(json.dumps([c["d2"] for c in h], sort_keys=True))
            variant = ("plain", "mapfile", "mapfile2")[j % 3]
            d1 = None
            used = []                        # (spec value, real object) of every patch of this history
            for c in h:
                d1 = check_update(ck, c, variant, d1=d1, origin="history", follow=False, earlier_patches=list(used), keep=used)
                if d1 is None:
                    break
    return {"tlc": s, "cov": cov, "violations": ck.violations, "known": ck.known_hits, "n": ck.evaluations,
            "distinct": ck.distinct, "samples": ck.samples}


def rule_signature(c):
    def sh(v):
        if v["t"] == "dict":
            return "{%s}" % ",".join("%s:%s" % (k, sh(x)) for k, x in v["items"])
        if v["t"] == "list":
            return "[%s]" % ",".join(sh(x) for x in v["elems"])
        return v["t"]
    return "%s <- %s" % (sh(c["d1"]), sh(c["d2"]))


def run(tier):
    import multiprocessing
    ck = common.Check("C18", tier, "model_checking", RULE)
    jobs = plan(tier, ck.seed)
    with multiprocessing.get_context("fork").Pool(processes=8) as pool:
        results = pool.map(work, [(tier, j) for j in jobs], chunksize=1)
    cov = {"update_cases": 0, "find_cases": 0, "histories": 0}
    for res in results:
        ck.tlc.append(res["tlc"])
        for k in cov:
            cov[k] += res["cov"][k]
        for s, v in res["violations"].items():
            ck.violations.setdefault(s, v)
        ck.known_hits.update(res["known"])
        ck.evaluations += res["n"]
        ck.distinct |= res["distinct"]
        for x in res["samples"][:1]:
            ck.sample(x, limit=4)
    if not cov["update_cases"] or not cov["find_cases"] or not cov["histories"]:
        raise common.MachineryFailure("vacuous run: %r" % cov)
    return ck.finish(exhaustive=True, coverage_extra=cov)


def replay(path):
    with open(path) as f:
        rec = json.load(f)
    info = rec["case"]
    ck = common.Check("C18", "replay", "model_checking", RULE)
    print("\n".join(info.get("python", [])))
    case = info.get("case")
    if case and case.get("kind") == "update":
        check_update(ck, case, info["variant"])
    elif case:
        check_find(ck, case, info["variant"])
    for s, (w, _) in ck.violations.items():
        print("VIOLATION property=C18 replay=%s  # %s :: %s" % (path, s, w))
    for s, w in ck.known_hits.items():
        print("KNOWN-FINDING: property=C18 %s [%s]" % (w, s))
    return 1 if ck.violations else 0
