"""C02 - parsed dictionary follows the documented text-to-dict contract.

(M) TLC checks the Reader invariants on every document of <= N builder actions over the whole
    extracted vocabulary.
(G) verdict: behaviours emitted by TLC (slot probes: exhaustive product; walks: simulate) are
    rendered by the independent renderer and loaded by the real code; the dict must equal the
    dict spec/Reader.tla predicts - after every builder action when the behaviour carries
    per-step posts (every prefix closed with the pending ENDs is itself a document).
"""
from __future__ import annotations
from .. import common, docs, concretise, project, impl, tlc

RULE = ("project(loads(render(behaviour))) == dict predicted by spec/Reader.tla (typed, ordered), "
        "after every builder action; Reader invariants hold on all bounded documents")


def slot_sig(a):
    if a["a"] == "attr":
        return "%s:%s" % (a["key"], a["val"]["sh"])
    if a["a"] in ("open",):
        return "open:%s" % a["type"]
    return a["a"]


_default_loader = None


def check_behaviour(ck, conc, loads, hist, origin, per_step):
    global _default_loader
    root = docs.root_type(hist)
    if origin != "public-loads" and not any(a["a"] == "repeated" and a["key"] == "include" for a in hist):
        # include-free documents go through the default front end (expand_includes=True)
        if _default_loader is None:
            _default_loader = impl.loader(expand_includes=True)
        loads = _default_loader
    steps = range(len(hist) - 1) if per_step else [len(hist) - 1]
    ok = True
    for i in steps:
        act = hist[i]
        if per_step and not act.get("post"):
            continue
        post = act["post"] if act.get("post") else hist[-1]["post"]
        prefix = hist[: i + 1]
        toks = conc.tokens(concretise.with_root(prefix, root))
        text, _ = concretise.assemble(toks)
        ck.count()
        exp = conc.expected(post)
        try:
            d = loads(text)
        except Exception as ex:  # noqa: BLE001
            info = hist[-1].get("info")
            where = ("%s.%s:%s:%s@%s" % (tuple(info["slot"][:3]) + (info["slot"][3], info["pos"]))) if info else \
                ("%s|%s" % (root, slot_sig(act)))
            ck.violation("C02|rejected|%s|%s" % (where, type(ex).__name__),
                         "well-formed generated document rejected (%s): %s" % (type(ex).__name__, str(ex)[:120]),
                         {"text": text, "behaviour": prefix, "origin": origin})
            return False
        got = project.project(d)
        df = project.diff(exp, got)
        if df:
            path, kind, e, g = df
            info = hist[-1].get("info")
            where = ("%s.%s:%s" % tuple(info["slot"][:3])) if info else root
            ck.violation("C02|%s|%s|%s" % (kind, where, project.path_sig(path)),
                         "dict differs from the contract at %s: %s expected %s got %s" % (list(path), kind, e, g),
                         {"text": text, "behaviour": prefix, "expected": exp, "got": got, "origin": origin})
            ok = False
            break
    return ok


def run(tier):
    ck = common.Check("C02", tier, "model_checking", RULE)
    seed = ck.seed
    quick = tier == "quick"
    # (M)
    r = docs.model_check_reader(ck, max_steps=2 if quick else 3, ids=(1, 2) if quick else (1,),
                                timeout=300 if quick else 3000)
    if r.violated:
        ck.violation("C02|model|%s" % r.violated, "Reader invariant %s violated in the model" % r.violated,
                     {"trace": tlc.error_trace(r)})
    loads = impl.loader(expand_includes=False)   # INCLUDE is data here (C15 covers expansion)
    # (G) slot probes - exhaustive product
    sl = docs.slots(ck=ck)
    conc = concretise.Concretiser(seed)
    for h in sl:
        check_behaviour(ck, conc, loads, h, "slots", per_step=False)
        ck.nontrivial(h[:-1])
    # PROJECTION probes again with the definition strings people write (upper-case authority names, + parameters)
    for sp in (["init=EPSG:3857"], ["init=ESRI:102100", "+proj=longlat +datum=WGS84"], ["proj=utm", "zone=15", "ellps=GRS80"]):
        concp = concretise.Concretiser(seed, strings=sp)
        for h in sl:
            if h[-1]["info"]["slot"][2] == "projection":
                check_behaviour(ck, concp, loads, h, "slots", per_step=False)
    ck.sample({"slot_probe": sl[7][-1]["info"], "text": concretise.assemble(conc.tokens(concretise.with_root(sl[7], docs.root_type(sl[7]))))[0]})
    # (G) walks with per-step posts
    n1 = 300 if quick else 4000
    hs = docs.walks(n1, max_steps=25, step_posts=True, seed=seed + 1, tag="walks_step", ck=ck)
    for j, h in enumerate(hs):
        conc = concretise.Concretiser(seed * 1000 + j)
        check_behaviour(ck, conc, loads, h, "walk", per_step=True)
        ck.nontrivial(h[:-1])
    ck.sample({"walk": hs[0][:-1][:6]})
    # (G) long walks, final dict only
    n2 = 40 if quick else 1500
    hl = docs.walks(n2, max_steps=150 if quick else 400, step_posts=False, seed=seed + 2, tag="walks_long", ck=ck,
                    timeout=3000)
    for j, h in enumerate(hl):
        conc = concretise.Concretiser(seed * 1000 + 500 + j)
        check_behaviour(ck, conc, loads, h, "longwalk", per_step=False)
        ck.nontrivial(h[:-1])
    # several blocks at the root: loads returns the list of their dicts, in source order (one block: the dict itself)
    for j in range(0, min(len(hs) - 3, 90 if quick else 1200), 3):
        group = [h for h in hs[j:j + (2 if j % 2 else 3)] if docs.root_type(h) != "symbolset"]   # SYMBOLSET is a whole-file form
        if len(group) < 2:
            continue
        conc = concretise.Concretiser(seed * 1000 + 900 + j)
        texts, exps = [], []
        for h in group:
            t, _ = concretise.assemble(conc.tokens(concretise.with_root(h, docs.root_type(h))))
            texts.append(t)
            exps.append(conc.expected(h[-1]["post"]))
        text = "\n".join(texts)
        ck.count()
        try:
            d = loads(text)
        except Exception as ex:  # noqa: BLE001
            ck.violation("C02|rejected|rootlist|%s" % type(ex).__name__, "a list of well-formed blocks at the root is rejected: %s" % str(ex)[:100], {"text": text})
            continue
        got = project.project(d)
        df = project.diff(exps, got) if isinstance(got, list) else ((), "root-not-a-list", len(exps), type(d).__name__)
        if df:
            ck.violation("C02|%s|rootlist|%s" % (df[1], project.path_sig(df[0])), "root list differs from the contract: %r" % (df,), {"text": text})
    # the public per-call API on a sample (fresh worker objects)
    import mappyfile
    for j, h in enumerate(hs[:15 if quick else 100]):
        conc = concretise.Concretiser(seed * 1000 + j)
        check_behaviour(ck, conc, lambda t: mappyfile.loads(t, expand_includes=False), h, "public-loads", per_step=False)
    from .. import quoting
    quoting.run(ck, "C02", tier, impl.loader(expand_includes=True), impl.dumper)
    from .. import numlex as numbers
    numbers.run(ck, "C02", tier, impl.loader(expand_includes=True), None)
    from .. import hexlex
    hexlex.run(ck, "C02", tier, impl.loader(expand_includes=True), None)
    from .. import regexlex
    regexlex.run(ck, "C02", tier, impl.loader(expand_includes=True), None)
    from .. import bindlex
    bindlex.run(ck, "C02", tier, impl.loader(expand_includes=True), None)
    return ck.finish(exhaustive=False, coverage_extra={
        "slot_probes": len(sl), "walks_per_step": len(hs), "walks_long": len(hl)})
