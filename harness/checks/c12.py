"""C12 - calls are pure, history-independent and safe to run concurrently.

(M) spec/Calls.tla: the four worker classes with their mutable fields, every public call as a
    sequence of atomic steps.  TLC checks ArgsUnchanged (action property) and SeqEquivalent (every
    completed call returned F(its arguments)) for every interleaving of 2 (thorough: 3) threads
    under Policy="fresh" (what utils.py does) and for every history of <= 4 calls on re-used
    workers; six negative configurations (shared parser, shared validator, buffer not cleared, cache
    keyed without version, lower-casing in place, find inserting) must be rejected.
(G) verdict on the real code:
    (a) purity   - deep snapshots of every argument around every public call; the NDJSON trace is
                   judged by spec/TraceCalls.tla (UNCHANGED-args clause per call kind)
    (b) re-use   - call histories simulated by TLC replayed on ONE set of worker objects; every
                   result must equal the result of the same call on fresh objects and the abstract
                   value the specification attaches to it
    (c) schedules- TLC enumerates every interleaving of two (three) calls at the chosen seam points;
                   each one is forced on real threads (run-time seams, harness/c12lib.py); results
                   must equal the sequential ones, arguments must be unchanged.  Plus a
                   free-running run: 16 threads per process, switch interval 1e-6 s.
"""
from __future__ import annotations
import glob
import json
import math
import multiprocessing
import os
import random
import time
from concurrent.futures import ThreadPoolExecutor

from .. import common, docs as docsmod, concretise, tlc
from .. import c12lib as L

RULE = ("args unchanged by loads/dumps/validate/find* (deep snapshots, judged by spec/TraceCalls.tla); results on "
        "re-used worker objects == results on fresh objects == value predicted by spec/Calls.tla; results under "
        "every TLC-enumerated forced thread interleaving and under free-running threads == sequential results")

PURE = ["loads", "dumps", "validate", "find", "findall", "findunique", "findkey"]
CORE = ["loads", "dumps", "validate", "findall"]
ALLDOCS = [1, 2, 3, 4, 5, 6, 7, 8, 9, 10, 11, 12, 13, 14]
BUILD = os.path.join(common.VERIF, "build")
RUN = "%d" % os.getpid()        # run directories and scratch files are private to this run (two C12 runs may overlap)


def calls_cfg(threads, policy, kinds, docs, maxcalls, maxper, clears=True, keyv=True, lower=True, finds=False,
              inccache="none", fmtcopy=True, cdictnew=True, incresolve="join", deptharg=True, expglobal=False,
              typesroot=False, record=False, mode="free",
              invs=("SeqEquivalent", "TypeOK", "CwdRestored"), props=("ArgsUnchanged",)):
    return tlc.cfg_text(constants={
        "Threads": set(threads), "Policy": policy, "Mode": mode, "Kinds": set(kinds), "Docs": set(docs),
        "MaxCalls": maxcalls, "MaxPerThread": maxper, "ClearsBuf": clears, "KeyByVersion": keyv,
        "LowerOnCopy": lower, "FindInserts": finds, "IncCache": inccache, "FormatOnCopy": fmtcopy,
        "CdictRebuilt": cdictnew, "IncResolve": incresolve, "DepthInArg": deptharg, "ExpCacheGlobal": expglobal,
        "TypesRoot": typesroot,
        "Record": record}, invariants=list(invs), properties=list(props))


def run_calls(name, cfg, script=None, workers=1, timeout=300, **kw):
    path = script or os.path.join(BUILD, "c12_%s_empty_script.json" % RUN)
    if script is None and not os.path.exists(path):
        os.makedirs(BUILD, exist_ok=True)
        with open(path, "w") as f:
            f.write("[]")
    r = tlc.run("Calls", cfg, tag="c12_%s_%s" % (RUN, name), workers=workers, env={"C12_SCRIPT": path}, timeout=timeout, **kw)
    if "is specified as UNCHANGED" in r.out:
        raise common.MachineryFailure("spec/Calls.tla: TLC warns about a variable changed although UNCHANGED (%s)" % name)
    return r


NEGATIVES = [
    # name, cfg kwargs, property TLC has to report
    ("neg_shared_parser", dict(threads=[1, 2], policy="shared_parser", kinds=["loads"], docs=[1, 3, 4], maxcalls=2, maxper=1),
     "SeqEquivalent"),
    ("neg_shared_validator", dict(threads=[1, 2], policy="shared_validator", kinds=["validate", "dumps"], docs=[4, 5],
                                  maxcalls=2, maxper=1), "SeqEquivalent"),
    ("neg_buffer_not_cleared", dict(threads=[1], policy="shared_all", kinds=["loads"], docs=[1, 2, 3], maxcalls=3, maxper=3,
                                    clears=False), "SeqEquivalent"),
    ("neg_cache_key_no_version", dict(threads=[1], policy="shared_all", kinds=["validate"], docs=[4, 5], maxcalls=3, maxper=3,
                                      keyv=False), "SeqEquivalent"),
    ("neg_include_cache_by_name", dict(threads=[1], policy="shared_all", kinds=["loads"], docs=[1, 7, 8], maxcalls=2, maxper=2,
                                       inccache="by_name"), "SeqEquivalent"),
    ("neg_comments_dict_kept", dict(threads=[1], policy="shared_all", kinds=["loads"], docs=[4, 10], maxcalls=2, maxper=2,
                                    cdictnew=False), "SeqEquivalent"),
    ("neg_include_via_chdir", dict(threads=[1, 2], policy="fresh", kinds=["loads"], docs=[7, 8, 9], maxcalls=2, maxper=1,
                                   incresolve="chdir"), "SeqEquivalent"),
    ("neg_include_depth_on_parser", dict(threads=[1], policy="shared_all", kinds=["loads"], docs=[7, 11, 12, 13], maxcalls=2,
                                         maxper=2, deptharg=False), "SeqEquivalent"),
    ("neg_schema_cache_process_wide", dict(threads=[1, 2], policy="fresh", kinds=["validate", "dumps"], docs=[4, 5], maxcalls=2,
                                           maxper=1, expglobal=True), "SeqEquivalent"),
    ("neg_validate_types_root", dict(threads=[1], policy="fresh", kinds=["validate"], docs=[4, 14], maxcalls=2, maxper=2,
                                     typesroot=True), "ArgsUnchanged"),
    ("neg_format_in_place", dict(threads=[1], policy="fresh", kinds=["dumps"], docs=[1, 4], maxcalls=2, maxper=2,
                                 fmtcopy=False), "ArgsUnchanged"),
    ("neg_lower_in_place", dict(threads=[1], policy="fresh", kinds=["validate"], docs=[4, 5], maxcalls=2, maxper=2,
                                lower=False), "ArgsUnchanged"),
    ("neg_find_inserts", dict(threads=[1], policy="fresh", kinds=["find", "findall"], docs=[1, 4], maxcalls=2, maxper=2,
                              finds=True), "ArgsUnchanged"),
]


def D(kind, doc, com=False, ver=0, key="all"):
    return {"kind": kind, "doc": doc, "com": com, "ver": ver, "key": key}


def pick_seams(desc, n, doctable, rng):
    pcs = L.model_pcs(desc, doctable)
    n = min(n, len(pcs))
    must = []
    if desc["kind"] == "loads" and desc["com"]:
        hot = [p for p in pcs if p in ("lex2", "lex3", "cdict", "assign")]
        if hot:
            must = [rng.choice(hot)]
    if desc["kind"] == "validate" and desc["ver"] and n >= 2:
        must.append(rng.choice(["prune1", "prune2"]))      # in the middle of the in-place pruning of the cached schema
    if "iresolve" in pcs and n >= 2:
        must.append("iresolve")        # inside the include step: path resolution is where process-wide state matters
    rest = [p for p in pcs if p not in must]
    chosen = set(must + rng.sample(rest, n - len(must)))
    return [p for p in pcs if p in chosen]


def make_scripts(doctable, rng, quick):
    """[(script, variants)] - script: per thread a list of calls with their seam points"""
    a, b = (4, 3) if quick else (6, 5)
    c = 2 if quick else 5
    pairs = [
        (D("loads", 1, True), D("loads", 1, True), a - 1 if quick else a, a, "same"),
        (D("loads", 1, True), D("loads", 4, True), c, b, "diff"),
        (D("loads", 3, True), D("loads", 5, True), b, c, "diff"),
        (D("loads", 1, True), D("loads", 4, False), b, c, "diff"),
        (D("loads", 4, True), D("dumps", 4), b, 3, "same"),
        (D("loads", 5, True), D("validate", 5, ver=76), b, b, "same"),
        (D("dumps", 1), D("dumps", 1), 3, 3, "same"),
        (D("dumps", 5), D("validate", 5, ver=80), 3, b if quick else b + 1, "same"),
        (D("validate", 4, ver=76), D("validate", 4, ver=80), b, b if quick else b + 1, "same"),
        (D("validate", 5, ver=80), D("validate", 5, ver=80), b, b, "same"),
        (D("validate", 4, ver=0), D("validate", 4, ver=76), c, b, "same"),
        (D("findall", 1), D("dumps", 1), 1, 3, "same"),
        (D("findall", 4), D("validate", 4, ver=80), 1, b + 1, "same"),
        (D("findall", 1), D("findall", 1), 1, 1, "same"),
        (D("findunique", 1, key="some"), D("loads", 1, True), 1, b, "same"),
        (D("findkey", 4), D("dumps", 4), 1, 3, "same"),
        # two documents in different folders with a same-named relative INCLUDE, read through open/load
        (D("loads", 7, True), D("loads", 8, True), c, b, "same"),
        # text whose include is relative to the working directory, next to a file opened elsewhere
        (D("loads", 9, False), D("loads", 8, False), c, c, "same"),
    ]
    out = []
    for x, y, nx, ny, rel in pairs:
        sx = dict(x, seams=pick_seams(x, nx, doctable, rng))
        sy = dict(y, seams=pick_seams(y, ny, doctable, rng))
        v = rng.randrange(2)
        out.append(([[sx], [sy]], [[v], [v if rel == "same" else 1 - v]]))
    if not quick:
        triples = [
            (D("loads", 1, True), D("loads", 1, True), D("loads", 4, True)),
            (D("loads", 5, True), D("dumps", 5), D("validate", 5, ver=80)),
            (D("validate", 4, ver=76), D("validate", 4, ver=80), D("findall", 4)),
        ]
        for tr in triples:
            sc = [[dict(c, seams=pick_seams(c, 2, doctable, rng))] for c in tr]
            v = rng.randrange(2)
            out.append((sc, [[v], [v], [v]]))
        # two calls per thread: the second call of a thread meets the first of the other
        sc = [[dict(D("loads", 3, True), seams=pick_seams(D("loads", 3, True), 2, doctable, rng)),
               dict(D("loads", 1, True), seams=pick_seams(D("loads", 1, True), 2, doctable, rng))],
              [dict(D("loads", 4, True), seams=pick_seams(D("loads", 4, True), 3, doctable, rng))]]
        out.append((sc, [[0, 0], [0]]))
    return out


def purity_texts(ck, n, seed):
    """documents from spec/Reader.tla walks, comments inserted"""
    hs = docsmod.walks(n, max_steps=25, step_posts=False, seed=seed + 12, tag="c12_%s_walks" % RUN, ck=ck)
    rng = random.Random(seed)
    out = []
    for j, h in enumerate(hs):
        conc = concretise.Concretiser(seed * 1000 + j, no_multiline=True)
        toks = conc.tokens(concretise.with_root(h, docsmod.root_type(h)))
        text, _ = concretise.assemble(toks)
        lines = text.split("\n")
        res = []
        for i, ln in enumerate(lines):
            if ln.strip() and rng.random() < 0.15:
                res.append("# above %d" % i)
            if ln.strip() and rng.random() < 0.3:
                ln = ln + " # eol %d" % i
            res.append(ln)
        out.append(("walk%d" % j, "\n".join(res)))
    return out


def corpus_files(n, seed):
    fs = []
    for sub in ("tests/sample_maps", "tests/mapfiles"):
        fs += sorted(glob.glob(os.path.join(common.REPO, sub, "**", "*.map"), recursive=True))
    rng = random.Random(seed)
    rng.shuffle(fs)
    if n is not None:
        fs = fs[:n]
    return [(os.path.relpath(f, common.REPO), f) for f in fs]


def chunks(xs, n):
    k = max(1, math.ceil(len(xs) / max(1, n)))
    return [xs[i:i + k] for i in range(0, len(xs), k)]


def sched_key(sched):
    return " ".join("%d:%s" % (e["t"], e["at"]) for e in sched)


def run(tier):
    ck = common.Check("C12", tier, "model_checking", RULE)
    seed = ck.seed
    quick = tier == "quick"
    t0 = time.time()
    nproc = max(4, min(14, (os.cpu_count() or 8) - 2))
    pool = multiprocessing.get_context("fork").Pool(nproc)       # forked before any thread exists
    # processes that stay untouched until the cold-start run: nothing validated or printed in them
    cold = multiprocessing.get_context("fork").Pool(3)
    try:
        return _run(ck, seed, quick, pool, nproc, t0, cold)
    finally:
        pool.terminate()
        cold.terminate()
        cleanup()


def cleanup():
    """scratch files and TLC run directories of this run"""
    import shutil
    for p in glob.glob(os.path.join(BUILD, "c12_%s_*" % RUN)) + glob.glob(os.path.join(BUILD, "tlc", "c12_%s_*" % RUN)):
        if os.path.isdir(p):
            shutil.rmtree(p, ignore_errors=True)
        else:
            try:
                os.remove(p)
            except OSError:
                pass


def _run(ck, seed, quick, pool, nproc, t0, cold):
    rng = random.Random(seed)
    os.makedirs(BUILD, exist_ok=True)
    phases = {}

    def mark(name):
        phases[name] = round(time.time() - t0, 1)
    tmo = 240 if quick else 3000
    ex = ThreadPoolExecutor(5)          # at most five TLC JVMs at a time (next to the worker processes)

    # ---- purity on corpus files starts at once (no TLC input needed)
    files = corpus_files(40 if quick else None, seed)
    pur_jobs = []
    for i, ch in enumerate(chunks(files, nproc if quick else nproc * 3)):
        pur_jobs.append(pool.apply_async(L.task_purity, ({"base": (i + 1) * 100000, "seed": seed * 100 + i, "files": ch,
                                                          "light": quick},)))
    slots_f = ex.submit(docsmod.slots, "c12_%s_slots" % RUN, ck)
    walks_f = ex.submit(purity_texts, ck, 90 if quick else 800, seed)

    # ---- (M) a first tiny run (one of the negative configurations) also delivers the document table
    name0, kw0, want0 = NEGATIVES[-1]
    r0 = run_calls(name0, calls_cfg(**kw0), timeout=tmo)
    mark("first_model_run")
    doctable = next((p["doctable"] for p in r0.prints if isinstance(p, dict) and "doctable" in p), None)
    if not doctable:
        raise common.MachineryFailure("spec/Calls.tla did not print its document table")
    cwd0 = next(p["cwd0"] for p in r0.prints if isinstance(p, dict) and "doctable" in p)
    for a in doctable:
        a["cwd0"] = cwd0            # the label the specification gives the working directory of the process

    root = os.path.join(BUILD, "c12_%s_files" % RUN)
    L.write_files(L.build_docs(doctable, seed, 2, root), root)
    env_job = {"seed": seed, "doctable": doctable, "root": root}
    cold_async = [cold.apply_async(L.task_cold, (dict(env_job, focus=i, variant=(seed + i) % 2),)) for i in range(3)]

    # ---- (G) histories for re-use, schedules (first: the worker processes wait for them)
    nh = 150 if quick else 3000
    hist_f = ex.submit(run_calls, "histories",
                       calls_cfg([1], "shared_all", PURE, ALLDOCS, 8, 8, record=True, invs=("SeqEquivalent", "Emit"), props=()),
                       None, 1, tmo, mode="simulate", simulate="num=%d" % nh, depth=120, seed=seed + 7)
    scripts = make_scripts(doctable, rng, quick)
    spath = os.path.join(BUILD, "c12_%s_script.json" % RUN)
    with open(spath, "w") as f:
        json.dump([s for s, _ in scripts], f)
    sched_f = ex.submit(run_calls, "schedules",
                        calls_cfg([1, 2] if quick else [1, 2, 3], "fresh", [], [], 99, 3, record=True, mode="script",
                                  invs=("SeqEquivalent", "Emit"), props=("ArgsUnchanged",)), spath, 1, tmo)

    # ---- (M) model checks and negative configurations
    model_jobs = {"purity_model(1 thread, 3 calls, all kinds incl. the two mutating ones)": ex.submit(
        run_calls, "purity_model", calls_cfg([1], "fresh", PURE + ["dumps_sep", "validate_addc"], [1, 4, 5, 7], 3, 3), None, 2, tmo)}
    if quick:
        model_jobs["fresh_2threads"] = ex.submit(run_calls, "fresh2", calls_cfg([1, 2], "fresh", PURE, [1, 3, 4, 5, 7, 8, 9, 10, 12, 14], 2, 1),
                                                 None, 4, tmo)
        model_jobs["reuse_4calls"] = ex.submit(run_calls, "reuse4", calls_cfg([1], "shared_all", PURE, ALLDOCS, 4, 4),
                                               None, 2, tmo)
    else:
        model_jobs["fresh_3threads"] = ex.submit(run_calls, "fresh3", calls_cfg([1, 2, 3], "fresh", CORE, [1, 3, 5], 3, 1),
                                                 None, 8, tmo)
        model_jobs["fresh_2threads_2calls"] = ex.submit(run_calls, "fresh2x2", calls_cfg([1, 2], "fresh", PURE, [1, 3, 5, 7, 8], 4, 2),
                                                        None, 4, tmo)
        model_jobs["reuse_6calls"] = ex.submit(run_calls, "reuse6", calls_cfg([1], "shared_all", PURE, ALLDOCS, 6, 6),
                                               None, 2, tmo)
    neg_jobs = {name: ex.submit(run_calls, name, calls_cfg(**kw), None, 1, tmo) for name, kw, _ in NEGATIVES[:-1]}

    # ---- purity on generated documents
    texts = walks_f.result()
    for i, ch in enumerate(chunks(texts, nproc if quick else nproc * 3)):
        pur_jobs.append(pool.apply_async(L.task_purity, ({"base": (50 + i) * 100000, "seed": seed * 100 + 50 + i, "texts": ch,
                                                          "light": quick},)))

    # ---- purity on the slot product (every keyword x value shape)
    slot_hists = slots_f.result()
    for i, ch in enumerate(chunks(slot_hists, nproc * 2)):
        pur_jobs.append(pool.apply_async(L.task_purity_slots, ({"base": (100 + i) * 100000, "seed": seed, "hists": ch},)))

    # ---- schedules -> worker processes
    mark("walks_rendered")
    rs = sched_f.result()
    mark("schedules_enumerated")
    ck.add_tlc("schedules(script mode: every interleaving at the chosen seams)", rs)
    if rs.violated:
        ck.violation("C12|model|%s|schedules" % rs.violated, "model property violated under Policy=fresh",
                     {"trace": tlc.error_trace(rs)})
    by_sid = {}
    for p in rs.prints:
        if isinstance(p, dict) and "sched" in p:
            by_sid.setdefault(p["sid"], []).append(p)
    sched_jobs = []
    expected_counts = {}
    for sid, (script, variants) in enumerate(scripts, 1):
        ps = sorted(by_sid.get(sid, []), key=lambda p: sched_key(p["sched"]))
        ks = [len(c["seams"]) + 1 for calls in script for c in calls]
        if len(script) == 2 and all(len(c) == 1 for c in script):
            expected_counts[sid] = math.comb(sum(ks), ks[0])
            if len(ps) != expected_counts[sid]:
                raise common.MachineryFailure("TLC enumerated %d schedules for script %d, expected %d" % (
                    len(ps), sid, expected_counts[sid]))
        if not ps:
            raise common.MachineryFailure("no schedule for script %d" % sid)
        heavy = sum(1 for calls in script for c in calls if c["kind"] == "loads")
        size = 12 if heavy == 2 else 20 if heavy else 40
        for ch in [ps[i:i + size] for i in range(0, len(ps), size)]:
            job = {"seed": seed, "doctable": doctable, "root": root, "script": script, "sid": sid, "variants": variants,
                   "scheds": [p["sched"] for p in ch], "hists": [p["hist"] for p in ch]}
            sched_jobs.append((heavy, sid, job))
    sched_jobs.sort(key=lambda x: -x[0])
    sched_async = [(sid, job, pool.apply_async(L.task_schedules, (job,))) for _, sid, job in sched_jobs]

    # ---- histories -> re-use replay
    rh = hist_f.result()
    mark("histories_simulated")
    ck.add_tlc("histories(simulate, one thread, re-used workers)", rh)
    if rh.violated:
        ck.violation("C12|model|%s|histories" % rh.violated, "model property violated on re-used workers",
                     {"trace": tlc.error_trace(rh)})
    hists = [p["hist"] for p in rh.prints if isinstance(p, dict) and "hist" in p and p["hist"]]
    if len(hists) < nh * 0.9:
        raise common.MachineryFailure("TLC produced %d histories, wanted %d" % (len(hists), nh))
    reuse_async = [pool.apply_async(L.task_reuse, (dict(env_job, hists=ch),))
                   for ch in chunks(hists, 4 if quick else nproc)]

    # ---- stress: free-running threads; queued behind the schedule and re-use jobs, so they start as
    #      worker processes become free (schedule waits have 180 s deadlines)
    secs = 4 if quick else 40
    stress_async = [pool.apply_async(L.task_stress, (dict(env_job, seconds=secs, proc=i, same_input=i % 2 == 0),))
                    for i in range(6 if quick else nproc)]

    # ---- collect (M)
    for name, f in model_jobs.items():
        r = f.result()
        ck.add_tlc(name, r)
        if r.violated:
            ck.violation("C12|model|%s|%s" % (r.violated, name), "model property %s violated (%s)" % (r.violated, name),
                         {"trace": tlc.error_trace(r)})
    for name, kw, want in NEGATIVES:
        r = neg_jobs[name].result() if name in neg_jobs else r0
        ck.add_tlc(name + " (must be rejected: %s)" % want, r)
        if r.violated != want:
            raise common.MachineryFailure("negative configuration %s: TLC reported %r, expected %s - the model is vacuous"
                                          % (name, r.violated, want))

    mark("models_checked")
    # ---- collect purity, judge with TraceCalls.tla
    records, cases, loaded = [], {}, 0
    cpu = {"purity": 0.0, "reuse": 0.0, "schedules": 0.0, "stress": 0.0}
    for j in pur_jobs:
        res = j.get(1800 if quick else 7200)
        cpu["purity"] += res["cpu"]
        records += res["records"]
        cases.update(res["cases"])
        loaded += res["loaded"]
    mark("purity_recorded")
    part_size = 20000
    rt_fs = []
    for pi in range(0, max(1, len(records)), part_size):
        part = records[pi:pi + part_size]
        trace = os.path.join(BUILD, "c12_%s_purity_%d.ndjson" % (RUN, pi // part_size))
        with open(trace, "w") as f:
            for r in part:
                f.write(json.dumps({k: r[k] for k in ("tid", "call", "fn", "pre", "post", "diff")}) + "\n")
        rt_fs.append((len(part), ex.submit(
            tlc.run, "TraceCalls", tlc.cfg_text(init="TInit", next_="TNext", invariants=["Report", "Counted"]),
            tag="c12_%s_tracecalls_%d" % (RUN, pi // part_size), workers=1, env={"TRACE_FILE": trace}, timeout=tmo)))
    # (meanwhile the worker processes drain the re-use, schedule and stress jobs)
    rep = {"judged": 0, "bad": [], "mutobs": set()}
    for npart, f in rt_fs:
        rt = f.result()
        ck.add_tlc("TraceCalls(purity trace, %d records)" % npart, rt)
        if rt.violated:
            raise common.MachineryFailure("TraceCalls invariant %s violated" % rt.violated)
        rp = next((p for p in rt.prints if isinstance(p, dict) and "judged" in p), None)
        if rp is None or rp["judged"] != npart:
            raise common.MachineryFailure("TraceCalls judged %s of %d records" % (rp and rp["judged"], npart))
        rep["judged"] += rp["judged"]
        rep["bad"] += rp["bad"]
        rep["mutobs"] |= set(rp["mutobs"])
    by_tid = {r["tid"]: r for r in records}
    py_bad = {r["tid"] for r in records if r["call"] in PURE and r["pre"] != r["post"]}
    if {b["tid"] for b in rep["bad"]} != py_bad:
        raise common.MachineryFailure("TraceCalls verdicts differ from the recorded digests")
    for b in rep["bad"]:
        r = by_tid[b["tid"]]
        case = cases.get(b["tid"], {})
        cls = r.get("cls") or ""
        if cls and r["outcome"] != "ok":
            cls += "+raised"            # the call raised and changed its argument (distinct from a silent change)
        ck.violation("C12|purity|%s|%s%s" % (r["fn"] if r["fn"] in PURE else r["call"], cls + "|" if cls else "", b["clause"]),
                     "%s changed its argument (%s): %s on %s" % (r["fn"], r["diff"], case.get("call", r["fn"]), r["doc"]),
                     {"part": "purity", "record": r, "case": case})
    ck.count(len(records))
    kinds_seen = {}
    for r in records:
        kinds_seen[r["fn"] + "/" + r["call"]] = kinds_seen.get(r["fn"] + "/" + r["call"], 0) + 1
        ck.nontrivial("pur|%s|%s|%s" % (r["call"], r["doc"], r["pre"][0] if r["pre"] else ""))
    if set(rep["mutobs"]) != {"dumps_sep", "validate_addc"}:
        ck.notes.append("snapshot sensitivity: exempt kinds observed mutating: %s" % rep["mutobs"])
        if not quick or len(records) > 2000:
            raise common.MachineryFailure("the snapshots never saw the two documented mutating calls change their "
                                          "argument (%s): snapshot machinery suspect" % rep["mutobs"])
    if loaded < 0.6 * (len(files) + len(texts) + len(slot_hists)):
        raise common.MachineryFailure("only %d of %d purity documents loaded" % (
            loaded, len(files) + len(texts) + len(slot_hists)))
    ck.sample({"purity_record": records[len(records) // 2]})

    mark("purity_judged")
    # ---- collect re-use
    nreuse, classes, refdig = 0, set(), {}
    for j in reuse_async:
        res = j.get(1800 if quick else 7200)
        refdig.update(res["refdig"])
        cpu["reuse"] += res["cpu"]
        nreuse += res["n"]
        classes |= {tuple(c) for c in res["classes"]}
        for sig, what, case in res["viol"]:
            ck.violation(sig, what, case)
    ck.count(nreuse)
    for h in hists:
        ck.nontrivial("hist|" + json.dumps([c["call"] for c in h], sort_keys=True))
    ck.sample({"history": [dict(c["call"], ret=c["ret"]) for c in hists[0]][:4]})

    mark("reuse_done")
    # ---- collect schedules
    nsched, failures, notes, seams_seen = 0, [], [], {}
    for sid, job, a in sched_async:
        res = a.get(1800 if quick else 7200)
        cpu["schedules"] += res["cpu"]
        nsched += res["n"]
        failures += res["failures"]
        notes += res["notes"]
        seams_seen[sid] = res["seams"]
        for sig, what, case in res["viol"]:
            ck.violation(sig, what, case)
        for s in job["scheds"]:
            ck.nontrivial("sched|%d|%s" % (sid, sched_key(s)))
    if failures:
        raise common.MachineryFailure("schedule forcing failed (%d): %s" % (len(failures), failures[:3]))
    ck.count(nsched)
    ck.drift += notes[:10]
    ck.sample({"forced_schedule": {"script": scripts[0][0], "one_of": expected_counts.get(1),
                                   "schedule": sched_key(sched_jobs[0][2]["scheds"][0]) if sched_jobs else None}})

    mark("schedules_done")
    # ---- collect the cold-start runs
    ncold = 0
    for a in cold_async:
        res = a.get(1800 if quick else 7200)
        cpu["stress"] += res["cpu"]
        ncold += res["n"]
        if res["stuck"]:
            raise common.MachineryFailure("cold-start threads did not finish")
        for sig, what, case in res["viol"]:
            ck.violation(sig, what, case)
        for k, dg in res["seqdig"].items():
            if k in refdig and refdig[k] != dg:
                ck.violation("C12|stress|%s|after-cold-start" % k.split("/")[0],
                             "a sequential call (%s) made after the concurrent cold-start phase differs from the same call "
                             "in another process" % k, {"part": "stress-cold", "key": k})
    ck.count(ncold)
    # ---- collect stress
    stress_counts = {}
    for a in stress_async:
        res = a.get(1800 if quick else 7200)
        cpu["stress"] += res["cpu"]
        if res["stuck"]:
            raise common.MachineryFailure("stress threads did not finish")
        for k, v in res["counts"].items():
            stress_counts[k] = stress_counts.get(k, 0) + v
        for sig, what, case in res["viol"]:
            ck.violation(sig, what, case)
    ck.count(sum(stress_counts.values()))
    if sum(stress_counts.values()) < 50:
        raise common.MachineryFailure("stress run made only %d calls" % sum(stress_counts.values()))
    ex.shutdown(wait=False)
    return ck.finish(exhaustive=False, coverage_extra={
        "purity_records": len(records), "purity_documents_loaded": loaded, "purity_calls": kinds_seen,
        "reuse_histories": len(hists), "reuse_calls": nreuse, "reuse_call_classes": len(classes),
        "scripts": len(scripts), "forced_schedules": nsched,
        "schedules_per_script": {str(k): len(v) for k, v in by_sid.items()},
        "stress_calls": stress_counts, "cold_start_calls": ncold, "stress_threads": 16, "stress_seconds": secs,
        "negative_configs_rejected": [n for n, _, _ in NEGATIVES],
        "phase_done_at_s": dict(phases, stress_done=round(time.time() - t0, 1)),
        "cpu_s": {k: round(v, 1) for k, v in cpu.items()}, "tlc_wall_s": round(sum(t.get("wall_s", 0) for t in ck.tlc), 1),
        "seams": "lark InteractiveParser.iter_parse / Lark.parse_interactive, Parser.parse/_assign_comments, "
                 "MapfileToDict.transform/__setattr__, PrettyPrinter.pprint, Validator.validate/get_expanded_schema/"
                 "get_schema_file/get_schema_validator/get_versioned_schema/get_versioned_properties/convert_lowercase "
                 "(class-level wrappers installed at run time)"})


# ==================================================================================== replay

def replay(path):
    try:
        return _replay(path)
    finally:
        cleanup()


def _replay(path):
    with open(path) as f:
        rep = json.load(f)
    case = rep["case"]
    if case.get("root"):
        case["root"] = os.path.join(BUILD, "c12_%s_files" % RUN)
    part = case.get("part")
    print("replaying %s (%s)" % (rep["signature"], part))
    if part == "purity":
        c = case["case"]
        rec = L.Recorder(0)
        rng = random.Random(0)
        for _ in range(6):
            L.purity_doc(rec, "replay", text=c.get("text") if not c.get("file") else None, fn=c.get("file"), rng=rng)
        bad = [r for r in rec.records if r["call"] in PURE and r["pre"] != r["post"] and r["fn"] == case["record"]["fn"]]
        for r in bad[:3]:
            print("  %s changed its argument: %s" % (r["fn"], r["diff"]))
        if bad:
            print("VIOLATION property=C12 replay=%s  # %s" % (path, rep["signature"]))
            return 1
        print("not reproduced")
        return 0
    if part in ("reuse", "schedule") and case.get("root"):
        L.write_files(L.build_docs(case["doctable"], case["seed"], 2, case["root"]), case["root"])
    if part == "reuse":
        docs, refs = L.get_env(case)
        W = L.Workers()
        bad = 0
        for h in case["history"]:
            cd = docs[(h["call"]["doc"], h["variant"])]
            got = L.value_of(W.call(h["call"], cd))
            want, _ = refs.get(h["call"], h["variant"])
            print("  %-50s %s" % (L.call_str(h["call"]), "same as fresh" if got == want else "DIFFERS from fresh"))
            bad += got != want
        if bad:
            print("VIOLATION property=C12 replay=%s  # %s" % (path, rep["signature"]))
            return 1
        print("not reproduced")
        return 0
    if part == "schedule":
        job = {"seed": case["seed"], "doctable": case["doctable"], "root": case.get("root"), "script": case["script"], "sid": 0,
               "variants": case["variants"], "scheds": [case["schedule"]], "hists": None}
        res = L.task_schedules(job)
        if res["failures"]:
            print("MACHINERY-FAILURE %s" % res["failures"])
            return 2
        for sig, what, _ in res["viol"]:
            print("  %s: %s" % (sig, what))
        if res["viol"]:
            print("VIOLATION property=C12 replay=%s  # %s" % (path, rep["signature"]))
            return 1
        print("not reproduced")
        return 0
    print("this case (%s) has no deterministic replay; re-run the check" % part)
    return 2
