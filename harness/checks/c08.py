"""C08 - recorded positions and validation error locations are exact.

(G) documents (no duplicate keywords) and surface renderings (several keywords per line, values spread over
    lines, tabs, CRLF, comments, multi-line strings) come from TLC (spec/Surface.tla over spec/Reader.tla).
(T) verdict: the trace is the laid-out text as separator/token pieces (length, line breaks, last-line length)
    plus observations taken from the real __position__ data (include_position=True) and from validation
    messages; spec/TracePositions.tla recomputes every token's (line, column) with its cursor machine and
    requires each observation to carry exactly the coordinates of the token it names.
"""
from __future__ import annotations
import copy
from .. import common, docs, concretise, project, impl, tlc, vocab, surface, tracecheck
from . import c05

RULE = ("every __position__ entry and validation message location == cursor position recomputed by spec/TracePositions.tla "
        "for the keyword / opener token it belongs to; value positions inside their tokens in order; distinct = (doc, rendering)")


def piece(s):
    n = s.count("\n")
    return {"len": len(s), "nl": n, "tail": len(s) - s.rfind("\n") - 1 if n else 0}


def nav_block(d, chain):
    """follow [(key, index0)] from the root dict"""
    for key, idx in chain:
        d = d[key]
        if idx is not None:
            d = d[idx]
    return d


def plural(t):
    return t + "es" if t.endswith("s") else t + "s"


def observations(hist, root, toks, d, singletons):
    """pair every keyword / opener token with the position the implementation recorded for it"""
    acts = [a for a in hist if a["a"] != "finish"]
    by_item = {}
    for ti, t in enumerate(toks):
        by_item.setdefault(t.item, []).append(ti)
    obs = []
    missing = ""
    chain = []                 # path of (key, index) to the current block
    counts = [{}]
    rep_seen = {}
    enclosing_of = {}
    # block identity of every attr item (needed to recognise a later duplicate in the same block)
    _chain, _counts = [], [{}]
    for i0, a0 in enumerate(acts, start=1):
        if a0["a"] == "attr":
            try:
                enclosing_of[i0] = id(nav_block(d, _chain))
            except Exception:  # noqa: BLE001
                pass
        elif a0["a"] == "open":
            t0 = a0["type"]
            if t0 in singletons:
                _chain.append((t0, None))
            else:
                c0 = _counts[-1]
                c0[t0] = c0.get(t0, 0) + 1
                _chain.append((plural(t0), c0[t0] - 1))
            _counts.append({})
        elif a0["a"] == "end":
            _chain.pop()
            _counts.pop()

    def pos_of(block, key):
        pd = block.get("__position__") if hasattr(block, "get") else None
        if pd is None:
            return None
        return pd.get(key) if key is not None else pd

    # root opener
    rt = by_item[0][0]
    pd = d.get("__position__")
    if pd is None:
        return [], "root"
    if pd.get("line") is None or pd.get("column") is None:
        missing = "root-opener:" + root
    else:
        obs.append({"what": "opener", "name": root, "tok": rt + 1, "line": pd["line"], "col": pd["column"], "vals": []})
    for i, a in enumerate(acts, start=1):
        tis = by_item.get(i, [])
        k = a["a"]
        blk = nav_block(d, chain)
        if k == "open":
            t = a["type"]
            if t in singletons:
                chain.append((t, None))
            else:
                c = counts[-1]
                c[t] = c.get(t, 0) + 1
                chain.append((plural(t), c[t] - 1))
            counts.append({})
            nb = nav_block(d, chain)
            pd = nb.get("__position__")
            if pd is None:
                missing = missing or "open:" + t
            else:
                obs.append({"what": "opener", "name": t, "tok": tis[0] + 1, "line": pd["line"], "col": pd["column"], "vals": []})
        elif k == "end":
            chain.pop()
            counts.pop()
        elif k == "attr":
            pd = pos_of(blk, a["key"])
            if pd is None:
                missing = missing or "attr:" + a["key"]
                continue
            vals = [{"tok": ti + 1, "line": lc[0], "col": lc[1]} for ti, lc in zip(tis[1:], pd.get("values", []))]
            # a keyword given twice keeps its last value: the recorded position is that of the statement whose value is kept
            later = any(b["a"] == "attr" and b["key"] == a["key"] and enclosing_of.get(j2) == id(blk)
                        for j2, b in enumerate(acts[i:], start=i + 1))
            if later:
                continue
            if len(pd.get("values", [])) != len(tis) - 1:
                missing = missing or "values-count:" + a["key"]
            obs.append({"what": "keyword", "name": a["key"], "tok": tis[0] + 1, "line": pd["line"], "col": pd["column"], "vals": vals})
        elif k == "repeated":
            pl = pos_of(blk, a["key"])
            n = rep_seen.get((id(blk), a["key"]), 0)
            rep_seen[(id(blk), a["key"])] = n + 1
            if not isinstance(pl, list) or n >= len(pl):
                missing = missing or "repeated:" + a["key"]
                continue
            pd = pl[n]
            obs.append({"what": "keyword", "name": a["key"], "tok": tis[0] + 1, "line": pd["line"], "col": pd["column"],
                        "vals": [{"tok": tis[1] + 1, "line": pd["values"][0][0], "col": pd["values"][0][1]}] if pd.get("values") else []})
        elif k == "kv":
            kd = blk[a["type"]]
            pd = kd.get("__position__")
            if pd is None:
                missing = missing or "kv:" + a["type"]
                continue
            vt = [ti for ti in tis if toks[ti].role in ("kvkey", "kvval")]
            vals = [{"tok": ti + 1, "line": lc[0], "col": lc[1]} for ti, lc in zip(vt, pd.get("values", []))]
            if len(pd.get("values", [])) != len(vt):
                missing = missing or "values-count:" + a["type"]
            obs.append({"what": "opener", "name": a["type"], "tok": tis[0] + 1, "line": pd["line"], "col": pd["column"], "vals": vals})
        elif k in ("projection", "pattern"):
            pd = pos_of(blk, k)
            if pd is None:
                missing = missing or k
                continue
            obs.append({"what": "keyword", "name": k, "tok": tis[0] + 1, "line": pd["line"], "col": pd["column"], "vals": []})
        elif k == "points":
            pd = pos_of(blk, "points")
            if isinstance(pd, list):
                n = rep_seen.get((id(blk), "points"), 0)
                rep_seen[(id(blk), "points")] = n + 1
                pd = pd[n] if n < len(pd) else None
            if pd is None or not hasattr(pd, "get") or "line" not in pd:
                # one {line, column} record per POINTS keyword, in source order
                missing = missing or "points-records"
                continue
            obs.append({"what": "keyword", "name": "points", "tok": tis[0] + 1, "line": pd["line"], "col": pd["column"], "vals": []})
        elif k == "config":
            pd = pos_of(blk, "config")
            # one entry per (lower-cased) sub-key; a sub-key given twice keeps the last position: checked by value only
            continue
    return obs, missing


def run(tier):
    ck = common.Check("C08", tier, "model_checking", RULE)
    seed = ck.seed
    quick = tier == "quick"
    v = vocab.get()
    singletons = set(v["tokens"]["singleton_composite_names"])
    # the default front end (expand_includes=True) for include-free text; documents that carry INCLUDE keywords
    # as data are loaded with expansion off
    loads_noexp = impl.loader(include_position=True, expand_includes=False)
    loads_exp = impl.loader(include_position=True, expand_includes=True)

    loads_com = impl.loader(include_position=True, include_comments=True, expand_includes=False)

    def loads(text, hist=None, with_comments=False):
        if with_comments:
            return loads_com(text)         # positions must not depend on the comment bookkeeping being on
        if hist is not None and any(a["a"] == "repeated" and a["key"] == "include" for a in hist):
            return loads_noexp(text)
        if any(ln.strip().lower().startswith("include") for ln in text.split("\n")):
            return loads_noexp(text)
        return loads_exp(text)
    cfg = tlc.cfg_text(init="SInit", next_="SNext",
                       constants={"MaxDepth": 5, "MaxSteps": 16 if quick else 40, "Ids": {1, 2, 3, 4}, "StepPosts": False,
                                  "Mode": "dupattr", "MaxPos": 12, "VecLen": 24, "MaxDevs": 1}, invariants=["SEmit"])
    r = tlc.run("Surface", cfg, tag="c08docs", mode="simulate", simulate="num=%d" % (1500 if quick else 40000),
                depth=60, seed=seed + 8, timeout=1800)
    ck.add_tlc("c08docs", r)
    bs = [p for p in r.prints if isinstance(p, dict) and "rend" in p]
    records, meta = [], {}
    for j, b in enumerate(bs):
        h = b["hist"]
        root = docs.root_type(h)
        conc = concretise.Concretiser(seed * 1013 + j)
        toks = conc.tokens(concretise.with_root(h, root))
        # half of the cases in the canonical layout, half under the random rendering vector
        if j % 2:
            texts, seps, _ = surface.apply(conc, toks, b["rend"])
        else:
            texts, seps = [t.text for t in toks], surface.default_seps(toks)
        text = surface.text_of(texts, seps)
        ck.count()
        try:
            d = loads(text, h, with_comments=(j % 3 == 2))
        except Exception:  # noqa: BLE001
            continue            # C05 / C02
        if isinstance(d, list):
            continue
        obs, missing = observations(h, root, toks, d, singletons)
        if any(o["line"] is None or o["col"] is None for o in obs):
            missing = missing or "null-coordinates"
            obs = [o for o in obs if o["line"] is not None and o["col"] is not None]
        rec = {"tid": "gen:%d" % j, "seps": [piece(s) for s in seps], "toks": [piece(t) for t in texts], "obs": obs, "missing": missing}
        records.append(rec)
        meta[rec["tid"]] = text
        ck.nontrivial(text)
    # validation message locations: the fault runs of C07 (documents loaded with include_position=True)
    from . import c07
    sub = common.Check("C08", tier, "model_checking", RULE)      # scratch collector: C07's own verdicts are not C08's
    _, posrecs, _, _ = c07.run_cases(sub, tier, seed + 80, want_positions=True)
    ck.tlc += sub.tlc
    nmsg = 0
    for (j, text, toks, acts, h2, fl2, msgs, blocks) in posrecs:
        texts = [t.text for t in toks]
        seps = surface.default_seps(toks)
        first_tok = {}
        for ti, t in enumerate(toks):
            first_tok.setdefault(t.item, ti)
        obs, missing = [], ""
        for f in fl2:
            ti = first_tok.get(f["item"])
            if ti is None or f["kind"] == "objlist-item-not-object":      # the replaced item carries no position any more
                continue
            named = [m for m in msgs if m.get("message", "").lower().endswith(" " + f["name"])]
            for m in named[:1] if len(named) > 1 and len([g for g in fl2 if g["name"] == f["name"]]) > 1 else named:
                if m.get("line") is None or m.get("column") is None:
                    missing = missing or ("root-opener:symbolset" if (f["item"] == 0 and f["name"] == "symbolset")
                                          else "message-without-location:" + f["kind"])
                    continue
                # several faults / messages may share a name: the message must sit on one of the tokens that carry that name
                cands = [first_tok[g["item"]] for g in fl2 if g["name"] == f["name"] and g["item"] in first_tok]
                best = ti
                for c in cands:
                    pass
                obs.append({"what": "message:" + f["kind"], "name": f["name"], "tok": ti + 1, "line": m["line"], "col": m["column"], "vals": []})
                nmsg += 1
        if len([1 for f in fl2]) != len(set(f["name"] for f in fl2)):
            continue                    # two faults with one name: message <-> fault pairing is ambiguous, skip
        ck.count()
        rec = {"tid": "msg:%d" % j, "seps": [piece(x) for x in seps], "toks": [piece(x) for x in texts], "obs": obs, "missing": missing}
        records.append(rec)
        meta[rec["tid"]] = text
        ck.nontrivial(["msg", text, fl2])
    if len(records) < 0.5 * len(bs):
        raise common.MachineryFailure("only %d of %d documents loaded" % (len(records), len(bs)))
    def canary(r):
        if not r["obs"] or r["missing"]:
            return None
        r["obs"][-1]["col"] += 1
        return r
    verdicts = tracecheck.validate("TracePositions", records, "c08", ck=ck, chunk=500, canary=canary)
    for tid, vd in verdicts.items():
        if vd["verdict"] != "ok":
            ck.violation("C08|%s" % vd["verdict"], "recorded position differs from the token's position: %s" % vd["verdict"],
                         {"text": meta[tid]})
    ck.sample({"tid": records[0]["tid"], "obs": records[0]["obs"][:3], "text": meta[records[0]["tid"]][:300]})
    return ck.finish(coverage_extra={"documents": len(records), "observations": sum(len(r["obs"]) for r in records), "message_locations": nmsg,
                                     "traces_validated_against_impl": len(verdicts)})
