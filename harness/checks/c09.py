"""C09 - version-aware validation follows minVersion / maxVersion.

(M) TLC model-checks spec/Validator.tla: over all call histories of bounded length (validate /
    get_versioned_schema / export on one Validator object, module-level validate / export / create)
    on representative entries, the mechanism (expanded-schema cache keyed by name + version, pruned
    in place) keeps CacheSound and HistoryIndependent.  Negative configs (cache keyed by name only,
    the behaviour before the fix) must be REJECTED by TLC - the model can see the bug class.
(G) verdict.
    (1) entry probes: every annotated schema entry (harness/versions.py) x every parent context x the
        versions at / just below / just above its bounds and no version - the neighbouring tenths and
        versions that are not tenths (bound +- 0.01 / 0.04; versions are rationals x100 in the spec);
        sampled rows also through mappyfile.validate, as one root and as a list of one / two roots; TLC prints the probe table
        (Accept evaluated in TLA+), the real Validator judges the minimal document holding the entry:
        "no validation message" <=> accept, and a rejected entry is named by a message.
    (2) histories: TLC (-simulate) emits call histories, every call with the answer the contract
        gives; they are replayed on ONE Validator object and through the module-level API / the CLI
        in this process, compared after every call.  Schema objects are compared as the set of
        annotated entries present (parallel walk of the returned object and the raw schema files).
    (3) faults in unannotated keywords are judged identically with and without a version.
"""
from __future__ import annotations
import hashlib
import json
import os
import random
import shutil
import time
import tempfile

from .. import common, impl, tlc, versions
from ..common import MachineryFailure

RULE = ("validate(doc holding entry e, version v) has no message <=> Accept(e, v) (evaluated by TLC from "
        "spec/Validator.tla) in every parent context; every call in a TLC-generated history of validate / "
        "get_versioned_schema / export / module-level calls answers Judge(arguments); unannotated faults "
        "judged as without a version")

NOV = versions.NOVERSION
M_REPS = ["layer.utfdata", "layer.opacity", "label.priority/anyOf/2", "style.size/anyOf/1",
          "symbol.antialias", "connectionoptions#"]
H_REPS = ["layer.utfdata", "layer.opacity", "label.priority", "label.priority/anyOf/2", "style.size/anyOf/1",
          "symbol.antialias", "connectionoptions#", "class.leader", "map.defresolution", "web.log"]
H_NAMES = ["map", "layer", "class", "label", "style", "symbol"]
# versions x100 (spec/Validator.tla): published tenths next to bounds ...
VERSION_SETS = [(490, 500, 760, 770), (590, 600, 620, 820), (530, 540, 560, 810), (390, 400, 700, 720), (470, 480, 640, 800)]
# ... and versions that are not tenths, 0.01 / 0.04 beyond and inside a bound (7.6 is both a min and a max)
FINE = (1, 4)
FINE_H = (756, 764)
ALL_FORMS = ("dict", "list1", "list2")


def ver(v):
    return None if v == NOV else v / float(versions.SCALE)


def vtxt(v):
    return "none" if v == NOV else "%g" % (v / float(versions.SCALE))


# ------------------------------------------------------------------ constants for TLC
def c_paths(vs, names, ids=None):
    out = []
    for n in names:
        for eid, g in vs.reach_paths(n):
            if ids is None or eid in ids:
                out.append([n, eid, sorted(g)])
    return out


def c_defaults(vs, names):
    return [[e["file"], e["id"]] for e in vs.entries if e["kind"] == "kw" and e["has_default"] and e["file"] in names]


ALL_OPS = ("validate", "get_versioned", "export", "mod_validate", "mod_export", "mod_create")


def setup(vs, docs, names, vset, tag, ids=None, key_with_version=True, max_calls=4, mode="mc", ops=ALL_OPS,
          derive="fresh", forms=("dict",)):
    """cfg constants + the JSON data file read by spec/Validator.tla (Data); returns (constants, env)"""
    names = sorted(set(names) | ({"map"} if {"export", "mod_export"} & set(ops) or mode == "table" else set()))
    roots = sorted({d["root"] for d in docs})
    paths = c_paths(vs, sorted(set(names) | set(roots)), None)
    if ids is not None:
        # close the entry set under everything the documents and paths mention
        ids = set(ids)
        for d in docs:
            ids |= set(d["covers"]) | set(d["guards"]) | ({d["entry"]} - {""})
        paths = [p for p in paths if p[1] in ids]
        for p in paths:
            ids |= set(p[2])
    data = {"entries": [[e["id"], e["min"], e["max"]] for e in vs.entries if ids is None or e["id"] in ids],
            "defaults": [x for x in c_defaults(vs, names) if ids is None or x[1] in ids],
            "paths": paths,
            "docs": [dict({k: d[k] for k in ("id", "root", "entry", "covers", "guards", "shadow", "fault")},
                          fine=bool(d.get("fine"))) for d in docs]}
    ddir = os.path.join(tlc.BUILD, "c09")
    os.makedirs(ddir, exist_ok=True)
    fn = os.path.join(ddir, tag + ".json")
    with open(fn, "w") as f:
        json.dump(data, f)
    cst = {"Versions": set(vset), "Names": set(names), "KeyWithVersion": key_with_version, "MaxCalls": max_calls,
           "Mode": mode, "Ops": set(ops), "Derive": derive, "Forms": set(forms), "Fine": set(FINE)}
    return cst, {"C09_DATA": fn}


# ------------------------------------------------------------------ (M)
def model_check(ck, vs, quick):
    docs = [d for d in vs.entry_docs(entry_ids=set(M_REPS), contexts="one")]
    docs += [d for d in vs.entry_docs(entry_ids={"layer.utfdata", "layer.opacity"}) if d["ctx"] == "layer"]
    docs += [d for d in vs.fault_docs("root") if d["ctx"] == "layer"][:1]
    vset = VERSION_SETS[0] + (() if quick else FINE_H[1:])
    n = 3 if quick else 4
    cst, env = setup(vs, docs, ["map", "layer"], vset, "mc", ids=set(M_REPS), max_calls=n, mode="mc")
    cfg = tlc.cfg_text(constants=cst, invariants=["CacheSound", "HistoryIndependent", "VersionlessAcceptsAll", "Bound"])
    r = tlc.run("Validator", cfg, tag="c09_mc", workers=4 if quick else 16, timeout=600 if quick else 3000, coverage=True,
                env=env)
    ck.add_tlc("validator_mc(len<=%d)" % n, r)
    if r.violated:
        ck.violation("C09|model|%s" % r.violated, "invariant %s violated in spec/Validator.tla" % r.violated,
                     {"trace": tlc.error_trace(r)})
    # negative configs TLC must reject: the cache key without the version (the behaviour before the
    # fix), and versioned cache entries that share their nested objects with the version-less entry
    # (a shallow copy instead of a new expansion; needs three calls: version-less, A, then B / none)
    negs = [("key without version", {"KeyWithVersion": False}, "HistoryIndependent"),
            ("versioned entries alias the version-less one", {"Derive": "alias"}, "HistoryIndependent")]
    if not quick:
        negs += [("key without version", {"KeyWithVersion": False}, "CacheSound"),
                 ("versioned entries alias the version-less one", {"Derive": "alias"}, "CacheSound")]
    for i, (what, change, inv) in enumerate(negs):
        neg = dict(cst)
        neg.update(change)
        neg["MaxCalls"] = 3
        rn = tlc.run("Validator", tlc.cfg_text(constants=neg, invariants=[inv]), tag="c09_neg%d" % i, workers=4,
                     timeout=600, env=env)
        s = rn.summary()
        s["expected_violation"] = inv
        ck.add_tlc("validator_negative(%s; %s)" % (what, inv), s)
        if rn.violated != inv:
            raise MachineryFailure("negative config (%s) was not rejected by TLC: %s" % (what, rn.violated))
    return r


# ------------------------------------------------------------------ (G1) + (G3) probes
def tables(ck, vs, docs, vset, names, tag):
    """one TLC run: the probe table (documents x version classes) and the schema table (schema names x
    Versions): every expected verdict / schema content evaluated from spec/Validator.tla"""
    cst, env = setup(vs, docs, names, vset, tag, mode="table")
    cfg = tlc.cfg_text(constants=cst, invariants=["EmitTable", "EmitSchemas"])
    r = tlc.run("Validator", cfg, tag=tag, workers=1, timeout=900, env=env)
    ck.add_tlc(tag, r)
    if r.violated:
        raise MachineryFailure("table run violated %s" % r.violated)
    allrows = [row for p in r.prints if isinstance(p, list) for row in p]
    rows = [row for row in allrows if "doc" in row]
    srows = [row for row in allrows if "name" in row]
    want = {d["id"] for d in docs}
    if {row["doc"] for row in rows} != want:
        raise MachineryFailure("TLC printed rows for %d of %d documents" % (len({row["doc"] for row in rows}), len(want)))
    if {row["name"] for row in srows} != set(names) | {"map"}:
        raise MachineryFailure("TLC printed schema rows for %s" % sorted({row["name"] for row in srows}))
    return rows, sorted(srows, key=lambda r: (r["name"], r["v"]))


def run_schemas(ck, vs, rows, tmp, quick=False):
    """get_versioned_schema / create on fresh Validators against the schema table"""
    rp = Replayer(vs, [], tmp)
    for row in rows:
        for op, exp in (("get_versioned", {"absent": row["absent"]}), ("mod_create", {"defaults": row["defaults"]})):
            if op == "mod_create" and (row["name"] == "symbolset" or (quick and row["v"] != NOV and row["v"] % 10)):
                continue
            c = {"op": op, "name": row["name"], "v": row["v"]}
            ck.count()
            try:
                got = rp.call(impl.Validator(), c)
            except Exception as ex:  # noqa: BLE001
                ck.violation("C09|schema|raised|%s|%s|%s" % (type(ex).__name__, op, row["name"]),
                             "%s on %s raised %s: %s" % (call_txt(c), row["name"], type(ex).__name__, str(ex)[:120]),
                             {"kind": "history", "history": [{"call": c, "exp": exp}], "step": 0, "origin": "schemas"})
                continue
            if row["absent"] or row["defaults"]:
                ck.nontrivial((op, row["name"], row["v"]))
            if not rp.agrees(got, exp):
                for s in vs_entry_classes(vs, c, got, exp) or ["?"]:
                    ck.violation("C09|schema|%s|%s|%s" % (s, op, row["name"]),
                                 "%s on %s answers %s on a fresh Validator, the contract says %s" % (
                                     call_txt(c), row["name"], brief(got), brief(exp)),
                                 {"kind": "history", "history": [{"call": c, "exp": exp}], "step": 0, "origin": "schemas", "got": got})


class Judges:
    """fresh Validator per (root schema, version): a probe never sees another version's history"""

    def __init__(self):
        self.v = {}

    def validate(self, d, root, v):
        key = (root, v)
        if key not in self.v:
            self.v[key] = impl.Validator()
        return self.v[key].validate(d, schema_name=root, version=ver(v))


def names(msgs, key):
    q = "'%s'" % key
    return any(m.get("message", "").split(" ")[-1] == key.upper() or q in m.get("error", "") for m in msgs)


def run_probes(ck, vs, docs, rows, module_every):
    import mappyfile
    bydoc = {d["id"]: d for d in docs}
    judges = Judges()
    rows = sorted(rows, key=lambda r: (r["doc"], r["v"]))
    baseline = {}
    n_mod = 0
    for i, row in enumerate(rows):
        d = bydoc[row["doc"]]
        try:
            msgs = judges.validate(d["dict"], d["root"], row["v"])
        except Exception as ex:  # noqa: BLE001
            ck.violation("C09|raised|%s|%s|%s" % (d["entry"] or d["id"], row["vc"], type(ex).__name__),
                         "validate raised %s: %s" % (type(ex).__name__, str(ex)[:120]), case(d, row, None))
            continue
        ck.count()
        got = not msgs
        if d["fault"]:
            # (G3) judged as without a version
            if row["v"] == NOV:
                baseline[d["id"]] = [m["message"] for m in msgs]
            ck.nontrivial(("fault", d["id"], row["v"]))
            if got:
                ck.violation("C09|fault|%s.%s|not-reported|%s" % (d["holder"], d["key"], "none" if row["v"] == NOV else "versioned"),
                             "fault in an unannotated keyword not reported (version %s)" % vtxt(row["v"]), case(d, row, msgs))
            continue
        if row["v"] == NOV and not got:
            raise MachineryFailure("probe document %s is not valid without a version: %s" % (d["id"], msgs[:2]))
        if not row["own"] or row["vc"] in ("at-min", "at-max"):
            ck.nontrivial((d["id"], row["vc"]))
        where = "%s|%s" % (d["entry"], row["vc"])
        if d["via_alt"]:
            where += "|via-alt|ctx=%s" % d["ctx"]
        wrong = got != row["accept"]
        if wrong:
            ck.violation("C09|accept|" + where,
                         "%s at version %s in context %s: Accept = %s but validate %s" % (
                             d["entry"], vtxt(row["v"]), d["ctx"], row["accept"],
                             "reported nothing" if got else "reported %s" % [m["error"][:60] for m in msgs[:2]]),
                         case(d, row, msgs))
        elif not got and not row["own"] and row["guardsok"] and not names(msgs, d["key"]):
            ck.violation("C09|naming|" + where, "rejected, but no message names %s" % d["key"].upper(), case(d, row, msgs))
        # the module-level API (schema of the root's own type)
        if module_every and i % module_every == 0:
            n_mod += 1
            ck.count()
            m2 = mappyfile.validate(d["dict"], version=ver(row["v"]))
            wrong2 = (not m2) != row["accept"]
            if wrong2 and not wrong:       # (wrong: same call underneath, reported above)
                ck.violation("C09|accept|" + where + "|mappyfile.validate",
                             "mappyfile.validate: %s at version %s: Accept = %s, messages %s" % (
                                 d["entry"], vtxt(row["v"]), row["accept"], [m["error"][:60] for m in m2[:2]]),
                             case(d, row, m2))
            # the same root(s) given as a list, as loads returns a Mapfile with several root blocks
            n = 1 + n_mod % 2
            ck.count()
            m3 = mappyfile.validate([d["dict"]] * n, version=ver(row["v"]))
            if (not m3) != row["list%d" % n] and not wrong and not wrong2:
                ck.violation("C09|accept|" + where + "|mappyfile.validate|list",
                             "mappyfile.validate([%d roots]): %s at version %s: contract accept = %s, messages %s" % (
                                 n, d["entry"], vtxt(row["v"]), row["list%d" % n], [m["error"][:60] for m in m3[:2]]),
                             dict(case(d, row, m3), roots=n))
    # (G3) same messages with and without a version
    for row in rows:
        d = bydoc[row["doc"]]
        if d["fault"] and row["v"] != NOV and d["id"] in baseline:
            msgs = [m["message"] for m in judges.validate(d["dict"], d["root"], row["v"])]
            if msgs != baseline[d["id"]]:
                ck.violation("C09|fault|%s.%s|judged-differently" % (d["holder"], d["key"]),
                             "unannotated fault judged differently with version %s: %s vs %s" % (vtxt(row["v"]), msgs, baseline[d["id"]]),
                             case(d, row, msgs))
    return n_mod


def bound_versions(vs):
    out = set()
    for e in vs.entries:
        for b in ([e["min"]] if e["min"] != versions.NOMIN else []) + ([e["max"]] if e["max"] != versions.NOMAX else []):
            out |= {b - 10, b, b + 10} | {b - f for f in FINE} | {b + f for f in FINE}
    return sorted(out)


def case(d, row, msgs):
    return {"kind": "probe", "doc": {k: d[k] for k in ("id", "root", "entry", "covers", "guards", "shadow", "fault", "ctx", "dict")},
            "row": row, "messages": msgs}


# ------------------------------------------------------------------ (G2) histories
def history_runs(ck, vs, vset, n, seed, tag, max_calls=5):
    docs = vs.entry_docs(entry_ids=set(H_REPS), contexts="one")
    docs += [d for d in vs.entry_docs(entry_ids={"layer.utfdata", "layer.opacity", "label.priority/anyOf/2"})
             if d["ctx"] in ("layer", "label", "layer/classes/labels")]
    docs += [d for d in vs.entry_docs(entry_ids={"style.size/anyOf/1", "symbol.antialias"}) if d["ctx"] in ("style", "symbol")]
    docs += [d for d in vs.fault_docs("root") if d["ctx"] in ("layer", "map")][:2]
    seen = set()
    docs = [d for d in docs if not (d["id"] in seen or seen.add(d["id"]))]
    cst, env = setup(vs, docs, H_NAMES, vset, tag, max_calls=max_calls, mode="sim", forms=ALL_FORMS)
    cfg = tlc.cfg_text(constants=cst, invariants=["Emit", "CacheSound", "HistoryIndependent"])
    # (the simulator checks - and so Emit prints - every candidate successor of the last step: one
    #  requested trace yields a bundle of histories sharing a prefix; ask for fewer, sample n)
    r = tlc.run("Validator", cfg, tag=tag, mode="simulate", simulate="num=%d" % max(5, n // 3), depth=max_calls + 2,
                seed=seed, workers=1, timeout=1800, env=env)
    ck.add_tlc(tag, r)
    if r.violated:
        raise MachineryFailure("Validator invariant %s violated in simulation" % r.violated)
    hs = [h for h in r.prints if isinstance(h, list) and h]
    if len(hs) < n * 0.9:
        raise MachineryFailure("TLC produced %d histories, wanted %d" % (len(hs), n))
    random.Random(seed).shuffle(hs)
    return docs, hs[:n]


def pair_histories(ck, vs, vset, tag, want, ops, names=("map", "layer"), length=2):
    """every history of exactly `length` calls over a small representative set (exhaustive, not
    sampled).  Two calls are the minimal witness of a cache-key / in-place-pruning leak; three calls
    (version-less first, then version A, then version B or version-less again) are the minimal witness
    of cache entries that share structure with one another"""
    docs = [d for d in vs.entry_docs(entry_ids={w.split("@")[0] for w in want}) if d["id"] in want]
    if len(docs) != len(want):
        raise MachineryFailure("representative documents missing: %s" % [d["id"] for d in docs])
    cst, env = setup(vs, docs, list(names), vset, tag, max_calls=length, mode="all", ops=ops)
    cfg = tlc.cfg_text(constants=cst, invariants=["Emit", "CacheSound", "HistoryIndependent"])
    r = tlc.run("Validator", cfg, tag=tag, workers=1, timeout=1800, env=env)
    ck.add_tlc(tag, r)
    if r.violated:
        raise MachineryFailure("Validator invariant %s violated" % r.violated)
    return docs, [h for h in r.prints if isinstance(h, list) and len(h) == length]


class Replayer:
    def __init__(self, vs, docs, tmpdir):
        import mappyfile
        from mappyfile import cli
        from click.testing import CliRunner
        self.vs = vs
        self.docs = {d["id"]: d for d in docs}
        self.mappyfile = mappyfile
        self.cli = cli
        self.runner = CliRunner()
        self.tmp = tmpdir
        self.reach = {}
        self.defaults = {}

    def reach_of(self, name):
        if name not in self.reach:
            self.reach[name] = sorted({eid for eid, _ in self.vs.reach_paths(name)})
        return self.reach[name]

    def absent(self, obj, name):
        seen_p, seen_a, anomalies = self.vs.present(obj, name)
        ab = sorted(e for e in self.reach_of(name) if not seen_p.get(e))
        partial = sorted(e for e in seen_a if seen_p.get(e))
        return {"absent": ab, "partial": partial, "anomalies": anomalies[:5]}

    def call(self, V, c):
        """perform one call; returns the answer in the form of the spec"""
        op, v = c["op"], ver(c["v"])
        if op in ("validate", "mod_validate"):
            ds = [self.docs[i] for i in c["docs"]]
            arg = ds[0]["dict"] if c["form"] == "dict" else [d["dict"] for d in ds]
            if op == "validate":
                return {"reject": bool(V.validate(arg, schema_name=ds[0]["root"], version=v))}
            return {"reject": bool(self.mappyfile.validate(arg, version=v))}
        if op == "get_versioned":
            return self.absent(V.get_versioned_schema(v, c["name"]), c["name"])
        if op == "export":
            txt = json.dumps(V.get_versioned_schema(v), sort_keys=True, indent=4)
            return self.absent(json.loads(txt), "map")
        if op == "mod_export":
            fn = os.path.join(self.tmp, "schema.json")
            if os.path.exists(fn):
                os.remove(fn)
            args = ["schema", fn] + ([] if v is None else ["--version=%s" % v])
            res = self.runner.invoke(self.cli.main, args)
            if res.exit_code != 0 or not os.path.exists(fn):
                return {"absent": None, "partial": [], "anomalies": ["cli exit %s %s" % (res.exit_code, str(res.exception)[:80])]}
            with open(fn, encoding="utf-8") as f:
                return self.absent(json.load(f), "map")
        if op == "mod_create":
            d = self.mappyfile.create(c["name"], version=v)
            if c["name"] not in self.defaults:
                self.defaults[c["name"]] = [e for e in self.vs.entries if e["kind"] == "kw" and e["has_default"]
                                            and e["file"] == c["name"]]
            return {"defaults": sorted(e["id"] for e in self.defaults[c["name"]] if e["kw"] in d)}
        raise MachineryFailure("unknown call %s" % c)

    @staticmethod
    def agrees(got, exp):
        if "reject" in exp:
            return got.get("reject") == exp["reject"]
        if "defaults" in exp:
            return got.get("defaults") == sorted(exp["defaults"])
        if "absent" in exp:
            return got.get("absent") == sorted(exp["absent"]) and not got.get("partial") and not got.get("anomalies")
        return False


def subj(c):
    return ",".join(c["docs"]) if "docs" in c else c.get("name")


def call_txt(c):
    lst = "[%d]," % len(c["docs"]) if c.get("form") == "list" else ""
    return "%s(%s%s)" % (c["op"], lst, vtxt(c["v"]))


def replay_history(ck, rp, hist, origin):
    V = impl.Validator()
    for i, step in enumerate(hist):
        c, exp = step["call"], step["exp"]
        ck.count()
        try:
            got = rp.call(V, c)
        except Exception as ex:  # noqa: BLE001
            ck.violation("C09|history|raised|%s|%s" % (call_txt(c), type(ex).__name__),
                         "%s raised %s: %s" % (call_txt(c), type(ex).__name__, str(ex)[:120]),
                         {"kind": "history", "history": hist, "step": i, "origin": origin})
            return False
        if rp.agrees(got, exp):
            continue
        # classify: alone on a fresh object?
        alone = rp.call(impl.Validator(), c)
        subject = subj(c)
        if not rp.agrees(alone, exp):
            # not a matter of history: same signatures as the entry probes / the schema table, which
            # enumerate these cases deterministically (a repeated signature is reported once)
            for sg in alone_signatures(ck, rp, c, alone, exp):
                ck.violation(sg, "%s on %s answers %s on a fresh Validator, the contract says %s" % (
                                 call_txt(c), subject, brief(alone), brief(exp)),
                             {"kind": "history", "history": [step], "step": 0, "origin": origin, "got": alone})
            continue
        culprit = None
        for j in range(i - 1, -1, -1):          # one earlier call that suffices
            W = impl.Validator()
            rp.call(W, hist[j]["call"])
            if not rp.agrees(rp.call(W, c), exp):
                culprit = call_txt(hist[j]["call"])
                break
        if culprit is None:                     # two earlier calls, in order
            for j2 in range(i - 1, 0, -1):
                for j1 in range(j2 - 1, -1, -1):
                    W = impl.Validator()
                    rp.call(W, hist[j1]["call"])
                    rp.call(W, hist[j2]["call"])
                    if not rp.agrees(rp.call(W, c), exp):
                        culprit = "%s,%s" % (call_txt(hist[j1]["call"]), call_txt(hist[j2]["call"]))
                        break
                if culprit:
                    break
        culprit = culprit or "several"
        ck.violation("C09|history|answer-changed|%s->%s" % (culprit, call_txt(c)),
                     "%s on %s answers %s after %s; alone (and by the contract) %s" % (
                         call_txt(c), subject, brief(got), culprit, brief(exp)),
                     {"kind": "history", "history": hist[: i + 1], "step": i, "origin": origin, "got": got})
        return False
    return True


def alone_signatures(ck, rp, c, got, exp):
    vs = rp.vs
    if "reject" in exp:
        # a list of roots: the signature names the root the contract rejects (judged alone, as a dict)
        d = rp.docs[c["docs"][0]]
        if len(c["docs"]) > 1 and exp["reject"]:
            for i in c["docs"]:
                one = {"op": "validate", "docs": [i], "form": "dict", "name": rp.docs[i]["root"], "v": c["v"]}
                if rp.call(impl.Validator(), one).get("reject"):
                    d = rp.docs[i]
                    break
        suffix = ("|mappyfile.validate" if c["op"] == "mod_validate" else "") + ("|list" if c.get("form") == "list" else "")
        if d["fault"]:
            return ["C09|fault|%s.%s|not-reported|%s" % (d["holder"], d["key"], "none" if c["v"] == NOV else "versioned")]
        where = "%s|%s" % (d["entry"], versions.vclass(vs.by_id[d["entry"]], c["v"]))
        if d["via_alt"]:
            where += "|via-alt|ctx=%s" % d["ctx"]
        return ["C09|accept|" + where + suffix]
    out = []
    for cls in vs_entry_classes(vs, c, got, exp) or ["?"]:
        base = "C09|schema|%s|get_versioned|%s" % (cls, c["name"])
        if c["op"] in ("export", "mod_export") and not (
                base in ck.violations or any(k.get("status") == "known" and common.match_sig(k["signature"], base) for k in ck.known)):
            base = "C09|schema|%s|%s|%s" % (cls, c["op"], c["name"])      # seen on the export path only
        elif c["op"] == "mod_create":
            base = "C09|schema|%s|mod_create|%s" % (cls, c["name"])
        out.append(base)
    return out


def vs_entry_classes(vs, c, got, exp):
    """for a schema answer that is wrong on a fresh object: which entries, relative to their bounds"""
    if "absent" in exp and got.get("absent") is not None:
        out = []
        for e in sorted(set(got["absent"]) ^ set(exp["absent"])):
            out.append("%s|%s|%s" % ("unpruned" if e in exp["absent"] else "missing", e, versions.vclass(vs.by_id[e], c["v"])))
        for e in got.get("partial", []):
            out.append("partially-pruned|%s|%s" % (e, versions.vclass(vs.by_id[e], c["v"])))
        if got.get("anomalies"):
            out.append("anomaly|%s" % got["anomalies"][0])
        return out
    if "defaults" in exp:
        return ["%s|%s|%s" % ("default-kept" if e in got["defaults"] else "default-dropped", e, versions.vclass(vs.by_id[e], c["v"]))
                for e in sorted(set(got["defaults"]) ^ set(exp["defaults"]))]
    return []


def brief(a):
    a = dict(a)
    for k in ("absent", "defaults"):
        if isinstance(a.get(k), list) and len(a[k]) > 6:
            a[k] = "%d entries" % len(a[k])
    return a


def tree_hash():
    """the files this property is about, as they are now (another process may be editing /repo)"""
    h = hashlib.sha1()
    base = os.path.join(common.REPO, "mappyfile")
    files = [os.path.join(base, f) for f in ("validator.py", "utils.py", "cli.py")]
    sdir = os.path.join(base, "schemas")
    files += [os.path.join(sdir, f) for f in sorted(os.listdir(sdir)) if f.endswith(".json")]
    for f in files:
        try:
            with open(f, "rb") as fh:
                h.update(f.encode() + b"\0" + fh.read())
        except OSError:
            h.update(f.encode() + b"\0<missing>")
    return h.hexdigest()


# ------------------------------------------------------------------ run
def run(tier):
    ck = common.Check("C09", tier, "model_checking", RULE)
    quick = tier == "quick"
    seed = ck.seed
    tree0 = tree_hash()
    vs = versions.get()
    if len(vs.entries) < 50:
        raise MachineryFailure("only %d annotated entries found" % len(vs.entries))
    t0 = time.time()
    # (M)
    model_check(ck, vs, quick)
    ck.notes.append("model checking %.1fs" % (time.time() - t0))
    t0 = time.time()
    # (G1)+(G3): quick = every entry x its versions in every context it has; rows are cheap
    docs = vs.entry_docs(contexts="all")
    for d in docs:     # non-tenth versions next to the bounds: quick = in the entry's own block type as root
        d["fine"] = (not quick) or d["root"] == d["holder"]
    faults = vs.fault_docs("root" if quick else "all")
    # Versions of this run = every version at / next to a bound: fault documents and every schema name
    # are judged at each of them
    rows, srows = tables(ck, vs, docs + faults, bound_versions(vs), vs.types, "c09_table")
    if quick:      # fault documents: a seed-picked version set (and no version) instead of every version
        keep = set(VERSION_SETS[seed % len(VERSION_SETS)]) | {NOV}
        rows = [r for r in rows if r["vc"] != "fault" or r["v"] in keep]
        # schema objects at the non-tenth versions: every schema name but the MAP schema (the largest;
        # it is the union of the others and is walked at every tenth)
        # and one of the distances (seed-picked); create() is compared at the tenths only
        fd = FINE[seed % len(FINE)]
        srows = [r for r in srows if r["v"] == NOV or r["v"] % 10 == 0 or
                 (r["name"] != "map" and r["v"] % 10 in (fd, 10 - fd))]
    n_mod = run_probes(ck, vs, docs + faults, rows, module_every=(23 if quick else 3))
    ck.sample({"probe": rows[len(rows) // 3], "document": next(d["dict"] for d in docs + faults if d["id"] == rows[len(rows) // 3]["doc"])})
    ck.notes.append("probes %.1fs" % (time.time() - t0))
    t0 = time.time()
    tmp = tempfile.mkdtemp(prefix="c09_")
    n_hist = 0
    n_pairs = 0
    n_triples = 0
    steps = 0
    try:
        # schema objects and create() for every schema name x every version at / next to a bound
        run_schemas(ck, vs, srows, tmp, quick)
        ck.notes.append("schemas %.1fs" % (time.time() - t0))
        t0 = time.time()
        # (G2)
        # quick: one simulation over two version sets at once (the first and a seed-picked one)
        sets = [VERSION_SETS[0] + VERSION_SETS[1 + seed % (len(VERSION_SETS) - 1)] + FINE_H] if quick else \
            [x + FINE_H for x in VERSION_SETS]
        per = 200 if quick else 1300
        for k, vset in enumerate(sets):
            hdocs, hs = history_runs(ck, vs, vset, per, seed * 100 + k, "c09_hist%d" % k, max_calls=4 if quick else 5)
            rp = Replayer(vs, hdocs, tmp)
            for h in hs:
                replay_history(ck, rp, h, "sim:%s" % (vset,))
                ck.nontrivial([(s["call"]["op"], subj(s["call"]), s["call"]["v"]) for s in h])
                steps += len(h)
            n_hist += len(hs)
            if k == 0:
                ck.sample({"history": hs[0]})
        if quick:      # calls on the object only; two root schemas that share a sub-schema (LABEL holds STYLEs),
            # a STYLE keyword in each, two versions + none: 144 histories (same-name pairs are also the
            # prefixes of the three-call histories below)
            pdocs, ps = pair_histories(ck, vs, (590, 770), "c09_pairs", ("style.gap@style", "style.gap@label/styles"),
                                       ("validate", "get_versioned"), names=["label", "style"])
        else:
            pdocs, ps = pair_histories(ck, vs, (500, 760, 770), "c09_pairs",
                                       ("layer.opacity@map/layers", "label.priority/anyOf/2@map/layers/classes/labels",
                                        "layer.utfdata@layer"), ALL_OPS)
        # every three-call history on a small schema (STYLE: cheap to expand and to walk): two documents
        # whose entries are out of range below / above, two versions + none, validate + get_versioned
        tdocs, ts = pair_histories(ck, vs, (590, 770), "c09_triples", ("style.gap@style", "style.antialias@style"),
                                   ("validate", "get_versioned"), names=["style"], length=3)
        batches = [(pdocs, ps, "all-pairs"), (tdocs, ts, "all-triples")]
        if not quick:
            t2docs, t2s = pair_histories(ck, vs, (760, 770), "c09_triples_map",
                                         ("layer.opacity@map/layers", "layer.utfdata@layer"),
                                         ("validate", "get_versioned"), names=["map", "layer"], length=3)
            batches.append((t2docs, t2s, "all-triples-map"))
        for bdocs, bs, origin in batches:
            rp = Replayer(vs, bdocs, tmp)
            for h in bs:
                replay_history(ck, rp, h, origin)
                ck.nontrivial([(s["call"]["op"], subj(s["call"]), s["call"]["v"]) for s in h])
                steps += len(h)
        n_pairs = len(ps)
        n_triples = sum(len(b[1]) for b in batches[1:])
    finally:
        shutil.rmtree(tmp, ignore_errors=True)
    ck.notes.append("histories %.1fs" % (time.time() - t0))
    if tree_hash() != tree0:
        raise MachineryFailure("validator.py / utils.py / cli.py / schemas under %s changed while the check was running; "
                               "the comparison is void, run it again" % common.REPO)
    return ck.finish(exhaustive=False, coverage_extra={
        "annotated_entries": len(vs.entries), "probe_documents": len(docs), "fault_documents": len(faults),
        "probe_rows": len(rows), "schema_rows": len(srows), "module_level_probes": n_mod, "histories": n_hist, "exhaustive_two_call_histories": n_pairs, "exhaustive_three_call_histories": n_triples, "history_steps": steps,
        "contexts_via_alternative": sum(1 for d in docs if d["via_alt"])})


def replay(path):
    with open(path) as f:
        rec = json.load(f)
    c = rec["case"]
    vs = versions.get()
    if c.get("kind") == "probe":
        d, row = c["doc"], c["row"]
        msgs = impl.Validator().validate(d["dict"], schema_name=d["root"], version=ver(row["v"]))
        print("document:", json.dumps(d["dict"]))
        print("Validator().validate(d, schema_name=%r, version=%r) -> %s" % (d["root"], ver(row["v"]), msgs))
        print("spec: accept = %s" % row["accept"])
        bad = (not msgs) != row["accept"]
    else:
        tmp = tempfile.mkdtemp(prefix="c09_")
        try:
            ids = {i for s in c["history"] for i in s["call"].get("docs", [])}
            docs = [d for d in vs.entry_docs() + vs.fault_docs("all") if d["id"] in ids]
            rp = Replayer(vs, docs, tmp)
            V = impl.Validator()
            bad = False
            for s in c["history"]:
                got = rp.call(V, s["call"])
                ok = rp.agrees(got, s["exp"])
                print("%-22s %-40s got %s expected %s %s" % (call_txt(s["call"]), subj(s["call"]),
                                                            brief(got), brief(s["exp"]), "" if ok else "<-- differs"))
                bad = bad or not ok
        finally:
            shutil.rmtree(tmp, ignore_errors=True)
    print("VIOLATION reproduced" if bad else "not reproduced")
    return 1 if bad else 0
