"""C03 - pretty-printed text says exactly what the dictionary says.

(M) TLC: the Writer contract is balanced / content-preserving on bounded dicts.
(G) verdict: TLC emits documents and edit histories together with the *line events* spec/Writer.tla
    predicts for the resulting dict; the real dict (loaded, then edited through the dict API) is
    dumped, the independent reader (harness/mapreader.py) turns the text into line events, and the
    two sequences must agree line by line: kind, keyword, nesting level, and for every value its
    lexical class and content.
"""
from __future__ import annotations
import os
from .. import common, docs, concretise, project, impl, tlc, vocab, mapreader, events

RULE = ("events(mapreader(dumps(dict))) == events predicted by spec/Writer.tla (line kind, keyword, level, "
        "lexical class and content of each value); hidden keys never printed; unprintable values refused")


def writer_walks(n, max_steps, seed, tag, ck, ids=(1, 2, 3, 4)):
    vocab.get()
    cfg = tlc.cfg_text(next_="WNext", constants={"MaxDepth": 5, "MaxSteps": max_steps, "Ids": set(ids),
                                                  "StepPosts": False, "Mode": "walk"},
                       invariants=["Emit", "WriterBalanced", "SepSameContent"])
    r = tlc.run("Writer", cfg, tag=tag, mode="simulate", simulate="num=%d" % n, depth=max_steps + 5, seed=seed,
                timeout=1800)
    if r.violated:
        raise common.MachineryFailure("Writer model property %s violated" % r.violated)
    ck.add_tlc(tag, r)
    return [h for h in r.prints if isinstance(h, list)]


def writer_slots(tag, ck):
    vocab.get()
    cfg = tlc.cfg_text(init="PInit", next_="PWNext",
                       constants={"MaxDepth": 5, "MaxSteps": 12, "Ids": {1}, "StepPosts": False, "Mode": "slots"},
                       invariants=["PEmit"])
    r = tlc.run("WriterSlots", cfg, tag=tag, workers=1, timeout=900)
    ck.add_tlc(tag, r)
    return [h for h in r.prints if isinstance(h, list)]


def where_of(hist, key, shape):
    return "%s:%s" % (key, shape)


def check_doc(ck, conc, loads, dumps, hist, origin, quote='"'):
    root = docs.root_type(hist)
    toks = conc.tokens(concretise.with_root(hist, root))
    text, _ = concretise.assemble(toks)
    ck.count()
    try:
        d = loads(text)
    except Exception:  # noqa: BLE001
        return None          # C02's business
    exp = hist[-1]["events"]
    try:
        out = dumps(d)
    except Exception as ex:  # noqa: BLE001
        ck.violation("C03|dumps-raised|%s|%s" % (where_of(hist, root, ""), type(ex).__name__),
                     "dumps raised %s for a loaded document: %s" % (type(ex).__name__, str(ex)[:100]),
                     {"text": text, "origin": origin})
        return None
    try:
        _, got, problems = mapreader.read(out)
    except mapreader.ReaderError as ex:
        ck.violation("C03|unreadable|%s" % where_of(hist, root, ""),
                     "independent reader cannot read the printed text: %s" % ex, {"text": text, "printed": out})
        return None
    df = events.compare(conc, exp, got, problems)
    if df:
        i, kind, detail, key, shape = df
        ck.violation("C03|%s|%s" % (kind, where_of(hist, key, shape)),
                     "printed line %d differs from the contract (%s): %s" % (i + 1, kind, detail),
                     {"text": text, "printed": out, "expected_events": exp[max(0, i - 1):i + 2], "origin": origin})
    if "__" in out and any(("__%s__" % k) in out for k in ("type", "position", "comments", "tokens", "verif")):
        ck.violation("C03|hidden-key-printed", "a __name__ key appears in the output", {"printed": out})
    return d


def public_writers(ck, d, opts):
    """dumps, dump and save (the three writers the property names) produce the text of the printer under the same options"""
    import io
    import mappyfile
    ref = impl.PrettyPrinter(**opts).pprint(d)
    outs = {}
    try:
        outs["dumps"] = mappyfile.dumps(d, **opts)
        fp = io.StringIO()
        mappyfile.dump(d, fp, **opts)
        outs["dump"] = fp.getvalue()
        fn = os.path.join(common.VERIF, "build", "c03_save.%d.map" % os.getpid())
        os.makedirs(os.path.dirname(fn), exist_ok=True)
        mappyfile.save(d, fn, **opts)
        with open(fn, newline="", encoding="utf-8") as f:
            outs["save"] = f.read()
        os.unlink(fn)
    except Exception as ex:  # noqa: BLE001
        ck.violation("C03|writer-raised|%s" % type(ex).__name__, "a public writer raised %s: %s" % (type(ex).__name__, str(ex)[:100]), {"opts": opts})
        return
    ck.count(3)
    for name, out in outs.items():
        if out != ref:
            ck.violation("C03|writer-differs|%s|%s" % (name, ",".join(sorted(k for k in opts))),
                         "mappyfile.%s writes another text than the printer for the same dictionary and options %r" % (name, opts),
                         {"opts": opts, "writer": name, "text": out[:2000], "printer_text": ref[:2000]})


def editor_walks(n, seed, tag, ck, max_steps=10, max_edits=5):
    vocab.get()
    cfg = tlc.cfg_text(init="EInit", next_="ENext",
                       constants={"MaxDepth": 5, "MaxSteps": max_steps, "Ids": {1, 2, 3, 4}, "StepPosts": False,
                                  "Mode": "walk", "MaxEdits": max_edits},
                       invariants=["EEmit", "EditBalanced", "RefusalOnlyAfterReadMissing"])
    r = tlc.run("Editor", cfg, tag=tag, mode="simulate", simulate="num=%d" % n, depth=max_steps + max_edits + 5,
                seed=seed, timeout=1800)
    if r.violated:
        raise common.MachineryFailure("Editor model property %s violated" % r.violated)
    ck.add_tlc(tag, r)
    return [h for h in r.prints if isinstance(h, list)]


def plural(t):
    return t + "es" if t.endswith("s") else t + "s"


def nav(d, path):
    for key, idx in path:
        d = d[key] if idx == 0 else d[key][idx - 1]
    return d


def apply_edit(conc, loads, d, op):
    k = op["k"]
    if k == "reload":
        return loads(impl.dumper()(d))
    blk = nav(d, op["path"])
    if k == "set":
        blk[concretise.case(op["key"], op["kc"])] = conc.expected(op["pv"])
    elif k == "del":
        del blk[concretise.case(op["key"], op["kc"])]
    elif k == "addchild":
        acts = [{"a": "root", "type": op["type"], "kc": "U"},
                {"a": "attr", "key": op["key"], "kc": "U", "val": op["val"]}]
        text, _ = concretise.assemble(conc.tokens(acts))
        obj = loads(text)
        if op["single"]:
            blk[op["type"]] = obj
        else:
            blk[plural(op["type"])].append(obj)
    elif k == "removechild":
        del blk[op["key"]][op["index"] - 1]
    elif k == "aliaschild":
        blk[op["key"]].append(blk[op["key"]][op["index"] - 1])
    elif k == "reverse":
        blk[op["key"]].reverse()
    elif k == "update":
        import mappyfile
        leaf = {concretise.case(op["key"], op["kc"]): conc.expected(op["pv"])}
        if op["delkey"]:
            leaf[op["delkey"]] = "__delete__"
        patch = leaf
        for key, idx in reversed(op["path"]):
            patch = {key: patch} if idx == 0 else {key: [None] * (idx - 1) + [patch]}
        res = mappyfile.update(d, patch)
        if res is not d:
            raise AssertionError("update did not return d1")
    elif k == "sethidden":
        blk[op["key"]] = "hidden VALUE 1 2 3"
    elif k == "sethiddenkv":
        blk[op["kv"]][op["key"]] = "hidden VALUE 1 2 3"
    elif k == "readmissing":
        _ = blk[concretise.case(op["key"], op["kc"])]
    else:
        raise KeyError(k)


def check_history(ck, conc, loads, dumps, hist):
    fin = [i for i, a in enumerate(hist) if a["a"] == "finish"][0]
    doc = hist[: fin + 1]
    d = check_doc(ck, conc, loads, dumps, doc, "edit-base")
    if d is None:
        return
    ops = []
    for a in hist[fin + 1:]:
        op = a["op"]
        ops.append(op)
        ck.count()
        sig_where = "%s|%s" % (op["k"], op.get("key", ""))
        try:
            nd = apply_edit(conc, loads, d, op)
            if nd is not None:
                d = nd
        except Exception as ex:  # noqa: BLE001
            ck.violation("C03|edit-raised|%s|%s" % (sig_where, type(ex).__name__),
                         "dict API edit %s raised %s: %s" % (op["k"], type(ex).__name__, str(ex)[:100]),
                         {"ops": ops})
            return
        try:
            out = dumps(d)
            raised = None
        except Exception as ex:  # noqa: BLE001
            out, raised = None, ex
        if a["out"]["refuse"]:
            if raised is None:
                ck.violation("C03|not-refused|%s" % sig_where,
                             "a value without Mapfile representation was written instead of refused (after %s %s)" % (op["k"], op.get("key")),
                             {"ops": ops, "printed": out})
                return
            continue
        if raised is not None:
            ck.violation("C03|dumps-raised|%s|%s" % (sig_where, type(raised).__name__),
                         "dumps raised %s after edit %s: %s" % (type(raised).__name__, op["k"], str(raised)[:100]),
                         {"ops": ops})
            return
        try:
            _, got, problems = mapreader.read(out)
        except mapreader.ReaderError as ex:
            ck.violation("C03|unreadable|%s" % sig_where, "independent reader cannot read the printed text: %s" % ex,
                         {"ops": ops, "printed": out})
            return
        if "hidden VALUE" in out.replace("HIDDEN", "hidden").replace("value", "VALUE"):
            ck.violation("C03|hidden-key-printed|edit", "a __name__ key set through the dict API appears in the output",
                         {"ops": ops, "printed": out})
            return
        df = events.compare(conc, a["out"]["events"], got, problems)
        if df:
            i, kind, detail, key, shape = df
            ck.violation("C03|%s|%s:%s|after-%s" % (kind, key, shape, op["k"]),
                         "after edit %s: printed line %d differs from the contract (%s): %s" % (op["k"], i + 1, kind, detail),
                         {"ops": ops, "printed": out, "expected_events": a["out"]["events"][max(0, i - 1):i + 2]})
            return


def selftest(conc, hists, quote='"'):
    """reader(reference rendering of predicted events) == predicted events (no mappyfile involved)"""
    for h in hists:
        exp = h[-1]["events"]
        txt = events.reference_text(conc, exp, quote=quote)
        _, got, problems = mapreader.read(txt)
        df = events.compare(conc, exp, got, problems)
        if df:
            raise common.MachineryFailure("reader self-test failed: %r on\n%s" % (df, txt))


def run(tier):
    ck = common.Check("C03", tier, "model_checking", RULE)
    seed = ck.seed
    quick = tier == "quick"
    loads = impl.loader(expand_includes=False)
    dumps = impl.dumper()
    # history before the first dump of this process: objects of every type created for one MapServer version and
    # a versioned validation ("what the dictionary says" must not depend on which calls came first)
    import mappyfile
    ver = [5.0, 6.0, 7.6, 8.0][seed % 4]
    for t in sorted(vocab.get()["schema"]["types"]):
        try:
            mappyfile.create(t, version=ver)
        except Exception:  # noqa: BLE001
            pass
    try:
        mappyfile.validate(mappyfile.loads("MAP NAME 'x' LAYER NAME 'l' TYPE POINT CLASS STYLE WIDTH 1 END LABEL SIZE 8 END END END END"), version=ver)
    except Exception:  # noqa: BLE001
        pass
    if True:
        # (M) exhaustive: the Writer contract is balanced and separate_complex_types content-preserving on every
        # document of <= 2 builder actions over the whole vocabulary
        cfg = tlc.cfg_text(next_="WNext", constants={"MaxDepth": 5, "MaxSteps": 2, "Ids": {1} if quick else {1, 2}, "StepPosts": False, "Mode": "all"},
                           invariants=["WriterBalanced", "SepSameContent"]) + ("CONSTANT Cases <- CasesOne\n" if quick else "")
        r = tlc.run("Writer", cfg, tag="writer_mc", workers=16, timeout=3000)
        ck.add_tlc("writer_mc", r)
        if r.violated:
            ck.violation("C03|model|%s" % r.violated, "Writer model property %s violated" % r.violated, {"trace": tlc.error_trace(r)})
    sl = writer_slots("wslots", ck)
    conc = concretise.Concretiser(seed, avoid_quote='"', no_multiline=False)
    selftest(conc, sl[:400])
    for h in sl:
        check_doc(ck, conc, loads, dumps, h, "slots")
        ck.nontrivial(h[:-1])
    n = 400 if quick else 6000
    hs = writer_walks(n, 25, seed + 1, "wwalks", ck)
    for j, h in enumerate(hs):
        q = '"' if j % 2 == 0 else "'"
        conc = concretise.Concretiser(seed * 1000 + j, avoid_quote=q)
        if j < 50:
            selftest(conc, [h], quote=q)
        # every other document is loaded with position/comment bookkeeping on: hidden keys everywhere
        ld = loads if j % 4 < 2 else impl.loader(include_position=True, include_comments=(j % 4 == 3), expand_includes=False)
        # the content of the text must not depend on the layout options either
        lay = [{}, {"align_values": True, "indent": 2}, {"align_values": True, "indent": 1, "spacer": "\t"}, {"indent": 0},
               {"align_values": True, "indent": 3, "newlinechar": "\r\n"}, {"align_values": True, "indent": 0}][j % 6]
        d = check_doc(ck, conc, ld, impl.dumper(quote=q, **lay), h, "walk", quote=q)
        ck.nontrivial(h[:-1])
        if d is not None and j % 3 == 0:
            public_writers(ck, d, dict(quote=q, **lay))
    ck.sample({"events": hs[0][-1]["events"][:5]})
    # edit histories through the dict API
    ne = 300 if quick else 5000
    he = editor_walks(ne, seed + 2, "editor", ck, max_edits=5 if quick else 8)
    for j, h in enumerate(he):
        conc = concretise.Concretiser(seed * 1000 + 300 + j, avoid_quote='"')
        check_history(ck, conc, loads, dumps, h)
        ck.nontrivial(h)
    ck.sample({"edit_history": [a["op"] for a in he[0] if a["a"] == "edit"][:4]})
    from .. import quoting
    quoting.run(ck, "C03", tier, loads, impl.dumper)
    return ck.finish(coverage_extra={"slot_probes": len(sl), "walks": len(hs), "edit_histories": len(he)})
