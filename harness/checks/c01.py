"""C01 - parse -> pretty-print -> parse preserves Mapfile content.

(T) verdict: for every case (corpus file, slot-probe document, TLC-simulated document) the harness
    records the typed projections of d1 = loads(text) and d2 = loads(dumps(d1)); spec/TraceRoundTrip.tla
    decides TreeEq with the two allowances of the property (enum letter case; number -> equal numeric
    string in string-typed slots) using the slot typing of the extracted vocabulary, and the clause
    "the written text is always accepted".
(G) the documents come from spec/Reader.tla / spec/SlotProbe.tla (every slot of the vocabulary).
"""
from __future__ import annotations
import os
import re
from .. import common, docs, concretise, project, impl, tracecheck, corpus

RULE = ("TreeEq(project(loads(t)), project(loads(dumps(loads(t))))) decided by spec/TraceRoundTrip.tla (allowances: "
        "enum case, number->numeric string in string slots; exclusions marked per value); distinct = distinct documents")


def looks_like(s):
    t = s.strip()
    if t.startswith("(") and t.endswith(")"):
        return "paren"
    if t.startswith("/") and (t.endswith("/") or t.endswith("/i")) and len(t) > 1:
        return "slash"
    if t.startswith("{") and t.endswith("}"):
        return "brace"
    if t.startswith("[") and t.endswith("]"):
        return "bracket"
    if t.endswith("'i") or t.endswith('"i'):
        return "istring"
    if t.upper().startswith("NOT ") :
        return "not"
    return ""


def mark(v, itn, quote, generated=False):
    """add the exclusion marks of the quantifier to every string of a projected value.

    For corpus files the source shape of a value is not known, so every string that looks like an
    expression / regex / list / binding counts as a look-alike.  For generated documents the source shape
    is known: string contents never look like one of those (the pools see to it), so a value of that form
    IS an expression / regex / list / binding, printed verbatim (no look-alike, no output quoting)."""
    if v["t"] == "dict":
        for it in v["items"]:
            mark(it["v"], itn, quote, generated)
    elif v["t"] == "list":
        for e in v["elems"]:
            mark(e, itn, quote, generated)
    elif v["t"] == "str":
        s = itn.strs[v["id"] - 1]
        lk = looks_like(s)
        v["q"] = re.search(r"(?<!\\)" + re.escape(quote), s) is not None      # an *unescaped* output quote
        v["lk"] = lk
        if generated and lk:
            v["q"] = False
            v["lk"] = ""
    return v


def anyq(v):
    if v["t"] == "dict":
        return any(anyq(it["v"]) for it in v["items"])
    if v["t"] == "list":
        return any(anyq(e) for e in v["elems"])
    return bool(v.get("q"))


def make_record(tid, d1, dumps, loads, quote='"', generated=False):
    itn = tracecheck.Interner()
    p1 = project.project(d1)
    rec = {"tid": tid, "d1": mark(itn.value(p1), itn, quote, generated)}
    try:
        text2 = dumps(d1)
    except Exception as ex:  # noqa: BLE001
        return None, ("dumps-raised", type(ex).__name__, str(ex)[:150]), None
    try:
        d2 = loads(text2)
        rec["accepted2"] = True
        rec["d2"] = itn.value(project.project(d2))
    except Exception as ex:  # noqa: BLE001
        rec["accepted2"] = False
        rec["d2"] = {"t": "none"}
        rec["err"] = "%s: %s" % (type(ex).__name__, str(ex)[:120])
    rec["anyq"] = anyq(rec["d1"])
    rec.update(itn.tables())
    return rec, None, text2


def run(tier):
    ck = common.Check("C01", tier, "model_checking", RULE)
    seed = ck.seed
    quick = tier == "quick"
    loads = impl.loader(expand_includes=False)
    dumps = impl.dumper()
    records = []
    meta = {}

    def add(tid, d1, origin, text, quote='"', dmp=None):
        ck.count()
        rec, err, text2 = make_record(tid, d1, dmp or dumps, loads, quote, generated=not origin.startswith("corpus"))
        if err:
            ck.violation("C01|%s|%s|%s" % (err[0], origin.split(":")[0], err[1]),
                         "dumps raised %s on a loaded document: %s" % (err[1], err[2]), {"text": text, "origin": origin})
            return
        records.append(rec)
        meta[tid] = (origin, text, text2)

    # corpus files (parsed with includes expanded from their own directory)
    files = corpus.files() if not quick else corpus.sample(70, seed)
    p = impl.Parser(expand_includes=True)
    m = impl.MapfileToDict()
    nparsed = 0
    for fn in files:
        try:
            d1 = m.transform(p.parse_file(fn))
        except Exception:  # noqa: BLE001
            continue          # not accepted by loads: outside the quantifier (C11 covers rejection)
        nparsed += 1
        add("corpus:" + os.path.relpath(fn, common.REPO), d1, "corpus:" + os.path.basename(fn), fn)
    # slot probes
    sl = docs.slots(ck=ck)
    conc = concretise.Concretiser(seed)
    for i, h in enumerate(sl):
        root = docs.root_type(h)
        text, _ = concretise.assemble(conc.tokens(concretise.with_root(h, root)))
        try:
            d1 = loads(text)
        except Exception:  # noqa: BLE001
            continue
        info = h[-1]["info"]
        add("slot:%d" % i, d1, "slot:%s.%s:%s:%s@%s" % (tuple(info["slot"]) + (info["pos"],)), text)
        ck.nontrivial(h[:-1])
    # targeted: every string-valued slot with boundary string contents (escaped quotes at the start / middle / end,
    # the other quote character, backslashes, leading / trailing blanks, empty)
    specials = ['Pipe 5\\"', '\\"start', 'mid \\" dle', "it's", "'both ends'", "", " lead", "trail ", "back\\slash\\dir",
                "semi;colon, comma", "100% sure", "tab\there", "new\nline", "x" * 300]
    strslots = [h for h in sl if h[-1]["info"]["slot"][2] == "str" and h[-1]["info"]["pos"] == "alone"]
    for k, sp in enumerate(specials):
        concs = concretise.Concretiser(seed, strings=[sp])
        for i, h in enumerate(strslots):
            root = docs.root_type(h)
            text, _ = concretise.assemble(concs.tokens(concretise.with_root(h, root)))
            try:
                d1 = loads(text)
            except Exception:  # noqa: BLE001
                continue
            info = h[-1]["info"]
            add("special:%d:%d" % (k, i), d1, "slot:%s.%s:str:special%d@alone" % (info["slot"][0], info["slot"][1], k), text)
    # walks
    n = 400 if quick else 8000
    hs = docs.walks(n, max_steps=30 if quick else 60, seed=seed + 11, tag="c01walks", ck=ck)
    for j, h in enumerate(hs):
        q = '"' if j % 3 else "'"
        conc = concretise.Concretiser(seed * 1000 + j)
        root = docs.root_type(h)
        text, _ = concretise.assemble(conc.tokens(concretise.with_root(h, root)))
        try:
            d1 = loads(text)
        except Exception:  # noqa: BLE001
            continue
        add("walk:%d" % j, d1, "walk", text, quote=q, dmp=impl.dumper(quote=q))
        ck.nontrivial(h[:-1])
    def canary(r):
        def bump(v):
            if v["t"] == "dict":
                return any(bump(it["v"]) for it in v["items"])
            if v["t"] == "list":
                return any(bump(e) for e in v["elems"])
            if v["t"] in ("int", "float") and "id" in v:
                v["t"] = "str"          # a number turned into some unrelated string
                v["id"] = 1
                return True
            return False
        if not r.get("accepted2") or r.get("anyq"):
            return None
        return r if bump(r["d2"]) else None
    # lists of blocks at the root: two or three generated documents in one text, optionally with a root-level
    # key-value block (METADATA / VALIDATION / CONNECTIONOPTIONS) in front of, between or behind them
    kvs = ['METADATA\n  "wms_title" "a b"\n  "k" "v"\nEND\n', "VALIDATION\n  'qstring' '^[a-z]+$'\nEND\n", 'CONNECTIONOPTIONS\n  "FLATTEN" "YES"\nEND\n']
    for j in range(0, min(len(hs) - 3, 120 if quick else 1500), 3):
        parts = []
        for h in hs[j:j + (2 if j % 2 else 3)]:
            conc = concretise.Concretiser(seed * 1000 + 7 + j)
            t, _ = concretise.assemble(conc.tokens(concretise.with_root(h, docs.root_type(h))))
            parts.append(t)
        if j % 4 == 0:
            parts.insert(j % (len(parts) + 1), kvs[j % 3])
        text = "\n".join(parts)
        try:
            d1 = loads(text)
        except Exception:  # noqa: BLE001
            continue
        add("rootlist:%d" % j, d1, "rootlist", text)
    # every string over the alphabet of spec/Quoting.tla, both quotes, every kind of string slot
    from .. import quoting
    quoting.run(ck, "C01", tier, loads, impl.dumper)
    # every number lexeme over the alphabet of spec/Numbers.tla in every kind of numeric slot
    from .. import numlex as numbers
    numbers.run(ck, "C01", tier, loads, dumps)
    # every "#..." string over the alphabet of spec/HexLex.tla (hex colour or plain string), both quotes in and out
    from .. import hexlex
    hexlex.run(ck, "C01", tier, loads, impl.dumper)
    # every /regex/[i] lexeme over the alphabet of spec/RegexLex.tla after EXPRESSION and FILTER, both output quotes
    from .. import regexlex
    regexlex.run(ck, "C01", tier, loads, impl.dumper)
    # every [name] attribute binding over the pieces of spec/BindLex.tla (characters and whole keywords) in five kinds of slot
    from .. import bindlex
    bindlex.run(ck, "C01", tier, loads, impl.dumper)
    verdicts = tracecheck.validate("TraceRoundTrip", records, "c01", ck=ck, chunk=800, canary=canary)
    skipped = 0
    for tid, v in verdicts.items():
        vd = v["verdict"]
        if vd == "ok":
            continue
        if vd == "skipped-excluded":
            skipped += 1
            continue
        origin, text, text2 = meta[tid]
        kind = origin.split(":")[0]
        where = origin if kind == "slot" else kind
        ck.violation("C01|%s|%s" % (vd, where if kind == "slot" else (kind + (":" + origin.split(":", 1)[1] if kind == "corpus" else ""))),
                     "round trip differs (%s) for %s" % (vd, origin), {"text": text, "printed": text2, "verdict": v})
    ck.sample({"tid": records[0]["tid"], "verdict": verdicts[records[0]["tid"]]})
    ck.sample({"walk_text": meta[[t for t in meta if t.startswith("walk")][0]][1][:400]})
    ck.notes.append("corpus files: %d listed, %d accepted by loads; %d cases skipped because they contain a documented-excluded value" % (len(files), nparsed, skipped))
    return ck.finish(coverage_extra={"corpus_files": nparsed, "slot_probes": len(sl), "walks": len(hs),
                                     "traces_validated_against_impl": len(verdicts), "skipped_excluded": skipped})
