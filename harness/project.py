"""Projection of real mappyfile dictionaries into the abstract domain, and typed comparison.

project(d) -> ("dict", type, [(key, value) ...])   hidden __x__ keys separated out,
              lists/tuples -> list, scalars kept with their exact Python type.
"""
from __future__ import annotations


def is_hidden(k):
    return isinstance(k, str) and k.startswith("__") and k.endswith("__")


def project(v):
    if isinstance(v, dict):
        items = [(k, project(x)) for k, x in v.items() if not is_hidden(k)]
        return ("dict", v.get("__type__", "") if "__type__" in v.keys() else "", items)
    if isinstance(v, (list, tuple)):
        return [project(x) for x in v]
    return v


def typed_eq(a, b):
    if isinstance(a, bool) or isinstance(b, bool):
        return isinstance(a, bool) and isinstance(b, bool) and a == b
    if isinstance(a, int) and isinstance(b, int):
        return a == b
    if isinstance(a, float) and isinstance(b, float):
        return a == b or (a != a and b != b)
    if isinstance(a, str) and isinstance(b, str):
        return a == b
    return False


def diff(exp, got, path=()):
    """first difference between an expected and an observed projection, or None.
    Returns (path, kind, expected, got)"""
    if isinstance(exp, tuple) and exp and exp[0] == "dict":
        if not (isinstance(got, tuple) and got and got[0] == "dict"):
            return (path, "not-a-dict", _short(exp), _short(got))
        if exp[1] != got[1]:
            return (path, "type", exp[1], got[1])
        ek = [k for k, _ in exp[2]]
        gk = [k for k, _ in got[2]]
        if ek != gk:
            missing = [k for k in ek if k not in gk]
            extra = [k for k in gk if k not in ek]
            kind = "keys-missing" if missing else ("keys-extra" if extra else "key-order")
            return (path, kind, ek, gk)
        for (k, ev), (_, gv) in zip(exp[2], got[2]):
            d = diff(ev, gv, path + (k,))
            if d:
                return d
        return None
    if isinstance(exp, list):
        if not isinstance(got, list):
            return (path, "not-a-list", _short(exp), _short(got))
        if len(exp) != len(got):
            return (path, "list-length", len(exp), len(got))
        for i, (e, g) in enumerate(zip(exp, got)):
            d = diff(e, g, path + (i,))
            if d:
                return d
        return None
    if isinstance(got, (list, tuple)):
        return (path, "not-a-scalar", _short(exp), _short(got))
    if not typed_eq(exp, got):
        kind = "value" if type(exp) is type(got) else "pytype"
        return (path, kind, repr(exp), repr(got))
    return None


def _short(x):
    s = repr(x)
    return s if len(s) < 200 else s[:200] + "..."


def path_sig(path):
    """stable signature of a path: list indexes dropped"""
    return "/".join(str(p) for p in path if not isinstance(p, int))
