"""The Mapfiles shipped with the repository (tests/, docs/), loaded through the real parser."""
from __future__ import annotations
import os
import random
from . import common

_EXT = (".map", ".sym")


def files():
    out = []
    for top in ("tests", "docs"):
        for dp, dn, fns in os.walk(os.path.join(common.REPO, top)):
            if "performance" in dp:
                continue
            for fn in sorted(fns):
                if fn.lower().endswith(_EXT):
                    out.append(os.path.join(dp, fn))
    return sorted(out)


def sample(n, seed):
    """n files: the smaller ones first half, random other half (deterministic per seed)"""
    fs = files()
    if n >= len(fs):
        return fs
    rng = random.Random(seed)
    rng.shuffle(fs)
    return sorted(fs[:n])


def read(path):
    with open(path, encoding="utf-8") as f:
        return f.read()
