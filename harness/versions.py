"""Version annotations of the schemas (C09): every `metadata.minVersion / maxVersion` in
schemas/*.json, the structural facts the check needs about each of them, and probe documents.

Nothing here decides whether a version is *accepted*: that is `Accept` in spec/Validator.tla and
every expected verdict is printed by TLC.  This module supplies structure only:

  entries      one per annotated schema node: keyword (`properties/<k>`), value alternative
               (`properties/<k>/<oneOf|anyOf|allOf>/<i>`) or whole object (file root), with its
               bounds x100 as integers (7.6 -> 760; NoMin = 0, NoMax = 100000), a probe value that is valid
               without a version and, for an alternative, matches that alternative only
               (`shadow` = no such value exists: another alternative admits the value as well)
  contexts     for every block type the paths root type -> ... -> type (vocab child_single /
               child_list), each with the annotated keywords crossed on the way (`guards`) and whether
               some hop goes through a oneOf/anyOf/allOf list (`via_alt`)
  reach paths  for a root schema name: every annotated node reachable in the raw schema graph, with
               the annotated ancestors of each path (for exported-schema comparison)
  walker       present / absent annotated nodes in a schema object returned by the implementation
"""
from __future__ import annotations
import json
import os

import jsonschema
from referencing import Registry, Resource
from referencing.jsonschema import DRAFT4

from . import vocab
from .common import MachineryFailure

REPO = vocab.REPO
SCALE = 100                    # versions are held as integers x100: 7.64 -> 764
NOMIN, NOMAX = 0, 100000
NOVERSION = 1000000           # spec/Validator.tla NoVersion
COMBS = ("oneOf", "anyOf", "allOf")


def x10(f):
    return int(round(f * SCALE))


def ann(node):
    md = node.get("metadata") if isinstance(node, dict) else None
    if isinstance(md, dict) and ("minVersion" in md or "maxVersion" in md):
        return (x10(md["minVersion"]) if "minVersion" in md else NOMIN,
                x10(md["maxVersion"]) if "maxVersion" in md else NOMAX)
    return None


def refname(node):
    if isinstance(node, dict) and "$ref" in node:
        return node["$ref"].replace(".json", "")
    return None


def sig(item):
    """shallow signature of a list item: scalar fields, metadata, names of the container fields.
    Stable between the raw schema and its expanded / pruned form."""
    if not isinstance(item, dict):
        return json.dumps(item, sort_keys=True, default=str)
    sc = {}
    for k in item.keys():
        v = item[k]
        if k == "metadata":
            sc[k] = dict(v)
        elif isinstance(v, (dict, list)):
            sc[k] = "<%s>" % ("dict" if isinstance(v, dict) else "list")
        else:
            sc[k] = v
    return json.dumps(sc, sort_keys=True, default=str)


POOL = [1, 5, 0, 22.5, 100, True, "abc", "[attr]", "(1 = 1)", "#ff0000", [1, 2], [0.5, 0.5], [1, 2, 3],
        ["[a]", "[b]"], [1, "[a]"], [[1, 2]], [1, 2, 3, 4], ["abc"], ["#ff0000", "#00ff00"]]


class Versions:
    def __init__(self, repo=REPO):
        self.v = vocab.get(repo)
        self.sc = vocab.Schemas(repo)
        self.raw = self.sc.raw
        self.types = list(self.v["schema"]["types"])
        self.registry = Registry(retrieve=lambda uri: Resource.from_contents(
            self.raw[uri.replace(".json", "")], default_specification=DRAFT4))
        self._valid_cache = {}
        self.entries = []
        self.by_id = {}
        self.index = {}               # (file, path tuple) -> entry id
        self._find_entries()
        self._edges()
        self._contexts()
        self._values()

    # ------------------------------------------------------------ jsonschema on the raw files
    def valid(self, schema, value):
        """value valid against a raw (sub)schema, strings compared the way Validator does (lower-cased)"""
        key = (json.dumps(schema, sort_keys=True), json.dumps(value, sort_keys=True))
        if key not in self._valid_cache:
            val = jsonschema.Draft4Validator(schema=schema, registry=self.registry)
            self._valid_cache[key] = not any(True for _ in val.iter_errors(value))
        return self._valid_cache[key]

    def node(self, file, path):
        n = self.raw[file]
        for p in path:
            n = n[p]
        return n

    # ------------------------------------------------------------ entries
    def _find_entries(self):
        def walk(n, file, path):
            if isinstance(n, dict):
                a = ann(n)
                if a:
                    self._add_entry(file, tuple(path), a, n)
                for k, v in n.items():
                    if k != "metadata":
                        walk(v, file, path + [k])
            elif isinstance(n, list):
                for i, v in enumerate(n):
                    walk(v, file, path + [i])
        for file in sorted(self.raw):
            walk(self.raw[file], file, [])

    def _add_entry(self, file, path, bounds, node):
        if path == ():
            kind, eid, kw = "obj", file + "#", None
        elif len(path) == 2 and path[0] == "properties":
            kind, eid, kw = "kw", "%s.%s" % (file, path[1]), path[1]
        elif len(path) == 4 and path[0] == "properties" and path[2] in COMBS and isinstance(path[3], int):
            kind, eid, kw = "alt", "%s.%s/%s/%d" % (file, path[1], path[2], path[3]), path[1]
        else:
            raise MachineryFailure("version annotation at an unforeseen place: %s %s" % (file, list(path)))
        if kind != "obj" and file not in self.types:
            raise MachineryFailure("annotated keyword in a schema that is not a block type: %s" % eid)
        e = {"id": eid, "kind": kind, "file": file, "path": list(path), "kw": kw, "min": bounds[0],
             "max": bounds[1], "has_default": isinstance(node, dict) and "default" in node}
        self.entries.append(e)
        self.by_id[eid] = e
        self.index[(file, path)] = eid

    # ------------------------------------------------------------ raw graph
    def find_refs(self, n, target, path=()):
        """paths inside a property schema to `$ref: target.json`"""
        out = []
        if isinstance(n, dict):
            if refname(n) == target:
                out.append(path)
            for k, v in n.items():
                if k != "metadata":
                    out += self.find_refs(v, target, path + (k,))
        elif isinstance(n, list):
            for i, v in enumerate(n):
                out += self.find_refs(v, target, path + (i,))
        return out

    def _edges(self):
        """block-type graph from the vocabulary (child_single / child_list), each edge with the
        annotated nodes it crosses in the parent's schema and whether it goes through a list"""
        self.edges = {t: [] for t in self.types}
        self.obj_holders = {}          # file of an annotated non-block object -> [(type, key, guards)]
        for t in self.types:
            for mode, tab in (("single", self.v["child_single"][t]), ("list", self.v["child_list"][t])):
                for key, child in sorted(tab.items()):
                    if child not in self.types and (child, ()) not in self.index:
                        continue                      # key-value blocks without annotations
                    prop = self.raw[t]["properties"][key]
                    refs = self.find_refs(prop, child)
                    if not refs:
                        raise MachineryFailure("no $ref to %s under %s.%s" % (child, t, key))
                    rp = refs[0]
                    guards = []
                    via_alt = False
                    for i in range(len(rp) + 1):
                        g = self.index.get((t, ("properties", key) + rp[:i]))
                        if g:
                            guards.append(g)
                        if i < len(rp) and isinstance(rp[i], int):
                            via_alt = True
                    edge = {"key": key, "child": child, "mode": mode, "guards": guards, "via_alt": via_alt}
                    if child in self.types:
                        self.edges[t].append(edge)
                    elif (child, ()) in self.index:
                        self.obj_holders.setdefault(child, []).append(edge | {"type": t})

    def _contexts(self):
        """contexts[t] = list of {"root", "hops": [edge...]} for every path from a root type to t"""
        self.contexts = {t: [] for t in self.types}

        def dfs(root, cur, hops, seen):
            self.contexts[cur].append({"root": root, "hops": list(hops)})
            for e in self.edges[cur]:
                if e["child"] in seen:
                    raise MachineryFailure("cycle in the block-type graph at %s" % e["child"])
                dfs(root, e["child"], hops + [e | {"parent": cur}], seen | {e["child"]})
        for r in self.types:
            dfs(r, r, [], {r})
        for t in self.types:
            self.contexts[t].sort(key=lambda c: ctx_name(c))

    # ------------------------------------------------------------ values
    def minimal_object(self, t):
        d = {"__type__": t}
        if t in self.types:
            for r in self.v["schema"]["types"][t]["required"]:
                d[r] = self.plain_value(t, r)
        return d

    def candidates(self, s, depth=0):
        """values suggested by a (sub)schema: enum word, number inside the range, string of the
        pattern family, minimal object, array of item candidates"""
        out = []
        if not isinstance(s, dict) or depth > 6:
            return out
        r = refname(s)
        if r:
            tgt = self.raw[r]
            if isinstance(tgt.get("properties"), dict) and "__type__" in tgt["properties"] or \
                    (tgt.get("type") == "object" and (r, ()) in self.index):
                return [self.minimal_object(r)]
            return self.candidates(tgt, depth + 1)
        for c in COMBS:
            for sub in s.get(c, []):
                out += self.candidates(sub, depth + 1)
        if "enum" in s:
            out += list(s["enum"][:2])
        if "default" in s:
            out.append(s["default"])
        t = s.get("type")
        if t in ("number", "integer"):
            lo = s.get("minimum")
            hi = s.get("maximum")
            x = 5
            if lo is not None and x <= lo:
                x = lo + 1
            if hi is not None and x >= hi:
                x = hi - 1 if lo is None else (lo + hi) // 2
            out.append(x)
        if t == "string":
            pat = s.get("pattern", "")
            if pat.startswith("^\\[("):
                out.append("[attr]")
            elif pat.startswith("^\\(("):
                out.append("(1 = 1)")
            elif pat.startswith("^/("):
                out.append("/a/")
            elif "#(" in pat:
                out.append("#ff0000")
            elif "example" in s:
                out.append(s["example"])
            else:
                out.append("abc")
        if t == "boolean":
            out.append(True)
        if t == "array":
            n = s.get("minItems") or s.get("maxItems") or 1
            items = s.get("items", {})
            if isinstance(items, list):
                cols = [self.candidates(it, depth + 1)[:1] for it in items]
                if all(cols):
                    out.append([c[0] for c in cols])
            else:
                for c in self.candidates(items, depth + 1)[:3]:
                    out.append([c] * n)
        if t == "object" and "properties" not in s:
            out.append({})
        return out

    def strip_annotated(self, s):
        """the schema without its annotated direct alternatives"""
        if not isinstance(s, dict):
            return s
        o = dict(s)
        for c in COMBS:
            if c in o:
                o[c] = [x for x in o[c] if not ann(x)]
        return o

    def plain_value(self, t, kw):
        """a value for t.kw that is valid without a version and does not lean on any annotated
        alternative"""
        prop = self.raw[t]["properties"][kw]
        stripped = self.strip_annotated(prop)
        for c in self.candidates(prop) + POOL:
            if self.valid(prop, c) and self.valid(stripped, c):
                return c
        raise MachineryFailure("no plain valid value found for %s.%s" % (t, kw))

    def _values(self):
        for e in self.entries:
            e["shadow"] = False
            e["covers"] = [e["id"]]
            if e["kind"] == "kw":
                e["holders"] = [{"type": e["file"], "key": e["kw"], "guards": []}]
                e["value"] = self.plain_value(e["file"], e["kw"])
            elif e["kind"] == "obj":
                e["holders"] = [{"type": h["type"], "key": h["key"], "guards": [g for g in h["guards"] if g != e["id"]]}
                                for h in self.obj_holders.get(e["file"], [])]
                e["value"] = self.minimal_object(e["file"])
                if not e["holders"]:
                    raise MachineryFailure("annotated object %s is referenced by no block type" % e["id"])
            else:
                t, kw, comb, i = e["file"], e["kw"], e["path"][2], e["path"][3]
                prop = self.raw[t]["properties"][kw]
                alt = prop[comb][i]
                outer = self.index.get((t, ("properties", kw)))
                e["holders"] = [{"type": t, "key": kw, "guards": [outer] if outer else []}]
                best = None
                for c in self.candidates(alt) + POOL:
                    if not (self.valid(alt, c) and self.valid(prop, c)):
                        continue
                    covers = [self.index[(t, ("properties", kw, comb, j))] for j, x in enumerate(prop[comb])
                              if ann(x) and self.valid(x, c)]
                    # an unannotated alternative admits the value as well: the annotation cannot be
                    # observed through validation with this value
                    stripped = dict(prop)
                    stripped[comb] = [x for x in prop[comb] if not ann(x)]
                    shadow = bool(stripped[comb]) and self.valid(stripped, c)
                    rank = (shadow, len(covers))
                    if best is None or rank < best[0]:
                        best = (rank, c, covers, shadow)
                if best is None:
                    raise MachineryFailure("no probe value for alternative %s" % e["id"])
                e["value"], e["covers"], e["shadow"] = best[1], best[2], best[3]

    # ------------------------------------------------------------ probe documents
    def wrap(self, ctx, inner):
        d = inner
        for hop in reversed(ctx["hops"]):
            p = self.minimal_object(hop["parent"])
            p[hop["key"]] = d if hop["mode"] == "single" else [d]
            d = p
        return d

    def entry_docs(self, entry_ids=None, contexts="all", pick=0):
        """probe documents: one per entry x holder x context.  contexts = "all" | "one" (the
        pick-th context of each holder, map-rooted ones first)"""
        docs = []
        for e in self.entries:
            if entry_ids is not None and e["id"] not in entry_ids:
                continue
            for h in e["holders"]:
                ctxs = self.contexts[h["type"]]
                if contexts == "one":
                    pref = [c for c in ctxs if c["root"] == "map"] or ctxs
                    ctxs = [pref[pick % len(pref)]]
                for c in ctxs:
                    inner = self.minimal_object(h["type"])
                    inner[h["key"]] = e["value"]
                    guards = list(h["guards"])
                    for hop in c["hops"]:
                        guards += hop["guards"]
                    docs.append({"id": "%s@%s" % (e["id"], ctx_name(c)), "root": c["root"], "entry": e["id"],
                                 "covers": list(e["covers"]),
                                 "guards": sorted(set(guards)), "shadow": e["shadow"], "fault": False,
                                 "ctx": ctx_name(c), "via_alt": any(hop["via_alt"] for hop in c["hops"]),
                                 "dict": self.wrap(c, inner), "holder": h["type"], "key": h["key"]})
        return docs

    def fault_docs(self, contexts="root"):
        """documents with one fault in an unannotated scalar keyword (an enum word / a number that
        the schema does not admit), one per block type, in guard-free contexts"""
        docs = []
        for t in self.types:
            props = self.raw[t].get("properties", {})
            chosen = None
            for kw in sorted(props):
                p = props[kw]
                if kw.startswith("__") or ann(p) or any(ann(x) for c in COMBS for x in p.get(c, []) if isinstance(p, dict)):
                    continue
                flat, _ = self.sc.deref(p)
                if not ("enum" in flat or flat.get("type") in ("number", "integer", "boolean")):
                    continue
                bad = "c09-no-such-word"
                if self.valid(p, bad):
                    continue
                chosen = (kw, bad)
                break
            if not chosen:
                continue
            for c in self.contexts[t]:
                guards = [g for hop in c["hops"] for g in hop["guards"]]
                if guards:
                    continue
                if contexts == "root" and c["hops"] and c["root"] != "map":
                    continue
                inner = self.minimal_object(t)
                inner[chosen[0]] = chosen[1]
                docs.append({"id": "fault:%s.%s@%s" % (t, chosen[0], ctx_name(c)), "root": c["root"], "entry": "",
                             "covers": [], "guards": [], "shadow": True, "fault": True, "ctx": ctx_name(c), "via_alt": False,
                             "dict": self.wrap(c, inner), "holder": t, "key": chosen[0]})
        return docs

    # ------------------------------------------------------------ reachability in the raw graph
    def reach_paths(self, name):
        """[(entry id, frozenset(annotated strict ancestors))] for every path from schema `name`,
        reduced to the minimal guard sets per entry"""
        res = {}

        def walk(n, file, path, guards, stack):
            r = refname(n)
            if r is not None:
                if r in stack:
                    raise MachineryFailure("cyclic $ref at %s" % r)
                return walk(self.raw[r], r, (), guards, stack + (r,))
            if isinstance(n, dict):
                eid = self.index.get((file, path))
                if eid:
                    res.setdefault(eid, set()).add(frozenset(guards))
                    guards = guards + (eid,)
                for k, v in n.items():
                    if k != "metadata":
                        walk(v, file, path + (k,), guards, stack)
            elif isinstance(n, list):
                for i, v in enumerate(n):
                    walk(v, file, path + (i,), guards, stack)
        walk(self.raw[name], name, (), (), (name,))
        out = []
        for eid, gs in sorted(res.items()):
            mins = [g for g in gs if not any(h < g for h in gs)]
            for g in sorted(mins, key=sorted):
                out.append((eid, g))
        return out

    # ------------------------------------------------------------ walking a returned schema object
    def present(self, obj, name):
        """walk a schema object returned by the implementation (jsonref proxies or plain JSON) in
        parallel with the raw files.  Returns (seen_present, seen_absent, anomalies): how often each
        annotated node was found / found missing where its container exists."""
        seen_p, seen_a, anomalies = {}, {}, []

        def mark(file, path, there):
            eid = self.index.get((file, path))
            if eid:
                tab = seen_p if there else seen_a
                tab[eid] = tab.get(eid, 0) + 1

        def walk(x, file, path):
            n = self.node(file, path)
            r = refname(n)
            if r is not None:
                file, path, n = r, (), self.raw[r]
            mark(file, path, True)
            if isinstance(n, dict):
                if not isinstance(x, dict):
                    anomalies.append("%s/%s: not an object" % (file, "/".join(map(str, path))))
                    return
                for k, rv in n.items():
                    if k == "metadata":
                        continue
                    if k in x:
                        if isinstance(rv, (dict, list)):
                            walk_into(x[k], rv, file, path + (k,))
                    else:
                        if (file, path + (k,)) in self.index:
                            mark(file, path + (k,), False)
                        else:
                            anomalies.append("%s/%s: unannotated member missing" % (file, "/".join(map(str, path + (k,)))))
                for k in x.keys():
                    if k not in n:
                        anomalies.append("%s/%s: member not in the schema file" % (file, "/".join(map(str, path + (k,)))))

        def walk_into(xv, rv, file, path):
            if isinstance(rv, dict):
                walk(xv, file, path)
                return
            # a list: match items by signature
            if not all(isinstance(i, dict) for i in rv):
                return
            if not isinstance(xv, list):
                anomalies.append("%s/%s: not a list" % (file, "/".join(map(str, path))))
                return
            rsig = {}
            for i, it in enumerate(rv):
                tgt = self.raw[refname(it)] if refname(it) else it
                rsig.setdefault(sig(tgt), []).append(i)
            used = set()
            for it in xv:
                s = sig(it)
                cand = [i for i in rsig.get(s, []) if i not in used]
                if not cand:
                    anomalies.append("%s/%s: list item not in the schema file" % (file, "/".join(map(str, path))))
                    continue
                used.add(cand[0])
                walk(it, file, path + (cand[0],))
            for i in range(len(rv)):
                if i not in used:
                    if (file, path + (i,)) in self.index:
                        mark(file, path + (i,), False)
                    elif refname(rv[i]) and (refname(rv[i]), ()) in self.index:
                        mark(refname(rv[i]), (), False)
                    else:
                        anomalies.append("%s/%s/%d: unannotated alternative missing" % (file, "/".join(map(str, path)), i))
        walk(obj, name, ())
        return seen_p, seen_a, anomalies


def ctx_name(c):
    return "/".join([c["root"]] + [h["key"] for h in c["hops"]])


_CACHE = {}


def get(repo=REPO):
    if repo not in _CACHE:
        _CACHE[repo] = Versions(repo)
    return _CACHE[repo]


def vclass(entry, v):
    """name of a version relative to the bounds of an entry (for signatures): at a bound, less than
    a tenth away from it (just-...), or further out / in"""
    if v is None or v == NOVERSION:
        return "none"
    tenth = SCALE // 10
    if entry["min"] != NOMIN:
        if v == entry["min"]:
            return "at-min"
        if v < entry["min"]:
            return "below-min" if entry["min"] - v >= tenth else "just-below-min"
        if v - entry["min"] < tenth:
            return "just-above-min"
    if entry["max"] != NOMAX:
        if v == entry["max"]:
            return "at-max"
        if v > entry["max"]:
            return "above-max" if v - entry["max"] >= tenth else "just-above-max"
        if entry["max"] - v < tenth:
            return "just-below-max"
    return "inside"


if __name__ == "__main__":
    vs = get()
    print(len(vs.entries), "entries")
    for e in vs.entries:
        print(e["id"], e["kind"], e["min"], e["max"], "shadow" if e["shadow"] else "", e["covers"] if e["covers"] != [e["id"]] else "", json.dumps(e["value"]),
              [h["type"] + "." + h["key"] for h in e["holders"]])
    ds = vs.entry_docs()
    print(len(ds), "docs", sum(1 for d in ds if d["via_alt"]), "via alternatives")
    print(len(vs.fault_docs("all")), "fault docs")
