"""Exhaustive separator family (spec/CommentLex.tla) replayed into the real reader (C05).

TLC enumerates every text over the comment alphabet that consists of blanks, line breaks and complete comments; each is
put between tokens of a real document - between keyword and value, between two values, between value and next keyword,
behind a block opener, in front of END, at the start and the end of the text - with no other white space around it
(the comment alone separates the tokens), and loads must return the dictionary of the plain document."""
from __future__ import annotations
from . import tlc, common, project

CH = {"sl": "/", "st": "*", "ha": "#", "nl": "\n", "sp": " ", "a": "x"}

# the document as pieces; separators go between the pieces ({0}..{6} are the probed positions, others single blanks)
PIECES = ['{start}MAP', ' NAME', '{kv}', '"n"', '{vk}', 'SIZE 10', '{vv}', '20 LAYER', '{open}', 'NAME "l" TYPE POINT CLASS STYLE COLOR 1 2 3',
          '{end}', 'END END END END', '{stop}']
POSITIONS = ["start", "kv", "vk", "vv", "open", "end", "stop"]


def text_with(seps):
    """seps: position -> separator text (missing positions get a single blank, start/stop get nothing)"""
    out = []
    for p in PIECES:
        if p.startswith("{") and p.endswith("}"):
            name = p[1:-1]
            out.append(seps.get(name, "" if name in ("start", "stop") else " "))
        elif p.startswith("{start}"):
            out.append(seps.get("start", ""))
            out.append(p[len("{start}"):])
        else:
            out.append(p)
    return "".join(out)


def behaviours(ck, max_len, tag="commentlex"):
    cfg = tlc.cfg_text(constants={"MaxLen": max_len},
                       invariants=["BlankOnlyIsSep", "ComposeRight", "ComposeLeft", "NoStrayToken", "Emit"])
    r = tlc.run("CommentLex", cfg, tag=tag, workers=8, timeout=1800)
    if r.violated:
        raise common.MachineryFailure("CommentLex model law %s violated" % r.violated)
    if ck is not None:
        ck.add_tlc(tag, r)
    out = [p for p in r.prints if isinstance(p, dict) and "blank" in p]
    if len(out) < 20:
        raise common.MachineryFailure("CommentLex model emitted %d separators" % len(out))
    return out


def shape(s):
    parts = []
    if "#" in s:
        parts.append("hash")
    if "/*" in s:
        parts.append("c")
    if "**/" in s or "/**" in s:
        parts.append("stars")
    if s.count("/*") > 1 or ("#" in s and "/*" in s):
        parts.append("several")
    if not (s[:1] in " \n" or s[-1:] in " \n"):
        parts.append("tight")
    return "+".join(parts) or "blank"


def run(ck, tier, loads):
    quick = tier == "quick"
    bs = behaviours(ck, 5 if quick else 6)
    base = project.project(loads(text_with({})))
    n = 0
    for j, b in enumerate(bs):
        s = "".join(CH[x] for x in b["s"])
        cases = [("all", {p: s for p in POSITIONS})]
        for k, p in enumerate(POSITIONS):
            if not quick or (j + k) % 4 == 0:
                cases.append((p, {p: s}))
        for pos, seps in cases:
            text = text_with(seps)
            ck.count()
            n += 1
            try:
                got = project.project(loads(text))
                what = None if not project.diff(base, got) else "changes the result"
            except Exception as ex:  # noqa: BLE001
                what = "makes loads raise %s" % type(ex).__name__
            if what:
                ck.violation("C05|separator|%s|%s|%s" % ("rejected" if "raise" in what else "differs", pos, shape(s)),
                             "the separator %r (blanks and complete comments only, spec/CommentLex.tla) at position %s %s" % (s, pos, what),
                             {"text": text, "separator": s, "position": pos})
    ck.notes.append("separator family (spec/CommentLex.tla): %d separators, %d placements" % (len(bs), n))
    return n
