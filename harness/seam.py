"""Run-time seams into the unchanged implementation (no edit of /repo; see DESIGN.md section 9)."""
from __future__ import annotations
import contextlib
import threading
from . import impl  # noqa: F401  (puts /repo on the path)
from lark.parsers import lalr_interactive_parser as _lip

_local = threading.local()
_orig = _lip.InteractiveParser.iter_parse


def _wrapped(self):
    rec = getattr(_local, "tokens", None)
    hook = getattr(_local, "hook", None)
    for t in _orig(self):
        before = t.type
        yield t                      # the loop body of Parser.parse runs here (may retype t)
        if rec is not None:
            top = self.parser_state.value_stack[-1] if self.parser_state.value_stack else None
            rec.append({"type": before, "after": t.type, "start": t.start_pos, "end": t.end_pos,
                        "line": t.line, "col": t.column, "value": str(t.value) if isinstance(t.value, str) else None,
                        "top": getattr(top, "type", None) or type(top).__name__})
        if hook is not None:
            hook(t)


@contextlib.contextmanager
def record_tokens():
    """records every token Parser.parse consumes on this thread"""
    _lip.InteractiveParser.iter_parse = _wrapped
    _local.tokens = []
    try:
        yield _local.tokens
    finally:
        _local.tokens = None


def install():
    _lip.InteractiveParser.iter_parse = _wrapped


def set_hook(fn):
    _local.hook = fn
