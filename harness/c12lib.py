"""Machinery of check C12 (calls are pure, history-independent, safe concurrently).

* deep snapshots of call arguments (key order, value types, hidden keys, container identities)
* run-time seams in the unchanged code (no edit of /repo): class-level wrappers around
  lark's InteractiveParser.iter_parse / Lark.parse_interactive and around the entry/exit of the
  worker-object methods; every seam reports to a thread-local call context which translates it
  into the program-counter names of spec/Calls.tla
* a scheduler that forces a TLC-generated thread schedule on real threads by blocking at seams
  (every wait has a deadline: a stuck schedule is a MachineryFailure, never a VIOLATION)
* concrete Mapfiles for the abstract documents of spec/Calls.tla (DocTable)
* the task functions executed in worker processes (purity recording, reuse replay, forced
  schedules, free-running stress)
"""
from __future__ import annotations
import copy
from collections import OrderedDict
import hashlib
import io
import json
import os
import random
import sys
import tempfile
import threading
import time

from . import impl
from .common import MachineryFailure

mappyfile = impl.mappyfile
Parser = impl.Parser
MapfileToDict = impl.MapfileToDict
PrettyPrinter = impl.PrettyPrinter
Validator = impl.Validator

VERSIONS = {0: None, 76: 7.6, 80: 8.0}

# ================================================================================ snapshots


def items_of(o):
    """(key, value) pairs in the order the dictionary iterates (an OrderedDict keeps its order in
    its own linked list: dict.items would miss a move_to_end)"""
    if isinstance(o, OrderedDict):
        return list(OrderedDict.items(o))
    return list(dict.items(o))


def snap(o, ids=True):
    """deep snapshot: container kind, Python type, identity, ordered content"""
    if isinstance(o, dict):
        return ["D", type(o).__name__, id(o) if ids else 0,
                [[k if isinstance(k, str) else repr(k), type(k).__name__, snap(v, ids)]
                 for k, v in items_of(o)]]
    if isinstance(o, (list, tuple)):
        return ["L", type(o).__name__, id(o) if ids else 0, [snap(x, ids) for x in o]]
    return ["S", type(o).__name__, repr(o)]


def struct(o):
    """typed, ordered projection including hidden keys (no identities): the value of a result"""
    return snap(o, ids=False)


def digest(s):
    return hashlib.sha1(json.dumps(s, ensure_ascii=True, sort_keys=False).encode()).hexdigest()[:20]


def snapdiff(a, b, path=()):
    """first structural difference between two snapshots: "path:kind" or "" """
    if a[0] != b[0]:
        return "%s:container-kind" % _p(path)
    if a[0] == "S":
        if a[1] != b[1]:
            return "%s:value-type" % _p(path)
        return "" if a[2] == b[2] else "%s:value" % _p(path)
    if a[1] != b[1]:
        return "%s:container-type" % _p(path)
    if a[2] != b[2]:
        return "%s:identity" % _p(path)
    if a[0] == "D":
        ka = [x[0] for x in a[3]]
        kb = [x[0] for x in b[3]]
        if ka != kb:
            added = [k for k in kb if k not in ka]
            removed = [k for k in ka if k not in kb]
            if added:
                return "%s:key-added(%s)" % (_p(path), added[0])
            if removed:
                return "%s:key-removed(%s)" % (_p(path), removed[0])
            return "%s:key-order" % _p(path)
        for x, y in zip(a[3], b[3]):
            if x[1] != y[1]:
                return "%s:key-type" % _p(path + (x[0],))
            d = snapdiff(x[2], y[2], path + (x[0],))
            if d:
                return d
        return ""
    if len(a[3]) != len(b[3]):
        return "%s:length" % _p(path)
    for i, (x, y) in enumerate(zip(a[3], b[3])):
        d = snapdiff(x, y, path + (i,))
        if d:
            return d
    return ""


def _p(path):
    return "/".join(str(x) for x in path) or "."


def outcome(fn, *a, **kw):
    """("ok", value) or ("exc", exception class name)"""
    try:
        return ("ok", fn(*a, **kw))
    except Exception as ex:  # noqa: BLE001
        return ("exc", type(ex).__name__)


def value_of(out):
    """comparable value of an outcome"""
    return [out[0], struct(out[1]) if out[0] == "ok" else out[1]]


# ================================================================================ seams

_tls = threading.local()
_installed = False


def fire(ev, payload=None):
    ctx = getattr(_tls, "ctx", None)
    if ctx is not None:
        ctx.low(ev, payload)


def install_seams():
    """class-level wrappers (idempotent).  Without a call context on the current thread every
    wrapper is a pass-through."""
    global _installed
    if _installed:
        return
    _installed = True
    import lark
    from lark.parsers.lalr_interactive_parser import InteractiveParser

    orig_iter = InteractiveParser.iter_parse

    def iter_parse(self):
        for tok in orig_iter(self):
            yield tok
            fire("tok", tok)              # after the loop body of Parser.parse has seen the token
        fire("eot")
    InteractiveParser.iter_parse = iter_parse

    orig_pi = lark.Lark.parse_interactive

    def parse_interactive(self, *a, **kw):
        fire("parse_interactive")         # Parser.parse has just emptied its comment buffer
        return orig_pi(self, *a, **kw)
    lark.Lark.parse_interactive = parse_interactive

    def wrap(cls, name, before=None, after=None, exc=None, toplevel=False, after_on_exc=True):
        orig = getattr(cls, name)
        key = "_depth_%s_%s" % (cls.__name__, name)

        def wrapper(self, *a, **kw):
            depth = getattr(_tls, key, 0)
            setattr(_tls, key, depth + 1)
            top = depth == 0 or not toplevel
            try:
                if before and top:
                    fire(before)
                r = orig(self, *a, **kw)
            except BaseException:
                setattr(_tls, key, depth)
                if (exc or (after and after_on_exc)) and top:
                    fire(exc or after)
                raise
            setattr(_tls, key, depth)
            if after and top:
                fire(after)
            return r
        wrapper.__name__ = name
        wrapper.__wrapped__ = orig
        setattr(cls, name, wrapper)

    wrap(Parser, "parse", before="parse_entry", exc="parse_exc")
    wrap(Parser, "load_includes", after="includes_exit", toplevel=True, after_on_exc=False)
    wrap(Parser, "open_file", before="open_file_entry")
    import posixpath
    orig_abspath = posixpath.abspath

    def abspath(path):
        # parser.py resolves an INCLUDE with os.path.abspath: the moment the path is fixed
        if getattr(_tls, "ctx", None) is not None and getattr(_tls, "_depth_Parser_load_includes", 0) > 0:
            fire("abspath")
        return orig_abspath(path)
    posixpath.abspath = abspath
    wrap(Parser, "_assign_comments", before="assign_entry", toplevel=True)
    wrap(MapfileToDict, "transform", before="transform_entry", after="transform_exit")
    wrap(PrettyPrinter, "pprint", before="pprint_entry", after="pprint_exit")
    wrap(Validator, "validate", before="validate_entry", after="validate_exit")
    wrap(Validator, "get_expanded_schema", after="expanded_exit")
    wrap(Validator, "get_schema_file", before="schema_file")
    wrap(Validator, "get_schema_validator", after="schema_validator_exit")
    wrap(Validator, "get_versioned_schema", after="versioned_exit")
    wrap(Validator, "get_versioned_properties", before="vprops_entry")
    wrap(Validator, "convert_lowercase", after="lowercase_exit", toplevel=True)

    orig_setattr = MapfileToDict.__setattr__

    def m2d_setattr(self, name, value):
        orig_setattr(self, name, value)
        if name == "mapfile_transformer":
            fire("set_transformer")
    MapfileToDict.__setattr__ = m2d_setattr


# model program counters in the order a call passes them (spec/Calls.tla)
def model_pcs(desc, doctable):
    k = desc["kind"]
    if k == "loads":
        a = doctable[desc["doc"] - 1]
        if a.get("nest") in ("missing", "self"):
            return ["incl", "iresolve", "iread", "ret"]
        last = a["fail"] if a["fail"] else a["ntok"]
        pcs = ["incl"] + (["iresolve", "iread"] if a.get("inc") else []) + ["clear"]
        pcs += ["lex%d" % i for i in range(1, last + 1)]
        if not a["fail"]:
            if desc["com"]:
                pcs += ["cdict", "assign"]
            pcs += ["tnew", "trun"]
        return pcs + ["ret"]
    if k in ("dumps", "dumps_sep"):
        return ["schema", "format", "ret"]
    if k in ("validate", "validate_addc"):
        if desc["ver"] == 0:
            return ["raw", "lower", "judge", "ret"]
        return ["xchk", "xins", "pkeys", "prune1", "prune2", "lower", "judge", "ret"]
    return ["ret"]


PRUNE2_AT = 40      # "prune2": the 40th entry into get_versioned_properties (mid traversal)


class CallCtx:
    """per-call, per-thread: translates low-level seam events into model pc names and hands them
    to the scheduler (if any)"""

    def __init__(self, desc, line_group=None, sched=None, tid=0):
        self.desc = desc
        self.kind = desc["kind"]
        self.line_group = line_group
        self.sched = sched
        self.tid = tid
        self.seen = []
        self.group = 1
        self.nprops = 0
        self.formatted = False
        self.resolved = False
        self.read = False
        self.expected = []
        self.i = 0

    def seam(self, name):
        self.seen.append(name)
        if self.sched is not None:
            self.sched.at_seam(self, name)

    def low(self, ev, payload):
        k = self.kind
        if k == "loads":
            if ev == "parse_entry":
                self.seam("incl")
            elif ev == "includes_exit":
                self.seam("clear")
            elif ev == "abspath":
                if not self.resolved:
                    self.resolved = True
                    self.seam("iresolve")
            elif ev == "open_file_entry":
                if getattr(_tls, "_depth_Parser_load_includes", 0) > 0 and not self.read:
                    self.read = True
                    self.seam("iread")
            elif ev == "parse_interactive":
                self.seam("lex1")
            elif ev == "tok":
                if self.line_group is not None:
                    g = self.line_group.get(getattr(payload, "line", None), self.group)
                    while self.group < g:
                        self.group += 1
                        self.seam("lex%d" % self.group)
            elif ev == "eot":
                if self.desc.get("com"):
                    self.seam("cdict")
            elif ev == "assign_entry":
                self.seam("assign")
            elif ev == "transform_entry":
                self.seam("tnew")
            elif ev == "set_transformer":
                self.seam("trun")
            elif ev in ("transform_exit", "parse_exc"):
                self.seam("ret")
        elif k in ("dumps", "dumps_sep"):
            if ev == "pprint_entry":
                self.seam("schema")
            elif ev == "expanded_exit" and not self.formatted:
                self.formatted = True
                self.seam("format")
            elif ev == "pprint_exit":
                self.seam("ret")
        elif k in ("validate", "validate_addc"):
            ver = self.desc.get("ver", 0)
            if ev == "validate_entry":
                self.seam("raw" if ver == 0 else "xchk")
            elif ev == "validate_exit":
                self.seam("ret")
            elif ev == "lowercase_exit":
                self.seam("judge")
            elif ver == 0:
                if ev == "schema_validator_exit":
                    self.seam("lower")
            else:
                if ev == "schema_file":
                    self.seam("xins")
                elif ev == "expanded_exit":
                    self.seam("pkeys")
                elif ev == "vprops_entry":
                    self.nprops += 1
                    if self.nprops == 2:
                        self.seam("prune1")
                    elif self.nprops == PRUNE2_AT:
                        self.seam("prune2")
                elif ev == "versioned_exit":
                    self.seam("lower")
        else:
            if ev == "query_exit":
                self.seam("ret")


class SchedAbort(Exception):
    pass


class Scheduler:
    """forces a schedule = list of thread ids, one entry per segment.  Only the thread whose id is
    at schedule[pos] runs; a thread ends its segment at the seam the schedule names."""

    def __init__(self, order, deadline_s=180.0):
        self.order = list(order)
        self.pos = 0
        self.cond = threading.Condition()
        self.failed = None
        self.deadline = time.time() + deadline_s

    def _fail(self, why):
        if self.failed is None:
            self.failed = why
        self.cond.notify_all()

    def wait_turn(self, tid):
        with self.cond:
            while True:
                if self.failed:
                    raise SchedAbort(self.failed)
                if self.pos < len(self.order) and self.order[self.pos] == tid:
                    return
                if self.pos >= len(self.order):
                    self._fail("schedule exhausted while thread %s waits" % tid)
                    raise SchedAbort(self.failed)
                left = self.deadline - time.time()
                if left <= 0:
                    self._fail("timeout: thread %s waiting at position %d of %s" % (tid, self.pos, self.order))
                    raise SchedAbort(self.failed)
                self.cond.wait(min(left, 1.0))

    def end_segment(self, tid):
        with self.cond:
            if self.failed:
                raise SchedAbort(self.failed)
            if self.pos >= len(self.order) or self.order[self.pos] != tid:
                self._fail("protocol: thread %s ends a segment at position %d of %s" % (tid, self.pos, self.order))
                raise SchedAbort(self.failed)
            self.pos += 1
            self.cond.notify_all()

    def at_seam(self, ctx, name):
        if name in ctx.expected[ctx.i:]:
            j = ctx.expected.index(name, ctx.i)
            n = j - ctx.i + 1              # seams the real call did not pass count as empty segments
            ctx.i = j + 1
            try:
                for _ in range(n):
                    self.end_segment(ctx.tid)
                    self.wait_turn(ctx.tid)
            except SchedAbort:
                ctx.sched = None           # run on freely; the harness reports a machinery failure

    def finish(self, ctx):
        try:
            for _ in range(len(ctx.expected) - ctx.i):
                self.end_segment(ctx.tid)
                self.wait_turn(ctx.tid)
            ctx.i = len(ctx.expected)
            self.end_segment(ctx.tid)
        except SchedAbort:
            pass


# ================================================================================ documents

MAP_EXTRAS = ['SIZE 400 300', 'UNITS METERS', 'EXTENT 0 0 10 10', 'IMAGECOLOR 255 255 255', 'DEBUG 1',
              'ANGLE 0', 'MAXSIZE 4096', 'RESOLUTION 96', 'IMAGETYPE "png"', 'SHAPEPATH "data"']
LAYER_EXTRAS = ['STATUS ON', 'MINSCALEDENOM 100', 'TEMPLATE "t.html"', 'DATA "x.shp"', 'TOLERANCE 3',
                'CLASSITEM "kind"', 'LABELITEM "name"', 'MAXFEATURES 10', 'OFFSITE 0 0 0']
CLASS_BLOCKS = [['CLASS', '  NAME "c1"', '  STYLE', '    COLOR 255 0 0', '    WIDTH 2', '  END', 'END'],
                ['CLASS', '  NAME "c2"', '  EXPRESSION "x"', '  STYLE', '    OUTLINECOLOR 0 0 0', '  END', 'END'],
                ['METADATA', '  "wms_title" "T"', '  "k2" "v2"', 'END'],
                # list-valued keywords whose items are strings / bindings / numbers
                ['CLASS', '  NAME "c3"', '  STYLE', '    COLORRANGE "#0000ff" "#ff0000"', '    DATARANGE 0 100', '  END', 'END'],
                ['CLASS', '  NAME "c4"', '  STYLE', '    COLORRANGE 0 0 255 255 0 0', '    DATARANGE 1 2', '    OFFSET [ox] 5',
                 '  END', 'END']]
LAYER_TYPES = ["POINT", "LINE", "POLYGON"]


class ConcreteDoc:
    """a Mapfile built from the attributes of an abstract document of spec/Calls.tla"""

    def __init__(self, doc, attrs, variant, seed, root=None):
        rng = random.Random("%s/%s/%s" % (seed, doc, variant))
        self.root = root
        self.doc = doc
        self.variant = variant
        self.attrs = attrs
        self.name = "doc%dv%d" % (doc, variant)
        ntok, fail = attrs["ntok"], attrs["fail"]
        com = set(attrs["com"])
        groups = []

        def cmt(k):
            return " # c%dv%d_%d" % (doc, variant, k) if k in com else ""
        # a comment after the last node (line ntok + 1 of the table): no node claims it.  Such a
        # document is kept minimal, so that every other document has nodes on later lines.
        tail = (ntok + 1) in com
        g1 = ["MAP", '  NAME "%s"%s' % (self.name, cmt(1))]
        if not tail:
            g1 += ["  " + x for x in rng.sample(MAP_EXTRAS, rng.randint(0, 4))]
        if "old" in attrs["entries"]:
            g1.append("  IMAGEQUALITY 80")
        groups.append(g1)
        for k in range(2, ntok + 1):
            g = ["  LAYER", '    NAME "lyr%d"%s' % (k, cmt(k)), "    TYPE %s" % rng.choice(LAYER_TYPES)]
            if attrs["some"] and k == 2:
                g.append('    GROUP "grp"')
            if "f1" in attrs["faults"] and k == 2:
                g.append("    STATUS maybe")
            if "anc" in attrs["entries"] and k == 2:
                g.append("    LABELMAXSCALE 100")
            if not tail:
                g += ["    " + x for x in rng.sample(LAYER_EXTRAS, rng.randint(0, 3))
                      if not ("f1" in attrs["faults"] and x.startswith("STATUS"))]
                if rng.random() < 0.6:
                    g += ["    " + x for x in rng.choice(CLASS_BLOCKS)]
            if tail and k == ntok and variant % 2 == 0:
                g.append("    # c%dv%d_%d" % (doc, variant, ntok + 1))      # directly before the END
            g.append("  END")
            groups.append(g)
        groups[-1].append("END")
        if tail and variant % 2 == 1:
            groups[-1].append("# c%dv%d_%d" % (doc, variant, ntok + 1))         # after the final END
        if fail:
            groups[fail - 1].insert(1 if fail > 1 else 2, '    ]')       # rejected at this token
        inc = attrs.get("inc", 0)
        if inc:
            # the first LAYER lives in an include file next to the document; its NAME says which
            # file (folder, written name) it came from
            groups[1][1] = '    NAME "inc%d_dir%d"%s' % (inc, attrs["dir"] or attrs.get("cwd0", 0), cmt(2))
        lines = []
        self.line_group = {}                # line of the expanded text -> group (= abstract token)
        for gi, g in enumerate(groups):
            for ln in g:
                lines.append(ln)
                self.line_group[len(lines)] = gi + 1
        self.expanded = "\n".join(lines) + "\n"
        self.files = {}                     # relative path -> content
        folder = "dir%dv%d" % (attrs.get("dir", 0), variant)
        self.cwd_relative = bool(inc) and attrs.get("dir", 0) == 0
        nest = attrs.get("nest", "none")
        self.parses = not fail and nest not in ("missing", "self")
        if inc:
            self.inc_name = "part%d.inc" % inc
            body = "\n".join(groups[1])
            if nest == "missing":          # the included file includes a file that does not exist
                body += '\n  INCLUDE "nosuch%d.inc"' % inc
            elif nest == "self":           # the included file includes itself: nesting limit
                body += '\n  INCLUDE "%s"' % self.inc_name
            elif nest == "chain":          # five include files, the last one holds the LAYER
                for lvl in range(1, 5):
                    nm = self.inc_name if lvl == 1 else "part%d_%d.inc" % (inc, lvl)
                    self.files[os.path.join(folder, nm)] = '  INCLUDE "part%d_%d.inc"' % (inc, lvl + 1)
                self.files[os.path.join(folder, "part%d_5.inc" % inc)] = body
            if nest != "chain":
                self.files[os.path.join(folder, self.inc_name)] = body
            written = self.inc_name
            if self.cwd_relative:
                # text without a file name: the include is written relative to the working directory
                written = os.path.relpath(os.path.join(root or "", folder, self.inc_name), os.getcwd())
            main = groups[0] + ['  INCLUDE "%s"' % written] + [ln for g in groups[2:] for ln in g]
            self.text = "\n".join(main) + "\n"
        else:
            self.text = self.expanded
        self.rel = os.path.join(folder, "doc%d.map" % doc)
        self.files[self.rel] = self.text
        self.path = os.path.join(root, self.rel) if root else None
        # which public front end reads this document: text, file name or open file
        fes = ["loads"] if self.cwd_relative else ["open", "load"] if inc or not root else ["loads", "open", "load"]
        self.fe = {c: fes[(doc + variant + int(c)) % len(fes)] if root else "loads" for c in (True, False)}
        self.comment_ids = {"# c%dv%d_%d" % (doc, variant, k): {"doc": doc, "line": k} for k in com}
        self._d = None                 # the dictionary callers hold (loaded once, with comments)

    @property
    def d(self):
        """loaded on first use through the public API (fresh workers)"""
        if self._d is None and self.parses:
            if self.attrs.get("inc") and not self.cwd_relative:
                self._d = mappyfile.open(self.path, include_comments=True)
            else:
                self._d = mappyfile.loads(self.text, include_comments=True)
            if not self.attrs.get("typed", True):
                # a root built by hand: no __type__ (nor any other hidden key) on the root
                for k in [k for k, _ in items_of(self._d) if isinstance(k, str) and k.startswith("__")]:
                    del self._d[k]
        return self._d

    def reload(self):
        self._d = None

    def layers(self):
        return self.d["layers"]


def build_docs(doctable, seed, variants=2, root=None):
    docs = {}
    for i, attrs in enumerate(doctable):
        for v in range(variants):
            docs[(i + 1, v)] = ConcreteDoc(i + 1, attrs, v, seed, root)
    return docs


def write_files(docs, root):
    """the documents and their include files, each document in the folder the table assigns to it"""
    for cd in docs.values():
        for rel, content in cd.files.items():
            p = os.path.join(root, rel)
            os.makedirs(os.path.dirname(p), exist_ok=True)
            with open(p, "w", encoding="utf-8", newline="") as f:
                f.write(content)


_envs = {}


def get_env(job):
    """documents and reference results, cached per worker process"""
    key = (job["seed"], json.dumps(job["doctable"], sort_keys=True), job.get("root"))
    if key not in _envs:
        docs = build_docs(job["doctable"], job["seed"], 2, job.get("root"))
        _envs[key] = (docs, References(docs))
    return _envs[key]


# ================================================================================ calls

def find_args(cd, desc):
    key = "name" if desc["key"] == "all" else "group"
    lst = cd.layers()
    if desc["kind"] == "find":
        return (lst, key, "lyr2" if key == "name" else "grp")
    if desc["kind"] == "findall":
        return (lst, key, ["lyr2", "lyr3"] if key == "name" else ["grp"])
    if desc["kind"] == "findunique":
        return (lst, key)
    return (cd.d, "layers", 0, "name")


def public_call(desc, cd, private_copy=False):
    """the module-level API call for an abstract call descriptor -> (callable, args that must stay
    unchanged)"""
    k = desc["kind"]
    if k == "loads":
        com = bool(desc["com"])
        fe = cd.fe[com]
        if fe == "open":
            return (lambda: mappyfile.open(cd.path, include_comments=com)), [cd.path]
        if fe == "load":
            def via_load():
                with open(cd.path, encoding="utf-8") as fp:
                    return mappyfile.load(fp, include_comments=com)
            return via_load, [cd.path]
        return (lambda: mappyfile.loads(cd.text, include_comments=com)), [cd.text]
    if k == "dumps":
        return (lambda: mappyfile.dumps(cd.d)), [cd.d]
    if k == "validate":
        ver = desc.get("cver", VERSIONS[desc["ver"]])
        return (lambda: mappyfile.validate(cd.d, version=ver)), [cd.d]
    a = find_args(cd, desc)
    if private_copy:
        a = (copy.deepcopy(a[0]),) + a[1:]
    fn = getattr(mappyfile, k)

    def q():
        try:
            return fn(*a)
        finally:
            fire("query_exit")
    return q, [a[0]]


_cold = [0]


def cold_versions(script):
    """the same calls with a version number nobody has used in this process yet: 7.6 and 8.0 are
    replaced by a number of the same class (no keyword of the generated documents has a bound
    between them), so every cache keyed by the version starts cold.  Equal abstract versions get equal
    concrete ones."""
    _cold[0] += 1
    n = _cold[0]
    spell = {76: round(7.6 - n * 1e-5, 5), 80: round(8.0 + n * 1e-5, 5)}
    return [[dict(c, cver=spell[c["ver"]]) if c["kind"] == "validate" and c["ver"] in spell else c for c in calls]
            for calls in script]


def mutating_query(desc):
    """find/findall on a key some items lack: the known defect (the helper inserts {} under the key)
    would contaminate the shared dictionary; purity part (a) reports it, the other parts run such a
    call on a private copy"""
    return desc["kind"] in ("find", "findall") and desc["key"] == "some"


def abstract_result(desc, cd, out, docs_by_comment):
    """projection of a real result into the abstract domain of spec/Calls.tla (field ret/exp)"""
    k = desc["kind"]
    if k == "loads":
        if out[0] == "exc":
            if out[1] in ("FileNotFoundError", "OSError", "IOError", "NotADirectoryError"):
                return {"k": "ioerror"}
            if out[1] == "ValueError":
                return {"k": "toodeep"}
            return {"k": "error"} if out[1] in LARK_ERRORS else {"k": "exception:" + out[1]}
        d = out[1]
        found = []
        _collect_comments(d, found)
        cs = [docs_by_comment.get(c, {"doc": -1, "line": -1}) for c in found]
        ok = isinstance(d, dict) and d.get("name") == cd.name
        inc = {"dir": 0, "name": 0}
        for lyr in (d.get("layers", []) if isinstance(d, dict) else []):
            nm = str(lyr.get("name", ""))
            if nm.startswith("inc") and "_dir" in nm:
                a, b = nm[3:].split("_dir")
                inc = {"dir": int(b), "name": int(a)}
        return {"k": "dict", "doc": cd.doc if ok else -1, "comments": cs, "inc": inc}
    if k == "validate":
        if out[0] == "exc":
            return {"k": "exception:" + out[1]}
        errs = []
        for m in out[1]:
            e = str(m.get("error", ""))
            errs.append("f1" if "maybe" in e else "old" if "imagequality" in e else
                        "anc" if "labelmaxscale" in e else "other:" + e[:40])
        return {"k": "msgs", "doc": cd.doc, "errs": errs}
    if k == "dumps":
        if out[0] == "exc":
            return {"k": "exception:" + out[1]}
        text = out[1]
        return {"k": "text", "doc": cd.doc if ('NAME "%s"' % cd.name) in text else -1,
                "vcom": "# ERROR" in text}
    if out[0] == "exc":
        return {"k": "exception:" + out[1]}
    return {"k": "items", "doc": cd.doc, "key": desc["key"], "kind": k}


LARK_ERRORS = {c.__name__ for c in (impl.lark.exceptions.UnexpectedToken, impl.lark.exceptions.UnexpectedCharacters,
                                    impl.lark.exceptions.UnexpectedEOF, impl.lark.exceptions.UnexpectedInput,
                                    impl.lark.exceptions.ParseError, impl.lark.exceptions.LexError,
                                    impl.lark.exceptions.VisitError)}


def _collect_comments(d, out):
    if isinstance(d, dict):
        for k, v in items_of(d):
            if k == "__comments__" and isinstance(v, dict):
                for c in v.values():
                    if isinstance(c, (list, tuple)):
                        out.extend(str(x) for x in c)
                    else:
                        out.append(str(c))
            else:
                _collect_comments(v, out)
    elif isinstance(d, (list, tuple)):
        for x in d:
            _collect_comments(x, out)


def abstract_eq(spec, got):
    """spec: the ret/exp record printed by TLC (sets arrive as lists); got: abstract_result"""
    if spec.get("k") != got.get("k"):
        return False
    k = spec["k"]
    if k == "dict":
        return (spec["doc"] == got["doc"] and _bag(spec["comments"]) == _bag(got["comments"])
                and spec.get("inc") == got.get("inc"))
    if k == "msgs":
        return spec["doc"] == got["doc"] and sorted(spec["errs"]) == sorted(got["errs"])
    if k == "text":
        return spec["doc"] == got["doc"] and bool(spec["vcom"]) == bool(got["vcom"])
    if k == "items":
        return spec["doc"] == got["doc"]
    return True


def _bag(xs):
    return sorted(json.dumps(x, sort_keys=True) for x in xs)


# ================================================================================ (a) purity

class Recorder:
    def __init__(self, base_tid):
        self.tid = base_tid
        self.records = []
        self.cases = {}

    def call(self, kind, fnname, docname, fn, args, case=None, cls=""):
        """run fn(); args = the objects whose deep snapshot must not change"""
        pre = [snap(a) for a in args]
        out = outcome(fn)
        post = [snap(a) for a in args]
        dp = [digest(x) for x in pre]
        dq = [digest(x) for x in post]
        diff = ""
        if dp != dq:
            for x, y in zip(pre, post):
                diff = snapdiff(x, y)
                if diff:
                    break
        self.tid += 1
        self.records.append({"tid": self.tid, "call": kind, "fn": fnname, "doc": docname, "pre": dp, "post": dq,
                             "diff": diff, "outcome": out[0] if out[0] == "ok" else out[1], "cls": cls})
        if diff and case is not None:
            self.cases[self.tid] = case
        return out


def object_lists(d, path=()):
    """(path, list) for every list of dicts inside d"""
    if isinstance(d, dict):
        for k, v in items_of(d):
            if isinstance(v, list) and v and all(isinstance(x, dict) for x in v):
                yield path + (k,), v
            if isinstance(v, (dict, list)) and not (isinstance(k, str) and k.startswith("__")):
                yield from object_lists(v, path + (k,))
    elif isinstance(d, list):
        for i, x in enumerate(d):
            yield from object_lists(x, path + (i,))


def purity_doc(rec, name, text=None, fn=None, rng=None, light=False):
    """every public call on one document; records one NDJSON line per call"""
    flags = {"include_comments": True, "include_position": True}
    if fn is not None:
        out = rec.call("loads", "open", name, lambda: mappyfile.open(fn, **flags), [fn])
    else:
        # generated documents use INCLUDE as data (expansion is C15's business)
        out = rec.call("loads", "loads", name, lambda: mappyfile.loads(text, expand_includes=False, **flags), [text])
        if not light:
            rec.call("loads", "load", name,
                     lambda: mappyfile.load(io.StringIO(text), expand_includes=False, include_comments=True), [text])
    if out[0] != "ok":
        return False
    d = out[1]
    src = {"text": text, "file": fn}
    rec.call("dumps", "dumps", name, lambda: mappyfile.dumps(d), [d], dict(src, call="dumps(d)"))
    opts = {"indent": rng.choice([0, 2, 4]), "spacer": rng.choice([" ", "\t"]), "quote": rng.choice(['"', "'"]),
            "end_comment": rng.random() < 0.5, "align_values": rng.random() < 0.5}
    rec.call("dumps", "dumps", name, lambda: mappyfile.dumps(d, **opts), [d], dict(src, call="dumps(d, **%r)" % opts))
    if not light:
        buf = io.StringIO()
        rec.call("dumps", "dump", name, lambda: mappyfile.dump(d, buf), [d], dict(src, call="dump(d, fp)"))
        tmp = os.path.join(tempfile.gettempdir(), "c12_save_%d.map" % os.getpid())
        rec.call("dumps", "save", name, lambda: mappyfile.save(d, tmp), [d], dict(src, call="save(d, fn)"))
        try:
            os.remove(tmp)
        except OSError:
            pass
    for ver in (None, 7.6, 8.0):
        rec.call("validate", "validate", name, lambda: mappyfile.validate(d, version=ver), [d],
                 dict(src, call="validate(d, version=%r)" % ver))
    # the two documented exceptions, on private copies
    dc = copy.deepcopy(d)
    rec.call("dumps_sep", "dumps", name, lambda: mappyfile.dumps(dc, separate_complex_types=True), [dc])
    dv = copy.deepcopy(d)
    rec.call("validate_addc", "Validator.validate", name, lambda: Validator().validate(dv, add_comments=True), [dv])
    untyped_root_probes(rec, name, d, src, rng)
    # query helpers, Mapfile-dict items and plain-dict items
    lists = list(object_lists(d))
    rng.shuffle(lists)
    for path, lst in lists[:3 if light else 6]:
        for flavour in ("mapfile", "plain"):
            L = lst if flavour == "mapfile" else json.loads(json.dumps(lst))
            keysets = [set(k for k in dict.keys(x) if not k.startswith("__")) for x in L]
            allk = sorted(set.intersection(*keysets)) if keysets else []
            somek = sorted(set.union(*keysets) - set(allk)) if keysets else []
            cands = []
            if allk:
                cands.append(("all", rng.choice(allk)))
            if somek:
                cands.append(("some", rng.choice(somek)))
            cands.append(("none", "group" if "group" not in allk + somek else "template"))
            for cls, key in cands:
                vals = [dict.get(x, key) for x in L if key in dict.keys(x)]
                vals = [v for v in vals if isinstance(v, (str, int, float))]
                val = rng.choice(vals) if vals and rng.random() < 0.7 else "no-such-value"
                where = "%s[%s items, key in %s]" % ("/".join(map(str, path)), flavour, cls)
                c = dict(src, path=list(path), items=flavour, key=key, value=val)
                rec.call("find", "find", name, lambda: mappyfile.find(L, key, val), [L, key, val],
                         dict(c, call="find(%s, %r, %r)" % (where, key, val)))
                rec.call("findall", "findall", name, lambda: mappyfile.findall(L, key, val if isinstance(val, str) else [val]),
                         [L, key], dict(c, call="findall(%s, %r, ..)" % (where, key)))
                rec.call("findunique", "findunique", name, lambda: mappyfile.findunique(L, key), [L, key],
                         dict(c, call="findunique(%s, %r)" % (where, key)))
        keys = list(path) + [0]
        rec.call("findkey", "findkey", name, lambda: mappyfile.findkey(d, *keys), [d, keys],
                 dict(src, call="findkey(d, *%r)" % keys))
    return True


def strip_root(d):
    for k in [k for k, _ in items_of(d) if isinstance(k, str) and k.startswith("__")]:
        del d[k]
    return d


def untyped_root_probes(rec, name, d, src, rng):
    """root dictionaries as a caller may build them by hand: without __type__ (nor any other hidden
    key) on the root - as a Mapfile dict, as a plain dict, and as one element of a list of roots"""
    if not (isinstance(d, dict) and "__type__" in dict.keys(d)):
        return
    cls = "untyped-root"
    ver = rng.choice([7.6, 8.0])
    u = strip_root(copy.deepcopy(d))
    rec.call("validate", "validate", name, lambda: mappyfile.validate(u), [u],
             dict(src, call="validate(root without __type__)", probe=cls), cls=cls)
    rec.call("validate", "validate", name, lambda: mappyfile.validate(u, version=ver), [u],
             dict(src, call="validate(root without __type__, version=%r)" % ver, probe=cls), cls=cls)
    try:
        p = strip_root(json.loads(json.dumps(d)))
    except (TypeError, ValueError):
        p = None
    if p is not None:
        rec.call("validate", "validate", name, lambda: mappyfile.validate(p), [p],
                 dict(src, call="validate(plain dict root without __type__)", probe=cls), cls=cls + "-plain")
    roots = [copy.deepcopy(d), strip_root(copy.deepcopy(d))]
    rec.call("validate", "validate", name, lambda: mappyfile.validate(roots), [roots],
             dict(src, call="validate([typed root, root without __type__])", probe=cls), cls=cls + "-in-list")
    u2 = strip_root(copy.deepcopy(d))
    rec.call("dumps", "dumps", name, lambda: mappyfile.dumps(u2), [u2],
             dict(src, call="dumps(root without __type__)", probe=cls), cls=cls)
    u3 = strip_root(copy.deepcopy(d))
    rec.call("findkey", "findkey", name, lambda: mappyfile.findkey(u3), [u3],
             dict(src, call="findkey(root without __type__)", probe=cls), cls=cls)


def task_purity(job):
    """job: {"base": tid base, "seed": n, "texts": [(name, text)], "files": [(name, path)], "light": bool}"""
    c0 = time.process_time()
    rng = random.Random(job["seed"])
    rec = Recorder(job["base"])
    loaded = 0
    for name, text in job.get("texts", []):
        loaded += bool(purity_doc(rec, name, text=text, rng=rng, light=job.get("light", False)))
    for name, fn in job.get("files", []):
        loaded += bool(purity_doc(rec, name, fn=fn, rng=rng, light=job.get("light", False)))
    return {"records": rec.records, "cases": rec.cases, "loaded": loaded, "cpu": time.process_time() - c0}


_slot_loader = None


def task_purity_slots(job):
    """the slot product of spec/SlotProbe.tla (one document per block type x keyword x value
    alternative x position): every keyword with every shape of value - scalars, lists of numbers,
    of strings, of bindings, repeated keywords, key-value blocks, point lists - goes through
    dumps (two option sets), dump and validate under the snapshot.  The documents are loaded by one
    re-used Parser/MapfileToDict pair (re-use == fresh is part (b)); the calls under test are the
    public ones.  job: {"base", "seed", "hists": [behaviour ...]}"""
    global _slot_loader
    from . import concretise, docs as docsmod
    c0 = time.process_time()
    if _slot_loader is None:
        _slot_loader = (Parser(expand_includes=False, include_comments=True),
                        MapfileToDict(include_position=True, include_comments=True))
    P, M = _slot_loader
    conc = concretise.Concretiser(job["seed"])
    rec = Recorder(job["base"])
    loaded = 0
    for j, h in enumerate(job["hists"]):
        info = h[-1].get("info") or {}
        slot = info.get("slot", ["?", "?", "?", ""])
        name = "slot:%s.%s:%s%s@%s" % (slot[0], slot[1], slot[2], (":" + str(slot[3])) if slot[3] else "", info.get("pos", ""))
        text, _ = concretise.assemble(conc.tokens(concretise.with_root(h, docsmod.root_type(h))))
        try:
            d = M.transform(P.parse(text))
        except Exception:  # noqa: BLE001   (what is accepted is C02's business)
            continue
        loaded += 1
        src = {"text": text, "file": None}
        rec.call("dumps", "dumps", name, lambda: mappyfile.dumps(d), [d], dict(src, call="dumps(d)"))
        rec.call("dumps", "dumps", name, lambda: mappyfile.dumps(d, indent=2, quote="'", align_values=True), [d],
                 dict(src, call="dumps(d, indent=2, quote=\"'\", align_values=True)"))
        rec.call("validate", "validate", name, lambda: mappyfile.validate(d), [d], dict(src, call="validate(d)"))
        if j % 8 == 0:
            untyped_root_probes(rec, name, d, src, random.Random(j))
            buf = io.StringIO()
            rec.call("dumps", "dump", name, lambda: mappyfile.dump(d, buf), [d], dict(src, call="dump(d, fp)"))
            for ver in (7.6, 8.0):
                rec.call("validate", "validate", name, lambda: mappyfile.validate(d, version=ver), [d],
                         dict(src, call="validate(d, version=%r)" % ver))
        for path, lst in list(object_lists(d))[:1]:
            rec.call("findunique", "findunique", name, lambda: mappyfile.findunique(lst, "name"), [lst],
                     dict(src, call="findunique(%s, 'name')" % "/".join(map(str, path))))
            rec.call("findall", "findall", name, lambda: mappyfile.findall(lst, "name", ["x"]), [lst],
                     dict(src, call="findall(%s, 'name', ['x'])" % "/".join(map(str, path))))
    return {"records": rec.records, "cases": rec.cases, "loaded": loaded, "cpu": time.process_time() - c0}


# ================================================================================ (b) reuse

class References:
    """F(args): result of the public call with fresh worker objects, computed once per concrete call"""

    def __init__(self, docs):
        self.docs = docs
        self.memo = {}
        self.by_comment = {}
        for cd in docs.values():
            self.by_comment.update(cd.comment_ids)

    def key(self, desc, v):
        return (desc["kind"], desc["doc"], v, bool(desc["com"]), desc["ver"], desc["key"])

    def get(self, desc, v):
        k = self.key(desc, v)
        if k not in self.memo:
            cd = self.docs[(desc["doc"], v)]
            fn, _ = public_call(desc, cd, private_copy=mutating_query(desc))
            out = outcome(fn)
            self.memo[k] = (value_of(out), abstract_result(desc, cd, out, self.by_comment))
        return self.memo[k]


class Workers:
    """ONE set of worker objects, re-used for every call of every history"""

    def __init__(self):
        self.parser = {True: Parser(include_comments=True), False: Parser(include_comments=False)}
        self.m2d = {True: MapfileToDict(include_comments=True), False: MapfileToDict(include_comments=False)}
        self.pp = PrettyPrinter()
        self.validator = Validator()

    def call(self, desc, cd):
        k = desc["kind"]
        if k == "loads":
            c = bool(desc["com"])
            fe = cd.fe[c]
            if fe == "open":
                return outcome(lambda: self.m2d[c].transform(self.parser[c].parse_file(cd.path)))
            if fe == "load":
                def via_load():
                    with open(cd.path, encoding="utf-8") as fp:
                        return self.m2d[c].transform(self.parser[c].load(fp))
                return outcome(via_load)
            return outcome(lambda: self.m2d[c].transform(self.parser[c].parse(cd.text)))
        if k == "dumps":
            return outcome(lambda: self.pp.pprint(cd.d))
        if k == "validate":
            return outcome(lambda: self.validator.validate(cd.d, version=VERSIONS[desc["ver"]]))
        fn, _ = public_call(desc, cd, private_copy=mutating_query(desc))
        return outcome(fn)


def task_reuse(job):
    """job: {"seed", "doctable", "hists": [[call records of one TLC history]], "variants"}"""
    c0 = time.process_time()
    rng = random.Random(job["seed"])
    docs, refs = get_env(job)
    pre = {k: digest(snap(cd.d)) for k, cd in docs.items() if cd.d is not None}
    W = Workers()
    viol = []
    n = 0
    classes = set()
    trail = []                        # every call made so far on this one set of workers
    for hi, hist in enumerate(job["hists"]):
        for ci, h in enumerate(hist):
            desc = h["call"]
            v = rng.randrange(job.get("variants", 2))
            cd = docs[(desc["doc"], v)]
            ref_val, ref_abs = refs.get(desc, v)
            out = W.call(desc, cd)
            got_val = value_of(out)
            got_abs = abstract_result(desc, cd, out, refs.by_comment)
            trail.append({"call": desc, "variant": v})
            n += 1
            classes.add((desc["kind"], desc["doc"], bool(desc["com"]), desc["ver"]))
            case = {"part": "reuse", "history": trail[-16:], "seed": job["seed"], "doctable": job["doctable"],
                    "variants": job.get("variants", 2), "text": cd.text, "root": job.get("root"),
                    "front_end": cd.fe[bool(desc["com"])] if desc["kind"] == "loads" else None}
            if not abstract_eq(h["exp"], ref_abs):
                viol.append(("C12|seq|%s|spec-mismatch" % desc["kind"],
                             "fresh public %s returned %s, the specification predicts %s" % (
                                 desc["kind"], json.dumps(ref_abs)[:200], json.dumps(h["exp"])[:200]), case))
            if got_val != ref_val:
                what = "outcome" if got_val[0] != ref_val[0] else "result"
                viol.append(("C12|reuse|%s|%s" % (desc["kind"], what),
                             "call %d of a history on re-used worker objects differs from the same call on fresh "
                             "objects: %s (abstract: reused %s, fresh %s)" % (
                                 ci + 1, call_str(desc), json.dumps(got_abs)[:160], json.dumps(ref_abs)[:160]), case))
            elif not abstract_eq(h["ret"], got_abs):
                viol.append(("C12|reuse|%s|spec-mismatch" % desc["kind"],
                             "re-used workers returned %s, specification says %s" % (
                                 json.dumps(got_abs)[:200], json.dumps(h["ret"])[:200]), case))
    post = {k: digest(snap(cd.d)) for k, cd in docs.items() if cd.d is not None}
    for k in pre:
        if pre[k] != post[k]:
            viol.append(("C12|reuse|args|arg-mutated", "dictionary of %s changed during the re-use replay" % (k,),
                         {"part": "reuse-args", "doc": list(k)}))
    refdig = {"/".join(map(str, k)): digest(v[0]) for k, v in refs.memo.items()}
    return {"viol": viol, "n": n, "classes": sorted(classes), "cpu": time.process_time() - c0, "refdig": refdig}


def call_str(desc):
    k = desc["kind"]
    if k == "loads":
        return "loads/open/load(doc%d, include_comments=%s)" % (desc["doc"], bool(desc["com"]))
    if k == "validate":
        return "validate(doc%d, version=%s)" % (desc["doc"], VERSIONS[desc["ver"]])
    if k == "dumps":
        return "dumps(doc%d)" % desc["doc"]
    return "%s(doc%d.layers, key %s)" % (k, desc["doc"], desc["key"])


# ================================================================================ (c) schedules

class Runner(threading.Thread):
    def __init__(self, tid, calls, sched, expected):
        super().__init__(daemon=True)
        self.tid = tid
        self.calls = calls              # [(desc, fn, line_group)]
        self.sched = sched
        self.expected = expected        # per call: seam names in order
        self.outs = []
        self.seen = []
        self.error = None

    def run(self):
        try:
            for (desc, fn, lg), exp in zip(self.calls, self.expected):
                ctx = CallCtx(desc, line_group=lg, sched=self.sched, tid=self.tid)
                ctx.expected = list(exp)
                if self.sched is not None:
                    try:
                        self.sched.wait_turn(self.tid)
                    except SchedAbort:
                        ctx.sched = None
                _tls.ctx = ctx
                try:
                    self.outs.append(outcome(fn))
                finally:
                    _tls.ctx = None
                    self.seen.append(ctx.seen)
                    if ctx.sched is not None:
                        self.sched.finish(ctx)
        except BaseException as ex:  # noqa: BLE001
            self.error = "%s: %s" % (type(ex).__name__, ex)


def run_sequential(desc, cd):
    """the call on its own, seams installed, no scheduler -> (outcome, seam names passed)"""
    fn, _ = public_call(desc, cd, private_copy=mutating_query(desc))
    ctx = CallCtx(desc, line_group=cd.line_group)
    _tls.ctx = ctx
    try:
        out = outcome(fn)
    finally:
        _tls.ctx = None
    return out, ctx.seen


def force_schedule(script, sched_entries, docs, variants):
    """script: per thread a list of call descriptors; sched_entries: [{"t", "at"}] from TLC.
    -> (per thread outcomes, per thread seams seen, failure string or None)"""
    order = [e["t"] for e in sched_entries]
    S = Scheduler(order)
    runners = []
    for ti, calls in enumerate(script):
        tid = ti + 1
        ats = [e["at"] for e in sched_entries if e["t"] == tid]
        # split the thread's seam list per call at the "end" markers
        per_call, curr = [], []
        for a in ats:
            if a == "end":
                per_call.append(curr)
                curr = []
            else:
                curr.append(a)
        cl = []
        for desc, v in zip(calls, variants[ti]):
            cd = docs[(desc["doc"], v)]
            fn, _ = public_call(desc, cd, private_copy=mutating_query(desc))
            cl.append((desc, fn, cd.line_group))
        if len(per_call) != len(cl):
            raise MachineryFailure("schedule has %d calls for thread %d, script %d" % (len(per_call), tid, len(cl)))
        runners.append(Runner(tid, cl, S, per_call))
    for r in runners:
        r.start()
    limit = S.deadline + 60
    for r in runners:
        r.join(max(1.0, limit - time.time()))
    if any(r.is_alive() for r in runners):
        with S.cond:
            S._fail("thread still alive after join timeout")
        frames = sys._current_frames()
        where = []
        for r in runners:
            f = frames.get(r.ident)
            stack = []
            while f is not None and len(stack) < 6:
                stack.append("%s:%d" % (os.path.basename(f.f_code.co_filename), f.f_lineno))
                f = f.f_back
            where.append("t%d[%s]" % (r.tid, " < ".join(stack) if r.is_alive() else "done"))
        return None, None, "stuck: %s; %s" % (S.failed, " ".join(where))
    if S.failed:
        return None, None, S.failed
    for r in runners:
        if r.error:
            return None, None, "runner error " + r.error
    if S.pos != len(order):
        return None, None, "schedule not consumed: %d of %d" % (S.pos, len(order))
    return [r.outs for r in runners], [r.seen for r in runners], None


def pair_sig(script):
    return "+".join(sorted(c["kind"] for calls in script for c in calls))


def task_schedules(job):
    """job: {"seed", "doctable", "script", "sid", "scheds": [[{"t","at"}...]], "hists": [...], "variants": [[v..]..]}"""
    c0 = time.process_time()
    install_seams()
    docs, refs = get_env(job)
    script = job["script"]
    variants = job["variants"]
    viol, notes = [], []
    n = 0
    seq = []
    for ti, calls in enumerate(script):
        row = []
        for desc, v in zip(calls, variants[ti]):
            cd = docs[(desc["doc"], v)]
            out, seen = run_sequential(desc, cd)
            pcs = model_pcs(desc, job["doctable"])
            it = iter(pcs)
            if not all(any(s == p for p in it) for s in seen):
                notes.append("seam order differs from the model for %s: real %s model %s" % (call_str(desc), seen, pcs))
            ref_val, ref_abs = refs.get(desc, v)
            if value_of(out) != ref_val:
                viol.append(("C12|seq|%s|nondeterministic" % desc["kind"],
                             "two sequential public calls of %s gave different results" % call_str(desc),
                             {"part": "seq", "call": desc, "text": cd.text}))
            row.append((value_of(out), seen, ref_abs))
        seq.append(row)
    used = sorted({(c["doc"], v) for ti, calls in enumerate(script) for c, v in zip(calls, variants[ti])})
    failures = []
    cwd0 = os.getcwd()
    for si, sched in enumerate(job["scheds"]):
        pre = {k: digest(snap(docs[k].d)) for k in used if docs[k].d is not None}
        versioned = any(c["kind"] == "validate" and c["ver"] for calls in script for c in calls)
        run_script = cold_versions(script) if versioned else script
        outs, seen, fail = force_schedule(run_script, sched, docs, variants)
        n += 1
        cwd1 = os.getcwd()
        if cwd1 != cwd0:
            os.chdir(cwd0)
        if fail:
            failures.append(fail)
            if len(failures) > 3:
                break
            continue
        case = {"part": "schedule", "script": run_script, "schedule": sched, "variants": variants, "seed": job["seed"],
                "doctable": job["doctable"], "root": job.get("root"),
                "texts": {"%d/%d" % k: docs[k].text for k in used}}
        hist = job["hists"][si] if job.get("hists") else None
        if cwd1 != cwd0:
            viol.append(("C12|schedule|%s|cwd-changed" % pair_sig(script),
                         "the working directory of the process is %s after a forced interleaving (was %s); schedule %s" % (
                             cwd1, cwd0, " ".join("%d:%s" % (e["t"], e["at"]) for e in sched)), case))
        for ti, calls in enumerate(script):
            for ci, desc in enumerate(calls):
                got = value_of(outs[ti][ci])
                want = seq[ti][ci][0]
                if got != want:
                    cd = docs[(desc["doc"], variants[ti][ci])]
                    ga = abstract_result(desc, cd, outs[ti][ci], refs.by_comment)
                    kind = "exception" if got[0] == "exc" and want[0] == "ok" else "result"
                    viol.append(("C12|schedule|%s|%s" % (pair_sig(script), kind),
                                 "thread %d %s under a forced interleaving returned %s, sequentially %s; schedule %s" % (
                                     ti + 1, call_str(desc), json.dumps(ga)[:160], json.dumps(seq[ti][ci][2])[:160],
                                     " ".join("%d:%s" % (e["t"], e["at"]) for e in sched)), case))
                if "cver" in run_script[ti][ci]:
                    # the same call once more, sequentially, after the concurrent phase: what the
                    # interleaving left in any cache keyed by this version
                    cd = docs[(desc["doc"], variants[ti][ci])]
                    after = value_of(outcome(public_call(run_script[ti][ci], cd)[0]))
                    if after != want:
                        viol.append(("C12|schedule|%s|later-call" % pair_sig(script),
                                     "%s called sequentially after a forced interleaving returned %s, in a clean state %s" % (
                                         call_str(desc), json.dumps(after)[:120], json.dumps(want)[:120]), case))
        if hist is not None:
            for h in hist:
                ti = h["t"] - 1
                ci = h["call"]["n"] - 1
                desc = script[ti][ci]
                cd = docs[(desc["doc"], variants[ti][ci])]
                ga = abstract_result(desc, cd, outs[ti][ci], refs.by_comment)
                if not abstract_eq(h["ret"], ga) and value_of(outs[ti][ci]) == seq[ti][ci][0]:
                    viol.append(("C12|schedule|%s|spec-mismatch" % pair_sig(script),
                                 "%s returned %s, specification says %s" % (call_str(desc), json.dumps(ga)[:160],
                                                                            json.dumps(h["ret"])[:160]), case))
        post = {k: digest(snap(docs[k].d)) for k in pre}
        if pre != post:
            viol.append(("C12|schedule|%s|arg-mutated" % pair_sig(script),
                         "an argument dictionary changed during a forced interleaving", case))
            for k in pre:                 # restore for the next schedules
                if pre[k] != post[k]:
                    docs[k].reload()
    return {"viol": viol, "n": n, "failures": failures, "notes": notes[:5],
            "seams": [[r[1] for r in row] for row in seq], "cpu": time.process_time() - c0}


# ================================================================================ stress

def task_stress(job):
    """16 free-running threads on the module-level API under a tiny switch interval"""
    c0 = time.process_time()
    docs, refs = get_env(job)
    menu = []
    for (doc, v), cd in sorted(docs.items()):
        if v >= job.get("variants", 1):
            continue
        if not cd.attrs.get("hand"):
            for com in (True, False):
                menu.append(({"kind": "loads", "doc": doc, "com": com, "ver": 0, "key": "all"}, v))
        if cd.d is not None:
            if cd.attrs.get("typed", True):
                menu.append(({"kind": "dumps", "doc": doc, "com": False, "ver": 0, "key": "all"}, v))
            for ver in (0, 76, 80):
                menu.append(({"kind": "validate", "doc": doc, "com": False, "ver": ver, "key": "all"}, v))
            for q in ("find", "findall", "findunique", "findkey"):
                menu.append(({"kind": q, "doc": doc, "com": False, "ver": 0, "key": "all"}, v))
    incdocs = {i + 1 for i, a in enumerate(job["doctable"]) if a.get("inc")}
    weights = [8 if m[0]["kind"] == "loads" and m[0]["doc"] in incdocs else
               6 if m[0]["kind"] == "loads" and m[0]["com"] else 2 if m[0]["kind"] in ("loads", "validate", "dumps") else 1
               for m in menu]
    for desc, v in menu:
        refs.get(desc, v)
    used = sorted({(d["doc"], v) for d, v in menu})
    pre = {k: digest(snap(docs[k].d)) for k in used if docs[k].d is not None}
    viol = []
    counts = {}
    lock = threading.Lock()
    stop = time.time() + job["seconds"]
    nthreads = job.get("threads", 16)
    same = job.get("same_input", False)
    hot = menu[:8]

    def worker(i):
        rng = random.Random("%s/%s/%s" % (job["seed"], job.get("proc", 0), i))
        while time.time() < stop and len(viol) < 5:
            desc, v = rng.choice(hot) if same and rng.random() < 0.7 else rng.choices(menu, weights)[0]
            cd = docs[(desc["doc"], v)]
            fn, _ = public_call(desc, cd)
            out = outcome(fn)
            got = value_of(out)
            want, want_abs = refs.get(desc, v)
            with lock:
                counts[desc["kind"]] = counts.get(desc["kind"], 0) + 1
                if got != want:
                    ga = abstract_result(desc, cd, out, refs.by_comment)
                    kind = "exception" if got[0] == "exc" and want[0] == "ok" else "result"
                    viol.append(("C12|stress|%s|%s" % (desc["kind"], kind),
                                 "%s called from one of %d free-running threads returned %s, sequentially %s" % (
                                     call_str(desc), nthreads, json.dumps(ga)[:160], json.dumps(want_abs)[:160]),
                                 {"part": "stress", "call": desc, "text": cd.text, "seed": job["seed"]}))
    cwd0 = os.getcwd()
    old = sys.getswitchinterval()
    sys.setswitchinterval(1e-6)
    try:
        ts = [threading.Thread(target=worker, args=(i,), daemon=True) for i in range(nthreads)]
        for t in ts:
            t.start()
        for t in ts:
            t.join(job["seconds"] + 120)
        stuck = any(t.is_alive() for t in ts)
    finally:
        sys.setswitchinterval(old)
    if os.getcwd() != cwd0:
        viol.append(("C12|stress|process|cwd-changed", "the working directory of the process is %s after the stress run "
                     "(was %s)" % (os.getcwd(), cwd0), {"part": "stress-cwd"}))
        os.chdir(cwd0)
    post = {k: digest(snap(docs[k].d)) for k in pre}
    if pre != post:
        viol.append(("C12|stress|args|arg-mutated", "an argument dictionary changed during the stress run",
                     {"part": "stress-args"}))
    return {"viol": viol[:5], "counts": counts, "stuck": stuck, "cpu": time.process_time() - c0}


def task_cold(job):
    """cold start: this process was forked before anything was validated or printed, so every
    process-wide cache is empty.  The concurrent phase comes FIRST (staggered threads on the
    module-level API), then the same calls once more sequentially; the sequential results are also
    handed back as digests and compared with the references of another process.
    job: {"seed", "doctable", "root", "focus": 0|1|2}"""
    c0 = time.process_time()
    docs, refs = get_env(job)

    def D(kind, doc, ver=0, com=False):
        return {"kind": kind, "doc": doc, "com": com, "ver": ver, "key": "all"}
    focus = job["focus"] % 3
    if focus == 0:
        menu = [D("validate", 4, 76), D("validate", 5, 76), D("validate", 1, 76), D("dumps", 4), D("validate", 4, 76)]
    elif focus == 1:
        menu = [D("validate", 5, 80), D("validate", 4, 80), D("validate", 2, 80), D("dumps", 5), D("validate", 5, 80)]
    else:
        menu = [D("dumps", 1), D("dumps", 2), D("dumps", 4), D("dumps", 7), D("validate", 1, 0), D("dumps", 5),
                D("validate", 14, 76), D("loads", 10, com=True)]
    v = job.get("variant", 0)
    menu = [m for m in menu if docs[(m["doc"], v)].parses]
    for m in menu:                         # the dictionaries the callers hold (parser only)
        docs[(m["doc"], v)].d
    pre = {m["doc"]: digest(snap(docs[(m["doc"], v)].d)) for m in menu}
    nthreads, rounds = job.get("threads", 12), 2
    outs = {}
    barrier = threading.Barrier(nthreads)

    def worker(i):
        barrier.wait()
        time.sleep(i * 0.003)              # staggered: one thread is still filling a cache when the next arrives
        for r in range(rounds):
            mi = (i + r) % len(menu)
            outs[(i, r)] = (mi, outcome(public_call(menu[mi], docs[(menu[mi]["doc"], v)])[0]))
    cwd0 = os.getcwd()
    old = sys.getswitchinterval()
    sys.setswitchinterval(1e-5)
    try:
        ts = [threading.Thread(target=worker, args=(i,), daemon=True) for i in range(nthreads)]
        for t in ts:
            t.start()
        for t in ts:
            t.join(300)
        stuck = any(t.is_alive() for t in ts)
    finally:
        sys.setswitchinterval(old)
    viol = []
    seq, seqdig = [], {}
    for m in menu:
        cd = docs[(m["doc"], v)]
        o = outcome(public_call(m, cd)[0])
        seq.append((value_of(o), abstract_result(m, cd, o, refs.by_comment)))
        seqdig["/".join(map(str, refs.key(m, v)))] = digest(seq[-1][0])
    for (i, r), (mi, o) in sorted(outs.items()):
        if value_of(o) != seq[mi][0]:
            m = menu[mi]
            ga = abstract_result(m, docs[(m["doc"], v)], o, refs.by_comment)
            kind = "exception" if o[0] == "exc" and seq[mi][0][0] == "ok" else "result"
            viol.append(("C12|stress|%s|cold-start-%s" % (m["kind"], kind),
                         "%s called from %d threads right after process start returned %s, sequentially afterwards %s" % (
                             call_str(m), nthreads, json.dumps(ga)[:160], json.dumps(seq[mi][1])[:160]),
                         {"part": "stress-cold", "call": m, "seed": job["seed"]}))
            break
    if os.getcwd() != cwd0:
        os.chdir(cwd0)
        viol.append(("C12|stress|process|cwd-changed", "working directory changed during the cold-start run", {"part": "stress-cwd"}))
    post = {m["doc"]: digest(snap(docs[(m["doc"], v)].d)) for m in menu}
    if pre != post:
        viol.append(("C12|stress|args|arg-mutated", "an argument dictionary changed during the cold-start run",
                     {"part": "stress-args"}))
    return {"viol": viol, "n": len(outs) + len(menu), "seqdig": seqdig, "stuck": stuck, "cpu": time.process_time() - c0,
            "calls": [call_str(m) for m in menu]}
