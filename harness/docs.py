"""Document behaviours out of TLC (spec/Reader.tla, spec/SlotProbe.tla) for the checks that need
generated documents (C01-C08, C13-C16, C19, C20).  Every behaviour is a list of builder actions;
the last one ("finish") carries the dict the Reader contract predicts for the whole document, and
when step_posts=True every action carries the predicted dict of the closed prefix."""
from __future__ import annotations
from . import tlc, vocab
from .common import MachineryFailure

READER_INVS = ["KeysUnique", "PluralOnlyForRepeatable", "RepeatedAreLists"]


def walks(n, max_steps=25, step_posts=False, seed=0, ids=(1, 2, 3, 4), tag="walks", ck=None,
          max_depth=5, timeout=900):
    vocab.get()
    cfg = tlc.cfg_text(constants={"MaxDepth": max_depth, "MaxSteps": max_steps, "Ids": set(ids),
                                  "StepPosts": step_posts, "Mode": "walk"},
                       invariants=["Emit"] + READER_INVS)
    r = tlc.run("Reader", cfg, tag=tag, mode="simulate", simulate="num=%d" % n,
                depth=max_steps + 5, seed=seed, timeout=timeout)
    if r.violated:
        raise MachineryFailure("Reader invariant %s violated in simulation" % r.violated)
    if ck is not None:
        ck.add_tlc(tag, r)
    hs = [h for h in r.prints if isinstance(h, list)]
    if len(hs) < n * 0.9:
        raise MachineryFailure("TLC produced %d behaviours, wanted %d" % (len(hs), n))
    return hs


def slots(tag="slots", ck=None, timeout=900, with_complex=False):
    """one minimal document per point of the slot product; with_complex adds the position "aftercomplex" (the keyword
    as first simple keyword behind a block-valued item of each complex shape its block type has)"""
    vocab.get()
    cfg = tlc.cfg_text(init="PInit", next_="PNext",
                       constants={"MaxDepth": 5, "MaxSteps": 12, "Ids": {1}, "StepPosts": False,
                                  "Mode": "slots"},
                       invariants=["PEmit"] + READER_INVS) + ("CONSTANT WithComplex <- Yes\n" if with_complex else "")
    r = tlc.run("SlotProbe", cfg, tag=tag, workers=1, timeout=timeout)
    if r.violated:
        raise MachineryFailure("Reader invariant %s violated on slot probes" % r.violated)
    if ck is not None:
        ck.add_tlc(tag, r)
    return [h for h in r.prints if isinstance(h, list)]


def root_type(hist):
    return hist[-1]["post"]["type"]


def model_check_reader(ck=None, max_steps=2, ids=(1, 2), tag="reader_mc", workers=16, timeout=1200):
    """(M) exhaustive: every document of <= max_steps builder actions over the whole vocabulary;
    the Reader invariants hold in every reachable state."""
    vocab.get()
    cfg = tlc.cfg_text(constants={"MaxDepth": 5, "MaxSteps": max_steps, "Ids": set(ids),
                                  "StepPosts": False, "Mode": "all"},
                       invariants=READER_INVS + ["Bound"]) + "CONSTANT Cases <- CasesOne\n"
    r = tlc.run("Reader", cfg, tag=tag, workers=workers, timeout=timeout, coverage=True)
    if ck is not None:
        ck.add_tlc(tag, r)
    return r
