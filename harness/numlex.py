"""Exhaustive number-lexeme family (spec/Numbers.tla) replayed into the real reader and writer.

TLC classifies every sequence over the number alphabet and emits the number lexemes with their kind (int / float).
Each lexeme is placed in every kind of numeric slot of a real document:
  C02: the loaded value is a Python int / float - exactly the kind the model says - equal to the lexeme's value
       (the value itself is computed with CPython's int() / float(): trusted base);
  C01: value and kind survive text -> dict -> text -> dict (in the string-typed slot NAME the number may come back as the
       equal numeric string: the property's second allowance).
"""
from __future__ import annotations
import math
from . import tlc, common

SLOTS = [
    ("layer.maxscaledenom", lambda d: d["maxscaledenom"]),
    ("layer.extent[0]", lambda d: d["extent"][0]),
    ("layer.extent[3]", lambda d: d["extent"][3]),
    ("feature.points[0][0]", lambda d: d["features"][0]["points"][0][0]),
    ("feature.points[1][1]", lambda d: d["features"][0]["points"][1][1]),
    ("style.size", lambda d: d["classes"][0]["styles"][0]["size"]),
    ("style.pattern[0][1]", lambda d: d["classes"][0]["styles"][0]["pattern"][0][1]),
    ("style.offset[1]", lambda d: d["classes"][0]["styles"][0]["offset"][1]),
]


def template(tok):
    return ("LAYER\n  MAXSCALEDENOM %(t)s\n  NAME %(t)s\n  EXTENT %(t)s 2 3.5 %(t)s\n  FEATURE\n    POINTS\n      %(t)s 1\n      2 %(t)s\n    END\n  END\n"
            "  CLASS\n    STYLE\n      SIZE %(t)s\n      PATTERN 1 %(t)s END\n      OFFSET 4 %(t)s\n    END\n  END\nEND\n") % {"t": tok}


def behaviours(ck, max_len, tag="numbers"):
    cfg = tlc.cfg_text(constants={"MaxLen": max_len},
                       invariants=["Disjoint", "SignInvariant", "OneSignOnly", "IntHasNoMark", "FloatHasMark", "Emit"])
    r = tlc.run("Numbers", cfg, tag=tag, workers=8, timeout=1800)
    if r.violated:
        raise common.MachineryFailure("Numbers model law %s violated" % r.violated)
    if ck is not None:
        ck.add_tlc(tag, r)
    out = [p for p in r.prints if isinstance(p, dict) and "kind" in p]
    if len(out) < 50:
        raise common.MachineryFailure("Numbers model emitted %d lexemes" % len(out))
    return out


def shape(tok):
    parts = []
    if tok[:1] in "+-":
        parts.append("signed" + tok[0])
    if tok.lstrip("+-").startswith("."):
        parts.append("leading-dot")
    if "." in tok and (tok.endswith(".") or tok.lower().split("e")[0].endswith(".")):
        parts.append("trailing-dot")
    if "e" in tok.lower():
        parts.append("exp")
    if len(tok.lstrip("+-")) > 1 and tok.lstrip("+-").startswith("0") and not tok.lstrip("+-").startswith("0."):
        parts.append("leading-zero")
    return "+".join(parts) or "plain"


def same(v, want):
    if type(v) is not type(want):
        return False
    if isinstance(want, float) and math.isnan(want):
        return isinstance(v, float) and math.isnan(v)
    return v == want


def run(ck, prop, tier, loads, dumps):
    bs = behaviours(ck, 4 if tier == "quick" else 5, tag="numbers_" + prop.lower())
    n = 0
    for b in bs:
        tok = "".join(b["s"])
        want = int(tok) if b["kind"] == "int" else float(tok)
        sh = b["kind"] + ":" + shape(tok)
        src = template(tok)
        ck.count()
        n += 1
        try:
            d = loads(src)
        except Exception as ex:  # noqa: BLE001
            if prop == "C02":
                ck.violation("C02|number|rejected|%s" % sh, "the number lexeme %s is rejected (%s)" % (tok, type(ex).__name__), {"text": src, "lexeme": tok})
            continue
        if prop == "C02":
            for name, f in SLOTS:
                try:
                    v = f(d)
                except Exception as ex:  # noqa: BLE001
                    v = "<%s>" % type(ex).__name__
                if not same(v, want):
                    ck.violation("C02|number|%s|%s" % (name, sh), "the lexeme %s (%s by the grammar) is loaded as %r (%s) in %s" % (tok, b["kind"], v, type(v).__name__, name),
                                 {"text": src, "lexeme": tok, "slot": name})
            v = d["name"]
            if not same(v, want):
                ck.violation("C02|number|layer.name|%s" % sh, "the bare lexeme %s in a string-typed slot is loaded as %r (%s)" % (tok, v, type(v).__name__),
                             {"text": src, "lexeme": tok})
            continue
        # C01
        if isinstance(want, float) and (math.isinf(want) or math.isnan(want)):
            inf = True
        else:
            inf = False
        try:
            t1 = dumps(d)
            d2 = loads(t1)
        except Exception as ex:  # noqa: BLE001
            ck.violation(("C01|number|overflow|rejected|%s" if inf else "C01|number|rejected|%s") % sh, "the text written for the number %s is not accepted / dumps raised (%s)" % (tok, type(ex).__name__),
                         {"text": src, "lexeme": tok})
            continue
        for name, f in SLOTS:
            try:
                v = f(d2)
            except Exception as ex:  # noqa: BLE001
                v = "<%s>" % type(ex).__name__
            if not same(v, want):
                ck.violation(("C01|number|overflow|%s|%s" if inf else "C01|number|%s|%s") % (name, sh),
                             "round trip turns the number %s (%r) into %r (%s) in %s" % (tok, want, v, type(v).__name__, name),
                             {"text": src, "printed": t1, "lexeme": tok, "slot": name})
        v = d2["name"]
        if not (same(v, want) or (isinstance(v, str) and v == str(want))):
            ck.violation(("C01|number|overflow|layer.name|%s" if inf else "C01|number|layer.name|%s") % sh, "round trip turns the number %s in NAME into %r" % (tok, v),
                         {"text": src, "printed": t1, "lexeme": tok})
    ck.notes.append("number family (spec/Numbers.tla): %d number lexemes replayed for %s" % (n, prop))
    return n
