"""Comment placement, extraction and segmentation for C13 / C14 (no mappyfile imports)."""
from __future__ import annotations
import random
from . import concretise, mapreader

NOTES = ["plain note", "with \"double\" quotes", "it's", "END LAYER MAP", "x = (a > b)", "café 日本", "trailing   spaces kept inside",
         "#hash inside", "/ slash * star", "[bracket] {brace}", "100%", "a\tb"]


def comment_text(c, salt):
    note = NOTES[(c["id"] * 7 + salt) % len(NOTES)]
    # a third of the documents use banner comments: several comments with exactly the same text
    if salt % 3 == 0 and (c["id"] + salt) % 2 == 0:
        return "# ----------" if c["style"] == "hash" else "/* TODO */"
    if c["style"] == "hash" and (c["id"] * 5 + salt) % 11 == 0:
        # a comment whose whole text is a block type name (as END comments are written, but anywhere)
        return ["# LAYER", "# Symbol", "# metadata", "# STYLE", "# class"][(c["id"] + salt) % 5]
    if c["style"] == "hash":
        return "# c%d %s" % (c["id"], note)
    note = note.replace("*/", "* /")
    if c["where"] == "above" and c.get("claimed") and (c["id"] + salt) % 3 == 1:
        # a C comment spanning several lines, with an empty line inside
        return "/* c%d %s\n\n   last line of c%d */" % (c["id"], note, c["id"])
    return "/* c%d %s */" % (c["id"], note)


def canon(texts):
    """comment id -> smallest id carrying the same text (multiset semantics by text)"""
    first = {}
    out = {}
    for cid in sorted(texts):
        t = texts[cid].strip()
        first.setdefault(t, cid)
        out[cid] = first[t]
    return out


def render(conc, hist, root, cms, salt=0, indent=2, nl="\n", include_items=None):
    """one-keyword-per-line layout with the comments placed in their slots.
    Returns (text, {comment id: text}).  include_items: {item index: file name} - the line of that (one-line) item is
    moved into an include file and replaced by an INCLUDE directive; the files are returned as third value."""
    acts = concretise.with_root([a for a in hist if a["a"] != "finish"], root)
    toks = conc.tokens(acts)
    lines = []            # [item, depth, [token texts]]
    for t in toks:
        if t.first or not lines:
            lines.append([t.item, t.depth, [t.text]])
        else:
            lines[-1][2].append(t.text)
    texts = {c["id"]: comment_text(c, salt) for c in cms}
    out = []
    seen = set()
    incfiles = {}
    n_items = len(acts) - 1
    for item, depth, words in lines:
        pad = " " * (indent * depth)
        first_line = item not in seen and item <= n_items
        seen.add(item)
        body = pad + " ".join(words)
        if include_items and item in include_items and first_line and "\n" not in body and "\r" not in body:
            incfiles[include_items[item]] = body + nl
            body = pad + "INCLUDE '%s'" % include_items[item]
        if first_line:
            for c in cms:
                if c["where"] == "above" and c["item"] == item:
                    out.append(pad + texts[c["id"]])
            for c in cms:
                if c["where"] == "eol" and c["item"] == item:
                    body += " " + texts[c["id"]]
        out.append(body)
    if include_items is not None:
        return nl.join(out) + nl, texts, incfiles
    return nl.join(out) + nl, texts


def segment(s, src_texts):
    """split a printed comment string into source comment ids (0 = not a source comment).
    The printer joins several comments of one keyword with single spaces."""
    s = s.strip()
    if not s:
        return []
    by_text = {}
    for cid, t in sorted(src_texts.items()):
        by_text.setdefault(t.strip(), []).append(cid)
    memo = {}

    def rec(pos):
        if pos >= len(s):
            return []
        if pos in memo:
            return memo[pos]
        best = None
        for t, ids in by_text.items():
            if t and s.startswith(t, pos):
                end = pos + len(t)
                if end == len(s):
                    best = [ids[0]]
                    break
                if s[end] == " ":
                    r = rec(end + 1)
                    if r is not None and 0 not in r:
                        best = [ids[0]] + r
                        break
        memo[pos] = best
        return best
    r = rec(0)
    return r if r is not None else [0]


def chains(hist, root):
    """chain signature ("map/layer#2/class#1") for every item of a behaviour: (own chain for openers /
    kv blocks, parent chain for keywords)"""
    acts = [a for a in hist if a["a"] != "finish"]
    stack = [[root + "#1", {}]]
    own = {0: root + "#1"}
    parent = {0: ""}
    for i, a in enumerate(acts, start=1):
        cur = "/".join(s[0] for s in stack)
        parent[i] = cur
        if a["a"] == "open":
            cnt = stack[-1][1]
            cnt[a["type"]] = cnt.get(a["type"], 0) + 1
            stack.append(["%s#%d" % (a["type"], cnt[a["type"]]), {}])
            own[i] = "/".join(s[0] for s in stack)
        elif a["a"] == "end":
            stack.pop()
            own[i] = cur
        elif a["a"] == "kv":
            own[i] = cur + "/" + a["type"] + "#1"
        else:
            own[i] = cur
    return own, parent


def output_view(out, src_texts):
    """per printed line: kind, key, chain signature (own chain for openers), comment ids"""
    lines, events, problems = mapreader.read(out)
    stack = [["", {}]]
    view = []
    for ln in lines:
        kind = ln["kind"]
        ids = []
        for c in (ln["comment"] or []):
            ids += segment(c, src_texts)
        rec = {"kind": kind, "key": (ln["key"] or "").lower(), "ids": ids, "chain": "/".join(s[0] for s in stack[1:])}
        if kind == "open":
            cnt = stack[-1][1]
            k = rec["key"]
            cnt[k] = cnt.get(k, 0) + 1
            stack.append(["%s#%d" % (k, cnt[k]), {}])
            rec["chain"] = "/".join(s[0] for s in stack[1:])
        elif kind == "end":
            if len(stack) > 1:
                stack.pop()
        view.append(rec)
    return view, events, problems
